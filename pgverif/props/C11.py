"""C11 - v-parallel advection evaluates the interpolant at v - c*dt; boundary rule holds."""
from __future__ import annotations

import ast

import sympy as sp
from sympy import Symbol, Integer

from ..core import src, AnalysisError
from .. import units as U
from ..symx import SymExec, ITE, WhileShift, sym_equal, make_args, Undecided, alg_equal
from ..symx import canon_rel, bool_atoms, collect_ites, consistent, resolve_ite
from ..kernels import SPLINE_HANDLERS, S1, FEQ, h_scalar1
from .. import agree

GEN = "general_v_parallel_advection_eval_step"
MODES = {"fEq": "equilibrium distribution at (r, foot)", "null": "zero", "periodic": "periodic image"}


def kernel_mode(chk, mod, code):
    from .C05 import structured
    # early exits of the loop over the feet (`...; continue`) are read in their if/else form
    fn, why = structured(mod.func(GEN))
    if why:
        raise Undecided(why)
    args = make_args(fn, funcs={"eval_spline_1d_scalar": h_scalar1}, overrides={"bound": Integer(code)})
    ex = SymExec(fn, args, calls=dict(SPLINE_HANDLERS))
    ex.run()
    i = Symbol("i", integer=True)
    return ex.env["f"].read([i]), args, i


def spec_quantities(args, i):
    """the quantities the specification is written in, as the kernel names them: foot of node i, domain ends, radius, spline family,
    equilibrium constants"""
    return {"v": args["vPts"].fn(i), "vMin": args["vMin"], "vMax": args["vMax"], "rPos": args["rPos"],
            "fam": (Symbol("arr_kts"), args["deg"], Symbol("arr_coeffs")),
            "consts": [args[n] for n in ("CN0", "kN0", "deltaRN0", "rp", "CTi", "kTi", "deltaRTi")]}


def spec_mode(name, q, i=None):
    if not (isinstance(q, dict) and "v" in q):
        q = spec_quantities(q, i)
    v, fam, consts = q["v"], q["fam"], q["consts"]
    out = sp.Or(sp.Lt(v, q["vMin"]), sp.Gt(v, q["vMax"]))
    if name == "fEq":
        return ITE(out, FEQ(q["rPos"], v, *consts), S1(v, 0, *fam))
    if name == "null":
        return ITE(out, Integer(0), S1(v, 0, *fam))
    if name == "periodic":
        w = q["vMax"] - q["vMin"]
        v1 = WhileShift(v, Integer(1), q["vMin"], w)
        v2 = WhileShift(v1, Integer(3), q["vMax"], -w)
        return S1(v2, 0, *fam)
    raise AnalysisError(name)


# ------------------------------------------------------------------ caller + kernel as one unit
CONST_NAMES = ("CN0", "kN0", "deltaRN0", "rp", "CTi", "kTi", "deltaRTi")


def step_call_model(chk, kmod):
    """the kernel call of VParallelAdvection.step with what step computes for it: single-assignment locals written out, the nodes
    self._points, the arguments c, dt, r of step, the spline data and the constants as canonical quantities.
    -> {'call', 'bind' (wrapper formal -> resolved actual), 'values' (wrapper formal -> symbolic value), 'why', 'canon'}"""
    from .C10 import single_defs, resolved
    from ..symx import Arr, Vec
    import copy
    step = chk.func(U.ADV, "VParallelAdvection.step")
    calls = [c for c in ast.walk(step) if isinstance(c, ast.Call) and isinstance(c.func, ast.Name)
             and c.func.id == "v_parallel_advection_eval_step"]
    if len(calls) != 1:
        return None
    c = calls[0]
    defs = single_defs(step)
    wformals = [a.arg for a in kmod.func("v_parallel_advection_eval_step").args.args]
    cr = ast.Call(func=c.func, args=[resolved(a, defs) for a in c.args],
                  keywords=[ast.keyword(arg=k.arg, value=resolved(k.value, defs)) for k in c.keywords])
    b = agree.bind_call(cr, wformals) or {}

    class Canon(ast.NodeTransformer):
        def visit_Subscript(self, node):
            if src(node.value) == "self._points" and not isinstance(node.slice, (ast.Slice, ast.Tuple)):
                idx = node.slice
                if isinstance(idx, ast.UnaryOp) and isinstance(idx.op, ast.USub) and isinstance(idx.operand, ast.Constant):
                    # a negative index counts from the end
                    idx = ast.BinOp(left=ast.Call(func=ast.Name(id="len", ctx=ast.Load()), args=[ast.Name(id="P", ctx=ast.Load())], keywords=[]),
                                    op=ast.Sub(), right=idx.operand)
                return ast.Subscript(value=ast.Name(id="P", ctx=ast.Load()), slice=idx, ctx=ast.Load())
            return self.generic_visit(node)

        def visit_Attribute(self, node):
            s_ = src(node)
            if s_ == "self._points":
                return ast.Name(id="P", ctx=ast.Load())
            m_ = {"self._spline.basis.knots": "kts", "self._spline.coeffs": "coeffs", "self._spline.basis.degree": "deg",
                  "self._spline.basis.cubic_uniform": "cubic_uniform_splines", "self._edgeType": "bound",
                  "self._points.size": "__nP"}.get(s_)
            if m_:
                return ast.Name(id=m_, ctx=ast.Load())
            if s_.startswith("self._constants.") and s_.split(".")[-1] in CONST_NAMES:
                return ast.Name(id=s_.split(".")[-1], ctx=ast.Load())
            return self.generic_visit(node)
    P = Arr("P")
    env = {"P": P, "kts": Arr("kts"), "coeffs": Arr("coeffs"), "deg": Symbol("deg", integer=True), "bound": Symbol("bound", integer=True),
           "cubic_uniform_splines": Symbol("cubic_uniform_splines", integer=True), "f": Arr("f"),
           "c": Symbol("c", real=True), "dt": Symbol("dt", real=True), "r": Symbol("rPos", real=True),
           "__nP": Symbol("n0_P", integer=True, positive=True)}
    env.update({n_: Symbol(n_, real=True) for n_ in CONST_NAMES})
    ex0 = SymExec(step, env, calls={})
    values, why = {}, {}
    for f_, a_ in b.items():
        try:
            from .C05 import library_forms
            v = ex0.ev(ast.fix_missing_locations(library_forms(Canon().visit(copy.deepcopy(a_)))))
            if isinstance(v, Vec):
                arr_ = Arr(f_, generic=lambda ix, v=v: v.f(tuple(ix)))
                arr_.length = Symbol("n0_P", integer=True, positive=True)
                v = arr_
            values[f_] = v
        except Undecided as e:
            why[f_] = f"`{src(a_)[:60]}`: {e}"
    i = Symbol("i", integer=True)
    nP = Symbol("n0_P", integer=True, positive=True)
    canon = {"v": P.fn(i) - env["c"] * env["dt"], "vMin": P.fn(Integer(0)), "vMax": P.fn(nP - 1), "rPos": env["r"],
             "fam": (Symbol("arr_kts"), env["deg"], Symbol("arr_coeffs")), "consts": [env[n_] for n_ in CONST_NAMES]}
    return {"call": c, "bind": b, "values": values, "why": why, "canon": canon, "defs": defs}


def composed_mode(chk, mod, code, model):
    """f[i] as the kernel computes it for the arguments step hands over (through the dispatch wrapper): (expression, i)"""
    from .C05 import structured
    fn, why = structured(mod.func(GEN))
    if why:
        raise Undecided(why)
    w = mod.func("v_parallel_advection_eval_step")
    wf = [a.arg for a in w.args.args]
    gf = [a.arg for a in fn.args.args]
    inner = [c for c in ast.walk(w) if isinstance(c, ast.Call) and isinstance(c.func, ast.Name) and c.func.id == GEN]
    if not inner:
        raise Undecided("the dispatch wrapper does not call the general routine")
    b = agree.bind_call(inner[0], gf) or {}
    ov, missing = {}, []
    for f_, a_ in b.items():
        if isinstance(a_, ast.Name) and a_.id in wf:
            if a_.id in model["values"]:
                ov[f_] = model["values"][a_.id]
            elif a_.id in model["why"]:
                # not followed: an opaque value under a name of its own (it must not pass for the quantity the parameter is named after)
                from ..symx import Arr
                missing.append(model["why"][a_.id])
                ann = next((src(x.annotation) for x in fn.args.args if x.arg == f_ and x.annotation is not None), "")
                ov[f_] = Arr("unfollowed_" + f_) if "[" in ann else Symbol("unfollowed_" + f_, real=True)
    bound_formal = next((f_ for f_, a_ in b.items() if isinstance(a_, ast.Name) and isinstance(model["bind"].get(a_.id), ast.AST)
                         and src(model["bind"][a_.id]) == "self._edgeType"), "bound")
    ov[bound_formal] = Integer(code)
    ov.pop("f", None)
    args = make_args(fn, funcs={"eval_spline_1d_scalar": h_scalar1}, overrides=ov)
    ex = SymExec(fn, args, calls=dict(SPLINE_HANDLERS))
    ex.run()
    i = Symbol("i", integer=True)
    fo = next((v_ for k_, v_ in ex.env.items() if k_ == "f"), None)
    if fo is None:
        raise Undecided("the kernel has no parameter `f`")
    got = fo.read([i])
    # a parameter whose value at the call in step was not followed must not decide the comparison
    known = {"P", "f_eq", "S1"}
    opaque = sorted({str(a.func) for a in got.atoms(sp.Function) if str(a.func) in gf and str(a.func) not in known} |
                    {str(x) for x in got.free_symbols if str(x) in gf and str(x) not in ("deg", "i") + CONST_NAMES and str(x) not in ov})
    opaque += sorted({str(a.func)[11:] for a in got.atoms(sp.Function) if str(a.func).startswith("unfollowed_")} |
                     {str(x).replace("arr_", "")[11:] for x in got.free_symbols if str(x).startswith(("unfollowed_", "arr_unfollowed_"))})
    if opaque:
        raise Undecided(f"f[i] depends on the kernel argument(s) {opaque} whose value at the call in step was not followed"
                        + (f" ({'; '.join(missing)})" if missing else ""))
    return got, i


def _ws_entry(W, inner=None):
    """the condition under which the shift loop that produced W runs at least once"""
    v, kind, bound, _ = W.args
    v = inner if inner is not None else v
    return {1: sp.Lt, 2: sp.Le, 3: sp.Gt, 4: sp.Ge}[int(kind)](v, bound)


def _ws_core(e):
    while isinstance(e, WhileShift):
        e = e.args[0]
    return e


def _ws_simplify(e, val):
    """`while v < b: v += w` leaves v unchanged when v < b is false on entry: under the truth assignment `val` every shift loop
    whose entry condition is assigned False is the identity (innermost first)"""
    if not isinstance(e, sp.Basic) or not e.has(WhileShift):
        return e
    if not e.args:
        return e
    args = [_ws_simplify(a, val) for a in e.args]
    e2 = e.func(*args)
    if isinstance(e2, WhileShift):
        k, c, n = canon_rel(_ws_entry(e2))
        if (k, c) in val and (val[(k, c)] != n) is False:
            return e2.args[0]
    return e2


def _is_boolean(x):
    from sympy.logic.boolalg import Boolean
    return isinstance(x, Boolean) or x is sp.true or x is sp.false or isinstance(x, bool)


def bool_ite_normal(e):
    """a truth value carried by a local (`outside = v < a or v > b; if ...: outside = False`) is a conditional with Boolean arms:
    ITE(c, p, q) = (c and p) or (not c and q), so that the case split below ranges over the comparisons it is made of instead of
    treating the whole conditional as one free truth value"""
    if not isinstance(e, sp.Basic) or not e.args:
        return e
    args = [bool_ite_normal(a) for a in e.args]
    if isinstance(e, ITE) and _is_boolean(args[1]) and _is_boolean(args[2]) and _is_boolean(args[0]):
        return sp.Or(sp.And(args[0], args[1]), sp.And(sp.Not(args[0]), args[2]))
    try:
        return e.func(*args) if any(x is not y for x, y in zip(args, e.args)) else e
    except Exception:          # noqa: BLE001 - left as it is: the atom check below then refuses to decide
        return e


def sym_equal_ws(a, b, max_atoms=10):
    """symx.sym_equal with one more fact: a shift loop not entered returns its argument.  The entry conditions of the shift loops
    (on the unshifted value) join the case split.
    VIOLATED-soundness: a witness case is a truth assignment to the atomic conditions; it is a real case only when the atoms are
    independent up to the order facts `consistent` knows.  Comparisons (lt/le/eq of one canonical difference) and plain Boolean
    symbols are; any other condition the engine keeps as an opaque 'atom' (a conditional truth value, a call) may be correlated with
    the rest, so a difference found under such an assignment proves nothing: Undecided."""
    import itertools
    a, b = bool_ite_normal(a), bool_ite_normal(b)
    atoms, ites = set(), []
    collect_ites(a, ites)
    collect_ites(b, ites)
    for i in ites:
        bool_atoms(i.args[0], atoms)
    opaque = [e_ for k_, e_ in atoms if k_ == "atom" and not isinstance(e_, sp.Symbol)]
    if opaque:
        raise Undecided(f"condition `{str(opaque[0])[:80]}` is outside the comparisons the case split understands")
    if not ites:
        return sym_equal(a, b, max_atoms)
    for e in (a, b):
        for W in e.atoms(WhileShift):
            bool_atoms(_ws_entry(W, _ws_core(W)), atoms)
    atoms = sorted(atoms, key=str)
    if len(atoms) > max_atoms:
        raise Undecided(f"{len(atoms)} atomic conditions")
    for bits in itertools.product([False, True], repeat=len(atoms)):
        val = dict(zip(atoms, bits))
        if not consistent(val):
            continue
        ra, rb = _ws_simplify(resolve_ite(a, val), val), _ws_simplify(resolve_ite(b, val), val)
        if not alg_equal(ra, rb):
            w = {f"{k}:{e}": v for (k, e), v in val.items()}
            return False, {"case": w, "code": str(ra)[:300], "spec": str(rb)[:300]}
    return True, None


def _value_of_out_form(e):
    """the VALUE of `np.<binary ufunc>(a, b, out=w)` is that of `np.<ufunc>(a, b)` (the result is also left in the work array w, which
    matters to rules about w, not to the value handed on); only used where an expression is read as a value"""
    class N(ast.NodeTransformer):
        def visit_Call(self, node):
            self.generic_visit(node)
            f = node.func
            if isinstance(f, ast.Attribute) and isinstance(f.value, ast.Name) and f.value.id in ("np", "numpy") and len(node.args) == 2 \
                    and [k.arg for k in node.keywords] == ["out"] and f.attr in ("add", "subtract", "multiply", "divide", "true_divide"):
                return ast.copy_location(ast.Call(func=f, args=node.args, keywords=[]), node)
            return node
    return ast.fix_missing_locations(N().visit(e))


def _place_value(fn, place, call):
    """the value a storage place (local name or `self.<attr>`: a preallocated workspace) holds when `call` runs, read from the statement
    list that holds the call: the LAST complete write before the call among the unconditional statements of that list (`place = v`,
    `place[:] = v`, `place[...] = v`, `np.<ufunc>(a, b, out=place)`), provided every other mention of the place in `fn` is a read handed
    to `call` itself or lies after it.  -> (expression | None, reason)"""
    from .C05 import exec_order
    txt = src(place)
    full = lambda sl: (isinstance(sl, ast.Slice) and sl.lower is None and sl.upper is None and sl.step is None) or \
        (isinstance(sl, ast.Constant) and sl.value is Ellipsis)
    mentions = [n for n in ast.walk(fn) if isinstance(n, (ast.Name, ast.Attribute)) and src(n) == txt
                and not any(n is x for x in ast.walk(call))]
    best = None
    for n in mentions:
        before, st, st_c = exec_order(fn, n, call)
        if before is None:
            return None, f"a mention of `{txt}` is not ordered against the kernel call by the statement structure"
        if before is False:
            continue
        val = None
        if isinstance(st, ast.Assign) and len(st.targets) == 1:
            t = st.targets[0]
            if t is n or (isinstance(t, ast.Subscript) and t.value is n and full(t.slice)):
                val = st.value
        elif isinstance(st, ast.Expr) and isinstance(st.value, ast.Call) and [k.arg for k in st.value.keywords] == ["out"] \
                and st.value.keywords[0].value is n:
            val = st.value
        if val is None:
            return None, f"`{src(st)[:80]}` uses `{txt}` before the kernel call in a way that is not a complete write"
        if any(isinstance(x, (ast.Name, ast.Attribute)) and src(x) == txt and x is not n for x in ast.walk(st)):
            return None, f"`{src(st)[:80]}` defines `{txt}` from itself"
        idx = st
        if best is None or exec_order(fn, best[0], idx)[0] is True:
            best = (idx, val)
    if best is None:
        return None, f"no write to `{txt}` before the kernel call in this method"
    return best[1], ""


def _literal_dict(d):
    if isinstance(d, ast.Dict) and all(isinstance(k, ast.Constant) and isinstance(v, ast.Constant) for k, v in zip(d.keys, d.values)):
        return {k.value: v.value for k, v in zip(d.keys, d.values)}
    if isinstance(d, ast.Call) and isinstance(d.func, ast.Name) and d.func.id == "dict" and not d.args and \
            all(k.arg is not None and isinstance(k.value, ast.Constant) for k in d.keywords):
        return {k.arg: k.value.value for k in d.keywords}
    return None


def enum_members(mod, cls_name):
    """{member: integer value} of a class of the module derived from IntEnum / Enum whose members are integer literals or auto()
    (auto() of the standard enums: 1 for the first member, else the previous value + 1); None when the class is not of this form
    (custom _generate_next_value_, computed values, aliases through other expressions)"""
    if not mod.has(cls_name):
        return None
    try:
        cls = mod.cls(cls_name)
    except AnalysisError:
        return None
    if not any(src(b_).split(".")[-1] in ("IntEnum", "Enum", "IntFlag") for b_ in cls.bases):
        return None
    if any(isinstance(st, ast.FunctionDef) and st.name in ("_generate_next_value_", "__new__", "_missing_") for st in cls.body):
        return None
    out, last = {}, 0
    for st in cls.body:
        if isinstance(st, ast.Assign) and len(st.targets) == 1 and isinstance(st.targets[0], ast.Name):
            v = st.value
            if isinstance(v, ast.Constant) and isinstance(v.value, int) and not isinstance(v.value, bool):
                last = v.value
            elif isinstance(v, ast.Call) and src(v.func) in ("auto", "enum.auto") and not v.args and not v.keywords:
                last = last + 1
            else:
                return None
            out[st.targets[0].id] = last
    return out or None


def _handle_table(mod, d, owner=None):
    """{string: integer code} of a literal dict whose values are integer literals or members of an integer enum of the module
    (`E.MEMBER`, `cls.MEMBER` inside a method of E); None when a value is anything else"""
    if isinstance(d, ast.Call) and isinstance(d.func, ast.Name) and d.func.id == "dict" and not d.args and all(k.arg is not None for k in d.keywords):
        keys, vals = [k.arg for k in d.keywords], [k.value for k in d.keywords]
    elif isinstance(d, ast.Dict) and all(isinstance(k, ast.Constant) for k in d.keys):
        keys, vals = [k.value for k in d.keys], list(d.values)
    else:
        return None
    out = {}
    for k, v in zip(keys, vals):
        if isinstance(v, ast.Constant) and isinstance(v.value, int) and not isinstance(v.value, bool):
            out[k] = v.value
        elif isinstance(v, ast.Attribute) and isinstance(v.value, ast.Name):
            cname = owner if v.value.id == "cls" and owner else v.value.id
            mem = enum_members(mod, cname)
            if mem is None or v.attr not in mem:
                return None
            out[k] = mem[v.attr]
        else:
            return None
    return out


def mode_attribute(chk, kmod):
    """the attribute step hands to the kernel as boundary mode (the parameter the kernel branches on with integer literals)"""
    try:
        step = chk.func(U.ADV, "VParallelAdvection.step")
        calls = [c for c in ast.walk(step) if isinstance(c, ast.Call) and isinstance(c.func, ast.Name) and c.func.id == "v_parallel_advection_eval_step"]
        formals = [a.arg for a in kmod.func("v_parallel_advection_eval_step").args.args]
        b = agree.bind_call(calls[0], formals) or {} if len(calls) == 1 else {}
        a = b.get("bound")
        # int(x) / x.value / operator.index(x) of an enum member is its integer code
        for _ in range(3):
            if isinstance(a, ast.Call) and src(a.func) in ("int", "operator.index") and len(a.args) == 1 and not a.keywords:
                a = a.args[0]
            elif isinstance(a, ast.Attribute) and a.attr == "value" and isinstance(a.value, ast.Attribute):
                a = a.value
        if isinstance(a, ast.Attribute) and isinstance(a.value, ast.Name) and a.value.id == "self":
            return src(a)
    except AnalysisError:
        pass
    return "self._edgeType"


def edge_codes(chk, attr="self._edgeType"):
    """E-enum: string -> code table behind the attribute the kernel receives as boundary mode: (table, unknown strings refused?, node).
    Forms: if/elif chain on `edge` with constant assignments; look-up `TABLE[edge]` in a literal dict that is written in place, bound
    to a local, a class attribute (self.X / Class.X) or a module-level name"""
    fn = chk.func(U.ADV, "VParallelAdvection.__init__")
    mod = chk.mod(U.ADV)
    table = {}
    has_raise = False
    node = None
    for n in fn.body:
        if isinstance(n, ast.If) and "edge" in src(n.test):
            node = n

    def dict_behind(d):
        if isinstance(d, ast.Name):
            defs = [x for x in ast.walk(fn) if isinstance(x, ast.Assign) and src(x.targets[0]) == d.id]
            if len(defs) == 1:
                return _literal_dict(defs[0].value)
            tops = [x for x in mod.tree.body if isinstance(x, ast.Assign) and len(x.targets) == 1 and src(x.targets[0]) == d.id]
            return _literal_dict(tops[0].value) if len(tops) == 1 and not defs else None
        if isinstance(d, ast.Attribute) and isinstance(d.value, ast.Name) and d.value.id in ("self", "VParallelAdvection", "cls"):
            cls = mod.cls("VParallelAdvection")
            tops = [x for x in cls.body if isinstance(x, ast.Assign) and len(x.targets) == 1 and src(x.targets[0]) == d.attr]
            inits = [x for x in ast.walk(cls) if isinstance(x, (ast.Assign, ast.AugAssign)) and
                     src(x.targets[0] if isinstance(x, ast.Assign) else x.target).split("[")[0] == f"self.{d.attr}"]
            return _literal_dict(tops[0].value) if len(tops) == 1 and not inits else None
        return _literal_dict(d)
    def table_behind(d):
        """like dict_behind, values may be members of an integer enum of the module"""
        t_ = dict_behind(d)
        if t_ is not None:
            return t_
        if isinstance(d, ast.Name):
            defs = [x for x in ast.walk(fn) if isinstance(x, ast.Assign) and src(x.targets[0]) == d.id]
            if len(defs) == 1:
                return _handle_table(mod, defs[0].value)
            tops = [x for x in mod.tree.body if isinstance(x, ast.Assign) and len(x.targets) == 1 and src(x.targets[0]) == d.id]
            stores = [x for x in ast.walk(mod.tree) if isinstance(x, (ast.Subscript, ast.Call)) and
                      ((isinstance(x, ast.Subscript) and isinstance(x.ctx, ast.Store) and src(x.value) == d.id) or
                       (isinstance(x, ast.Call) and isinstance(x.func, ast.Attribute) and src(x.func.value) == d.id and x.func.attr in
                        ("update", "pop", "setdefault", "clear", "popitem", "__setitem__")))]
            return _handle_table(mod, tops[0].value) if len(tops) == 1 and not defs and not stores else None
        return _handle_table(mod, d)
    assigns = [a for a in ast.walk(fn) if isinstance(a, ast.Assign) and src(a.targets[0]) == attr]
    for a in assigns:
        v = a.value
        if isinstance(v, ast.Subscript) and src(v.slice) == "edge":
            t = table_behind(v.value)
            if t is not None:
                # the other assignments of the attribute (if any) only pass on a value that already is a member of the enum
                # (`if isinstance(edge, E): self.X = edge`): they add accepted inputs, not strings
                others = [o for o in assigns if o is not a]
                if all(src(o.value) == "edge" for o in others):
                    edge_codes.complete = True
                    return t, True, a        # an unknown string raises KeyError (or an explicit test before it): refused
        if isinstance(v, ast.Call) and isinstance(v.func, ast.Attribute) and isinstance(v.func.value, ast.Name) and len(assigns) == 1 \
                and len(v.args) == 1 and not v.keywords and src(v.args[0]) == "edge" and mod.has(f"{v.func.value.id}.{v.func.attr}"):
            # `E.from_handle(edge)`: a class / static method whose body looks the string up in a literal table and returns the entry
            m_ = mod.func(f"{v.func.value.id}.{v.func.attr}")
            decs = [src(d_) for d_ in m_.decorator_list]
            ps = [x.arg for x in m_.args.args]
            if decs in (["classmethod"], ["staticmethod"]) and len(ps) == (2 if decs == ["classmethod"] else 1):
                par = ps[-1]
                body = [s_ for s_ in m_.body if not (isinstance(s_, ast.Expr) and isinstance(s_.value, ast.Constant))]
                tabs = [s_ for s_ in body if isinstance(s_, ast.Assign) and len(s_.targets) == 1 and isinstance(s_.targets[0], ast.Name)
                        and isinstance(s_.value, (ast.Dict, ast.Call))]
                ret = body[-1] if body and isinstance(body[-1], ast.Return) else None
                if len(tabs) == 1 and ret is not None and isinstance(ret.value, ast.Subscript) and src(ret.value.value) == tabs[0].targets[0].id \
                        and src(ret.value.slice) == par and all(isinstance(s_, (ast.Assign, ast.Return)) or
                                                                (isinstance(s_, ast.If) and all(isinstance(x, ast.Raise) for x in s_.body) and not s_.orelse)
                                                                for s_ in body):
                    t = _handle_table(mod, tabs[0].value, owner=v.func.value.id)
                    if t is not None:
                        chk.functions.add(f"{U.ADV}:{v.func.value.id}.{v.func.attr}")
                        edge_codes.complete = True
                        return t, True, a
    if node is None:
        raise AnalysisError("C11: boundary-mode dispatch not found in VParallelAdvection.__init__")
    cur = node
    edge_codes.complete = True          # every arm of the chain was read (a table with an unread arm is not the whole table)
    while True:
        t = cur.test
        read = False
        if isinstance(t, ast.Compare) and len(t.ops) == 1 and isinstance(t.ops[0], ast.Eq) and src(t.left) == "edge" \
                and isinstance(t.comparators[0], ast.Constant):
            key = t.comparators[0].value
            for a in cur.body:
                if isinstance(a, ast.Assign) and src(a.targets[0]) == attr and isinstance(a.value, ast.Constant):
                    table[key] = a.value.value
                    read = True
        if not read:
            edge_codes.complete = False
        if len(cur.orelse) == 1 and isinstance(cur.orelse[0], ast.If):
            cur = cur.orelse[0]
            continue
        has_raise = any(isinstance(x, ast.Raise) for x in cur.orelse)
        break
    return table, has_raise, node


# ------------------------------------------------------------------ every line of the grid is advanced
def _zero_line_test(e, polarity, is_line):
    """does the guard `e`, having truth value `polarity` where the step is SKIPPED, say that the line is identically zero?
    -> True / False (it can hold for non-zero lines) / None (not understood)"""
    skip_if_true = polarity
    while isinstance(e, ast.UnaryOp) and isinstance(e.op, ast.Not):
        e, skip_if_true = e.operand, not skip_if_true

    def name(c):
        return c.func.attr if isinstance(c.func, ast.Attribute) else c.func.id if isinstance(c.func, ast.Name) else ""

    def operand(c):
        if isinstance(c.func, ast.Attribute) and not (isinstance(c.func.value, ast.Name) and c.func.value.id in ("np", "numpy")):
            return c.func.value if not c.args else None
        return c.args[0] if len(c.args) == 1 else None
    if isinstance(e, ast.Call) and name(e) in ("any", "count_nonzero") and operand(e) is not None and is_line(operand(e)):
        return True if not skip_if_true else False
    if isinstance(e, ast.Call) and name(e) == "all" and isinstance(operand(e), ast.Compare):
        c = operand(e)
        if len(c.ops) == 1 and isinstance(c.ops[0], ast.Eq) and is_line(c.left) and isinstance(c.comparators[0], ast.Constant) \
                and c.comparators[0].value == 0:
            return True if skip_if_true else False
    if isinstance(e, ast.Compare) and len(e.ops) == 1 and isinstance(e.comparators[0], ast.Constant) and e.comparators[0].value == 0 \
            and isinstance(e.left, ast.Call) and name(e.left) == "count_nonzero" and operand(e.left) is not None and is_line(operand(e.left)):
        if isinstance(e.ops[0], ast.Eq):
            return True if skip_if_true else False
        if isinstance(e.ops[0], (ast.NotEq, ast.Gt)):
            return True if not skip_if_true else False
    return None


def every_line_advanced(chk, results):
    """the grid-level steps hand EVERY line (i, j, k) of the local block to step(): a guard around the call leaves lines untouched.
    Skipping is harmless exactly when step() would not change the skipped line; for lines that are identically zero this is decided
    from the kernel's own formula of each boundary mode (the interpolating spline of a zero line is zero: S -> 0)."""
    from .C05 import structured
    from .C10 import single_defs, resolved
    from ..core import parent
    for m in ("gridStep", "gridStepKeepGradient"):
        q = f"VParallelAdvection.{m}"
        from .C05 import vpar_entry
        fn0 = vpar_entry(chk, m)
        fn, unstructured = structured(fn0)
        calls = [c for c in ast.walk(fn) if isinstance(c, ast.Call) and isinstance(c.func, ast.Attribute) and c.func.attr == "step"
                 and src(c.func.value) == "self"]
        if not calls:
            continue            # the lines are advanced by a sibling this method delegates to (C-coordinate-role follows the delegation)
        defs = single_defs(fn)
        for c in calls:
            label = f"self.step(...) in {m} runs for every line of the block"
            conds, odd = [], None
            ch, p_ = c, parent(c)
            while p_ is not None and p_ is not fn:
                if isinstance(p_, ast.If):
                    in_body = any(ch is x for x in p_.body)
                    in_else = any(ch is x for x in p_.orelse)
                    conds.append((p_, True if in_body else (False if in_else else None)))
                elif isinstance(p_, (ast.While, ast.Try, ast.IfExp, ast.FunctionDef, ast.Lambda)):
                    odd = p_
                if isinstance(p_, ast.stmt):
                    ch = p_
                p_ = parent(p_)
            st = c
            while not isinstance(st, ast.stmt):
                st = parent(st)
            early = [n for lp in ast.walk(fn) if isinstance(lp, ast.For) and any(x is c for x in ast.walk(lp)) for n in ast.walk(lp)
                     if isinstance(n, (ast.Break, ast.Return, ast.Continue)) and (n.lineno, n.col_offset) < (st.lineno, st.col_offset)]
            if unstructured or odd is not None or early or any(pol is None for _, pol in conds):
                what = unstructured or (f"`{src(early[0])}` before the call" if early else "the call sits in a construct that is not followed")
                chk.ob("F2-every-line", c, label, None, f"control flow around the step call not followed: {what}", file=U.ADV, func=q)
                continue
            if not conds:
                chk.ob("F2-every-line", c, label, True, "the step call is executed unconditionally for every (r, z, theta) of the local block",
                       file=U.ADV, func=q)
                continue
            b = agree.bind_call(c, ["f", "dt", "c", "r"]) or {}
            line = resolved(b["f"], defs) if "f" in b else None

            def is_line(x, line=line):
                return line is not None and src(resolved(x, defs)) == src(line)
            verdict, why = True, []
            for node, pol in conds:
                test = resolved(node.test, defs)
                # the step is skipped when the test has the opposite truth value of the arm the call sits in
                z = _zero_line_test(test, not pol, is_line)
                cond_txt = src(node.test) if not pol else f"not ({src(node.test)})"
                if z is True:
                    # zero lines are skipped: is a zero line a fixed point of step() in every mode on offer?
                    moved = []
                    for name, got in results.items():
                        if got is None:
                            verdict = None if verdict is not False else verdict
                            why.append(f"mode '{name}': the kernel's formula was not extracted")
                            continue
                        g0 = got.replace(lambda x: getattr(x, "func", None) == S1, lambda x: Integer(0))
                        try:
                            same, wit = sym_equal_ws(g0, Integer(0))
                        except Undecided as e:
                            verdict = None if verdict is not False else verdict
                            why.append(f"mode '{name}': {e}")
                            continue
                        if not same:
                            moved.append((name, wit))
                    if moved:
                        verdict = False
                        name, wit = moved[0]
                        why.insert(0, f"lines that are identically zero are skipped (`if {cond_txt}` -> no step), but in boundary mode '{name}' "
                                   f"({MODES.get(name, '')} for feet outside [vMin, vMax]) step() does not leave a zero line zero: with the spline of "
                                   f"the line equal to 0 the kernel still writes {wit['code'] if wit else '?'} in the case {wit['case'] if wit else '?'}; the "
                                   "skipped line stays 0, so the grid-level step disagrees with step() on the same line")
                # VIOLATED-soundness: recognised guard forms only (any / all == 0 / count_nonzero of the very line handed to step), read with their
                # polarity: the step is skipped for lines that are not identically zero
                elif z is False:
                    verdict = False
                    why.insert(0, f"the step is skipped when `{cond_txt}`, which holds for lines that are not identically zero: these lines are "
                               "not advected at all")
                else:
                    if verdict is not False:
                        verdict = None
                    why.append(f"the step call runs only when `{src(node.test) if pol else 'not (' + src(node.test) + ')'}`: whether step() "
                               "would change the skipped lines is not decided")
            chk.ob("F2-every-line", conds[0][0], label, verdict,
                   "; ".join(why) if why else "the guards around the step call only skip lines that step() leaves unchanged in every boundary mode",
                   file=U.ADV, func=q)


def run(chk):
    chk.explanation = (
        "Engine F: for each boundary mode the kernel's assignment to f[i] is extracted and compared with "
        "ITE(foot outside [vMin,vMax], fill, S(foot)) (fill = f_eq(r of the line, foot) / 0) or, for the periodic mode, "
        "S(foot shifted by whole periods until inside) - early exits (`continue`) are read in their if/else form and a shift loop that "
        "is not entered is the identity; the feet handed to the kernel normalise to v_node - c*dt; the row of the gradient table read "
        "by gridStepKeepGradient is written by gridStep in every iteration over the radii; "
        "producer/consumer agreement of the mode codes; dispatch and argument roles; the interpolant is recomputed from "
        "the current nodal values before evaluation; index-space typing of the grid-level loops (advection speed and "
        "radius of the line (i,j,k) being advanced). When the kernel no longer receives ready-made feet and domain ends, the call in "
        "step and the kernel are analysed as one unit (actuals substituted for parameters: foot = node - c*dt formed on either side, "
        "domain ends read from the nodes); the boundary rule is judged at the point the kernel itself uses as foot and F2-feet says "
        "whether that point is v_node - c*dt. F2-every-line: the grid-level steps hand every line of the block to step(); a guard that "
        "skips identically zero lines is decided from the kernel's own formula of each boundary mode with the line's spline set to 0 "
        "(the equilibrium fill of mode 'fEq' does not vanish), other data-dependent guards are undecided. The mode table is found behind "
        "the attribute step hands to the kernel (if/elif chain, literal dict in place, local, class attribute or module constant). "
        "Interpolation accuracy is not decided.")
    chk.assumptions += ["spline evaluators have the semantics stated by C07 (uninterpreted S1(x,der;family))"]
    from .C05 import normalise_structures
    normalise_structures(chk, U.ADV)
    kmod = chk.mod(U.ADVK)
    chk.in_file(U.ADVK)
    chk.functions.add(f"{U.ADVK}:{GEN}")
    table, has_raise, node = edge_codes(chk, mode_attribute(chk, kmod))
    ok = bad = None
    dup = {v for v in table.values() if list(table.values()).count(v) > 1}
    extra = sorted(set(table) - set(MODES))
    if set(MODES) <= set(table) and not dup and has_raise:
        # modes offered NEXT TO the three of the property (a feature added beside the old behaviour) are outside the property: they must
        # only keep their codes apart from the three (no duplicate code), which the table read above shows
        ok = True
    elif dup:
        bad = f"modes {sorted(k for k, v in table.items() if v in dup)} share the code {sorted(dup)[0]}: one of them runs the other's boundary rule"
    elif set(MODES) - set(table) and set(table) <= set(MODES) and table and getattr(edge_codes, "complete", False):
        # VIOLATED: the whole dispatch was read (every arm of the chain / the literal table) and a mode of the property is not in it
        bad = f"mode(s) {sorted(set(MODES) - set(table))} of the property are no longer offered (mode table {table})"
    chk.pat("E3-edge-modes", node, "edge -> self._edgeType", ok, f"modes {table}; any other string is refused" +
            (f" (additional mode(s) {extra} with their own codes are outside the property)" if extra else ""), bad,
            file=U.ADV, func="VParallelAdvection.__init__")
    fnk = kmod.func(GEN)
    gformals = [a.arg for a in fnk.args.args]
    # the kernel alone when it receives the feet and the domain ends ready-made (the feet are then judged at the call: F2-feet);
    # otherwise the call in step and the kernel are analysed as one unit (what step hands over substituted for the parameters)
    composed = not {"vPts", "vMin", "vMax", "rPos"} <= set(gformals)
    model = None
    if composed:
        try:
            model = step_call_model(chk, kmod)
        except AnalysisError:
            raise
        except Exception:          # noqa: BLE001 - the call is then not followed: the rules below say so
            model = None
    results = {}
    for name, what in MODES.items():
        if name not in table:
            continue
        results[name] = None
        try:
            if composed:
                if model is None:
                    raise Undecided("the kernel call of VParallelAdvection.step was not found")
                got, i = composed_mode(chk, kmod, table[name], model)
                args = {"vMin": model["canon"]["vMin"], "vMax": model["canon"]["vMax"]}
                foot = model["canon"]["v"]
                # the boundary rule is judged at the point the kernel itself takes as foot; whether that point is v_node - c*dt is
                # rule F2-feet (one defect, one report)
                own = {_ws_core(a.args[0]) for a in got.atoms(sp.Function) if a.func == S1}
                if len(own) == 1 and not alg_equal(next(iter(own)), foot) and not next(iter(own)).has(sp.Function("mod")):
                    foot = next(iter(own))
                spec = spec_mode(name, dict(model["canon"], v=foot))
            else:
                got, args, i = kernel_mode(chk, kmod, table[name])
                foot = args["vPts"].fn(i)
                spec = spec_mode(name, args, i)
            results[name] = got
            # VIOLATED-soundness: `got` is the kernel's own f[i] for this mode's code (symbolic execution: unknown constructs raise Undecided),
            # `spec` is written in the kernel's own foot / domain ends; the comparison is a case split over comparisons only (sym_equal_ws
            # refuses opaque conditions); the code of the mode comes from a completely read table (E3-edge-modes)
            okm, wit = sym_equal_ws(got, spec)
            why = f"kernel branch for code {table[name]} does not implement mode '{name}': {wit}"
            if not okm and spec.has(WhileShift) and not got.has(WhileShift):
                # the periodic image is computed by a closed form instead of the two shift loops
                if got.has(sp.Function("toint")):
                    why = (f"the periodic image of a foot outside [vMin, vMax] is computed with int(), which truncates towards zero, where the "
                           f"number of periods to shift is a floor/ceiling: in the case {wit['case']} the kernel evaluates {wit['code']}, i.e. a "
                           "foot on one side of the domain is shifted by one period too few (or not at all) and the spline is evaluated outside "
                           "[vMin, vMax]")
                elif any(a.func == S1 and alg_equal(a.args[0], args["vMin"] + sp.Function("mod")(foot - args["vMin"], args["vMax"] - args["vMin"]))
                         for a in got.atoms(sp.Function)):
                    why = ("the periodic image is computed as vMin + (v - vMin) % (vMax - vMin), which folds the feet into the half-open interval "
                           "[vMin, vMax): a foot lying exactly on vMax (zero displacement at the last node, or vMax plus whole periods) is moved "
                           "to vMin, whereas shifting by whole periods until inside leaves it on vMax; the spline in v is clamped, not periodic, "
                           "so the two values differ")
                elif got.has(sp.floor) or got.has(sp.ceiling) or got.has(sp.Function("mod")):
                    okm = None
                    why = (f"the periodic image is computed by the closed form {str(got)[:160]} instead of shift loops: equivalence with "
                           "'shift by whole periods until inside (vMin, vMax]' is outside the algebra of this rule")
            chk.ob("F2-boundary-rule", fnk, f"mode '{name}' (code {table[name]}): f[i] = ...", okm,
                   (f"feet outside the domain take the {what}; inside, the interpolant at the foot" +
                    (" (step and kernel as one unit: foot = v_node - c*dt, domain = [first node, last node])" if composed else "")) if okm else why,
                   file=U.ADVK, func=GEN, facts={"code": str(got)[:300], "spec": str(spec)[:300]})
        except (Undecided, KeyError) as e:
            chk.ob("F2-boundary-rule", fnk, f"mode '{name}'", None, "outside the extractable fragment: " +
                   (f"the kernel has no parameter {e}" if isinstance(e, KeyError) else str(e)), file=U.ADVK, func=GEN)
    from .C05 import wrapper_dispatch, roles as _roles
    wrapper_dispatch(chk, kmod, "v_parallel_advection_eval_step", GEN)
    # call site in VParallelAdvection.step
    step = chk.func(U.ADV, "VParallelAdvection.step")
    calls = [c for c in ast.walk(step) if isinstance(c, ast.Call) and isinstance(c.func, ast.Name)
             and c.func.id == "v_parallel_advection_eval_step"]
    if len(calls) != 1:
        # the kernel may be reached through a callable prepared in the constructor: what it froze there is judged before giving up
        from .C05 import frozen_collaborator_reads
        try:
            frozen_collaborator_reads(chk, U.ADV, "VParallelAdvection", "step", ("v_parallel_advection_eval_step", GEN), kmod)
        except AnalysisError:
            raise
        except Exception:          # noqa: BLE001 - not followed: the error below says so
            pass
        raise AnalysisError("C11: kernel call not found in VParallelAdvection.step")
    c = calls[0]
    formals = [a.arg for a in kmod.func("v_parallel_advection_eval_step").args.args]
    from .C10 import single_defs, resolved
    sdefs = single_defs(step)
    # single-assignment locals of step stand for their definitions at the call
    cres = ast.Call(func=c.func, args=[resolved(a, sdefs) if not isinstance(a, ast.Name) or a.id not in ("f", "r") else a for a in c.args],
                    keywords=[ast.keyword(arg=k.arg, value=resolved(k.value, sdefs)) for k in c.keywords])
    for a0, a1 in zip(list(c.args) + [k.value for k in c.keywords], list(cres.args) + [k.value for k in cres.keywords]):
        for x in ast.walk(a1):
            ast.copy_location(x, a0)
    ast.copy_location(cres, c)
    ast.fix_missing_locations(cres)
    _roles(chk, U.ADV, "VParallelAdvection.step", cres, formals, {
        "f": "f", "r": "rPos", "self._points[0]": "vMin", "self._points[-1]": "vMax",
        "self._spline.basis.knots": "kts", "self._spline.basis.degree": "deg", "self._spline.coeffs": "coeffs",
        "self._edgeType": "bound", "self._spline.basis.cubic_uniform": "cubic_uniform_splines",
    }, const_recv="self._constants", callee=kmod.func("v_parallel_advection_eval_step"))
    b = agree.bind_call(c, formals) or {}
    # the line the kernel overwrites is the caller's array (shared rule, C05.result_in_place)
    from .C05 import result_in_place
    if "f" in b:
        result_in_place(chk, chk.mod(U.ADV).cls("VParallelAdvection"), step, [("v_parallel_advection_eval_step", c, b["f"])], U.ADV,
                        "VParallelAdvection")
    else:
        chk.ob("E2-result-in-place", c, "v_parallel_advection_eval_step: the line it overwrites is the caller's array", None,
               "which argument of the kernel call is the line it overwrites is not established (no parameter named `f`)",
               file=U.ADV, func="VParallelAdvection.step")
    from ..core import same_expr
    from ..npsym import NpSym
    feet = b.get("vPts")
    feet_node = feet
    okf, detail = None, "no argument bound to vPts"
    if isinstance(feet, ast.Name):
        # a local computed once in the method stands for its defining expression
        fd = [n_ for n_ in ast.walk(step) if isinstance(n_, (ast.Assign, ast.AugAssign)) and
              src(n_.targets[0] if isinstance(n_, ast.Assign) else n_.target) == feet.id]
        if len(fd) == 1 and isinstance(fd[0], ast.Assign):
            feet = fd[0].value
        else:
            # the feet are re-assigned before the kernel sees them: folding them into the domain with `%`/np.mod uses the half-open
            # interval [vMin, vMax), the kernel's periodic image (shift loops) the interval (vMin, vMax]
            wrap = [n_ for n_ in fd if any((isinstance(x_, ast.Call) and src(x_.func) in ("np.mod", "np.remainder", "np.fmod")) or
                                           (isinstance(x_, ast.BinOp) and isinstance(x_.op, ast.Mod)) for x_ in ast.walk(n_.value))]
            feet = None
            detail = f"`{feet_node.id}` is assigned {len(fd)} times before the kernel call: feet not extractable"
            if wrap:
                okf = False
                feet_node = wrap[0]
                detail = (f"`{src(wrap[0])[:90]}` folds the feet into [vMin, vMax) before the kernel is called: a foot lying exactly on vMax "
                          "(zero displacement, or a displacement of a whole number of cells reaching vMax) is moved to vMin and takes the "
                          "spline's value there, whereas the kernel's own periodic image leaves it on vMax; the spline in v is clamped, "
                          "so the two values differ")
    if okf is None and ((feet is None and isinstance(feet_node, ast.Name)) or
                        (isinstance(feet, ast.Attribute) and isinstance(feet.value, ast.Name) and feet.value.id == "self"
                         and src(feet) != "self._points")):
        # a workspace (local or attribute of the object) filled before the call: its value at the call is the last complete write of
        # the statement list (allocation first, `np.subtract(.., out=ws)` / `ws[:] = ..` later)
        v_, why_ = _place_value(step, feet_node, c)
        if v_ is not None:
            feet = v_
        elif isinstance(feet, ast.Attribute):
            feet, detail = None, f"feet `{src(feet_node)}` not extractable: {why_}"
    if feet is not None:
        P, cc, dt = sp.symbols("P c dt", real=True)
        try:
            from .C05 import library_forms
            import copy as _copy
            val = NpSym(env={"c": cc, "dt": dt}, hooks={"self._points": P}).ev(library_forms(_value_of_out_form(_copy.deepcopy(feet))))
            okf = bool(alg_equal(val, P - cc * dt))
            detail = "feet are v_node - c*dt" if okf else \
                f"the feet handed to the kernel are `{src(feet)}` = {val}, expected v_node - c*dt = {P - cc * dt}: the interpolant is evaluated at other points"
        except Undecided as e:
            detail = f"feet expression `{src(feet)}` outside the extractable fragment: {e}"
    if composed and "vPts" not in b:
        # the feet are formed inside the kernel from what step hands over: read them off the composed formula (the point at which the
        # interpolant is evaluated for a foot inside the domain)
        feet_node, okf, detail = c, None, "the evaluation point of the interpolant was not extracted (see F2-boundary-rule)"
        got = next((results[m_] for m_ in ("null", "fEq") if results.get(m_) is not None), None)
        if got is not None and model is not None:
            pts_ = {a.args[0] for a in got.atoms(sp.Function) if a.func == S1}
            pts_ = {_ws_core(x) for x in pts_}
            if len(pts_) == 1:
                pt = next(iter(pts_))
                okf = bool(alg_equal(pt, model["canon"]["v"]))
                detail = "the kernel evaluates the interpolant at (node handed over) - (shift handed over) = v_node - c*dt" if okf else \
                    (f"with the arguments of the call in step the kernel evaluates the interpolant at {pt}, expected v_node - c*dt = "
                     f"{model['canon']['v']}")
        chk.ob("F2-feet", c, "feet = v_node - c*dt (formed by step and kernel together)", okf, detail, file=U.ADV, func="VParallelAdvection.step")
    else:
        chk.ob("F2-feet", feet_node if feet_node is not None else c, f"vPts <- {src(feet_node)[:90] if feet_node is not None else '?'}", okf, detail,
               file=U.ADV, func="VParallelAdvection.step")
    pts = [n for n in ast.walk(chk.func(U.ADV, "VParallelAdvection.__init__")) if isinstance(n, ast.Assign)
           and src(n.targets[0]) == "self._points"]
    okp = badp = None
    if len(pts) == 1:
        v_ = pts[0].value
        if same_expr(v_, "eta_vals[3]"):
            okp = True
        elif isinstance(v_, ast.Subscript) and same_expr(v_.value, "eta_vals") and isinstance(v_.slice, ast.Constant):
            badp = f"the nodes are `{src(v_)}`, not the v grid eta_vals[3]: feet, domain ends and spline refer to another dimension"
    chk.pat("E2-point-order", pts[0] if pts else step, "self._points = eta_vals[3]", okp, "nodes are the v grid (dimension 3)", badp,
            file=U.ADV, func="VParallelAdvection.__init__")
    ci = [n_ for n_ in ast.walk(step) if isinstance(n_, ast.Call) and isinstance(n_.func, ast.Attribute) and n_.func.attr == "compute_interpolant"]
    oki = badi = None
    pos = lambda n_: (n_.lineno, n_.col_offset)
    other_calls = [n_ for n_ in ast.walk(step) if isinstance(n_, ast.Call) and n_ is not c and not any(n_ is x for x in ast.walk(c))
                   and not (isinstance(n_.func, ast.Name) and n_.func.id in ("len", "range", "float", "int", "isinstance"))
                   and not (isinstance(n_.func, ast.Attribute) and src(n_.func.value) in ("np", "numpy"))]
    if not ci and not other_calls:
        # not FINDING the interpolation is a defect only when step contains no other call that could perform it
        badi = ("the spline of f is not recomputed in step: the kernel evaluates the spline left over from the previous call (another "
                "line's values) at the feet")
    elif not ci:
        pass
    elif len(ci) == 1 and src(ci[0].func.value) == "self._interpolator":
        bi = agree.bind_call(ci[0], ["ug", "spl"]) or {}
        if set(bi) == {"ug", "spl"} and same_expr(bi["ug"], "f") and same_expr(bi["spl"], "self._spline"):
            # ASSUMPTION of both verdicts: the ORDER of execution of the two calls.  It is read from the statement list that holds both
            # (C05.exec_order), not from line numbers: the statements of a helper written back in place all carry the position of the
            # call they replace.  HOLDS needs the interpolation to be an unconditional statement of that list.
            from .C05 import exec_order
            before, st_i, st_k = exec_order(step, ci[0], c)
            if before is True and isinstance(st_i, ast.Expr) and st_i.value is ci[0]:
                oki = True
            elif before is False and isinstance(st_i, ast.Expr) and st_i.value is ci[0]:
                badi = ("the spline is recomputed only after the kernel has evaluated it: the kernel sees the previous call's spline and the "
                        "new one interpolates already advected values")
    chk.pat("E2-interpolate-before-evaluate", ci[0] if ci else step, "compute_interpolant(f, self._spline)", oki,
            "the spline is recomputed from the current nodal values before it is evaluated at the feet", badi,
            file=U.ADV, func="VParallelAdvection.step")
    # grid-level wiring (index spaces)
    from .C05 import parallel_gradient, v_parallel
    pg_attrs, pg_summ = parallel_gradient(chk)
    v_parallel(chk, pg_summ)
    try:
        every_line_advanced(chk, results)
    except AnalysisError:
        raise
    except Exception as e:          # noqa: BLE001 - undecided, the other rules keep their verdicts
        chk.ob("F2-every-line", chk.func(U.ADV, "VParallelAdvection.gridStep"), "self.step(...) runs for every line of the block", None,
               f"control flow around the step calls not followed: {type(e).__name__}: {e}", file=U.ADV, func="VParallelAdvection.gridStep")
    from .. import lints as _l
    _l.check_cache_keys(chk, U.ADV, "VParallelAdvection")
    chk.floor("F2-", 3)
    chk.floor("E2-argument-role", 8)
    chk.floor("C", 4)


# --- engine I (pgverif/oneshot.py): one-shot iterators handed out by the grid accessors are walked once per creation and never memoised.
# Run first so that its reports do not depend on the idiom recognition of the rules above.
_run_before_engine_I = run


def run(chk):  # noqa: F811
    from ..oneshot import attach
    attach(chk, [(U.ADV, {"VParallelAdvection"})])
    _run_before_engine_I(chk)
