"""Triage: stored basis integrals / weight sums of tiny uniform cubic clamped spaces, and tiny periodic spaces."""
import numpy as np
from pygyro.splines.splines import BSplines, make_knots
from pygyro.splines.spline_interpolators import SplineInterpolator1D
from scipy.integrate import quad

for nc in (1, 2, 3, 4, 6):
    breaks = np.linspace(0.0, 1.0, nc + 1)
    b = BSplines(make_knots(breaks, 3, False), 3, False, True)
    worst = 0.0
    for i in range(b.nbasis):
        s = b[i]
        exact = sum(quad(lambda x: s.eval(x), breaks[k], breaks[k + 1])[0] for k in range(nc))
        worst = max(worst, abs(exact - b.integrals[i]))
    try:
        w = SplineInterpolator1D(b).get_quadrature_coefficients().sum()
    except Exception as e:
        w = repr(e)
    print(f"uniform cubic clamped, ncells={nc}: max |stored - exact| = {worst:.3e}; sum of weights = {w}")
for d, nc in ((2, 2), (3, 3), (4, 4), (2, 3), (3, 4)):
    breaks = np.linspace(0.0, 1.0, nc + 1)
    uniform = False
    b = BSplines(make_knots(breaks, d, True), d, True, uniform)
    try:
        w = SplineInterpolator1D(b).get_quadrature_coefficients()
        print(f"periodic degree {d} ncells={nc}: weights {np.round(w, 6)} sum {w.sum():.12f}")
    except Exception as e:
        print(f"periodic degree {d} ncells={nc}: {type(e).__name__}: {e}")
