"""Element-wise model of vectorised numpy formulas (DESIGN 4.5, second half).

Arrays are represented by their generic element: broadcasting subscripts ([:, None],
[None, :, None]) are the identity, np.prod/np.sum along an axis are uninterpreted
reductions, np.where is ITE, np.arange(a, b) along the stencil axis is a symbol K with
recorded bounds, np.eye is the diagonal indicator.  Forward substitution over the
statements of a function gives each attribute / local as a sympy expression.
"""
from __future__ import annotations

import ast

import sympy as sp
from sympy import Function, Symbol

from .core import src
from .symx import ITE, Undecided, Wrap, PI

PROD = Function("PROD")
SUMR = Function("SUMR")
DELTA = Symbol("DELTA")


class NpSym:
    def __init__(self, env=None, hooks=None):
        self.env: dict[str, object] = dict(env or {})
        self.hooks = hooks or {}          # normalised source text -> sympy value
        self.aranges: dict[str, tuple] = {}       # symbol name -> argument nodes of the np.arange call it stands for
        self.arange_bounds: dict[str, tuple] = {}  # symbol name -> (lo, hi, step) as sympy values (None where not evaluated)
        self._arange_of: dict = {}                 # (line, column, text) of a call -> its symbol

    def lookup_src(self, e):
        s = src(e)
        if s in self.hooks:
            return self.hooks[s]
        if s in self.env:
            return self.env[s]
        return None

    def ev(self, e):
        v = self.lookup_src(e)
        if v is not None:
            return v
        if isinstance(e, ast.Constant):
            if isinstance(e.value, bool):
                return sp.true if e.value else sp.false
            if isinstance(e.value, int):
                return sp.Integer(e.value)
            if isinstance(e.value, float):
                return sp.Rational(repr(e.value))
            raise Undecided(f"constant {e.value!r}")
        if isinstance(e, ast.Name):
            if e.id == "pi":
                return PI
            raise Undecided(f"unknown name `{e.id}`")
        if isinstance(e, ast.Attribute):
            if src(e) in ("np.pi", "math.pi"):
                return PI
            if e.attr == "size" and not isinstance(e.value, ast.Call):
                tracked = self.lookup_src(e.value)
                if isinstance(tracked, sp.Basic):
                    # AUDIT: the size of a TRACKED element-wise value built from np.arange calls is not a free unknown
                    ks = [x for x in tracked.free_symbols if x.name in self.arange_bounds]
                    if len(ks) == 1 and all(b is not None for b in self.arange_bounds[ks[0].name]):
                        lo_, hi_, st_ = self.arange_bounds[ks[0].name]
                        return sp.ceiling((hi_ - lo_) / st_)
                    if ks:
                        raise Undecided(f"`{src(e)}`: size of a value built from {len(ks)} ranges")
                # number of elements of an array the model does not track: an unknown positive integer
                return Symbol("size_" + "".join(ch if ch.isalnum() else "_" for ch in src(e.value)), integer=True, positive=True)
            raise Undecided(f"unknown attribute `{src(e)}`")
        if isinstance(e, ast.BinOp):
            a, b = self.ev(e.left), self.ev(e.right)
            op = e.op
            if isinstance(op, ast.Add):
                return a + b
            if isinstance(op, ast.Sub):
                return a - b
            if isinstance(op, ast.Mult):
                return a * b
            if isinstance(op, ast.Div):
                return a / b
            if isinstance(op, ast.Pow):
                return a ** b
            if isinstance(op, ast.FloorDiv):
                return sp.floor(a / b)
            if isinstance(op, ast.Mod):
                if sp.simplify(b - 2 * PI) == 0:
                    return Wrap(a)
                return Function("mod")(a, b)
            raise Undecided(f"operator in `{src(e)[:40]}`")
        if isinstance(e, ast.UnaryOp):
            v = self.ev(e.operand)
            if isinstance(e.op, ast.USub):
                return -v
            if isinstance(e.op, ast.UAdd):
                return v
            if isinstance(e.op, ast.Not):
                return sp.Not(v)
        if isinstance(e, ast.Compare) and len(e.ops) == 1:
            a, b = self.ev(e.left), self.ev(e.comparators[0])
            op = e.ops[0]
            return {ast.Eq: sp.Eq, ast.NotEq: sp.Ne, ast.Lt: sp.Lt, ast.LtE: sp.Le, ast.Gt: sp.Gt, ast.GtE: sp.Ge}[type(op)](a, b)
        if isinstance(e, ast.Subscript):
            items = e.slice.elts if isinstance(e.slice, ast.Tuple) else [e.slice]
            if all((isinstance(i, ast.Slice) and i.lower is None and i.upper is None and i.step is None) or
                   (isinstance(i, ast.Constant) and (i.value is None or i.value is Ellipsis)) or
                   (isinstance(i, ast.Attribute) and src(i) in ("np.newaxis", "numpy.newaxis")) for i in items):
                # AUDIT: x[:, None], x[None, :], x[...], x[np.newaxis] select every element: the generic element is unchanged (on
                # which AXIS it lies is not part of this model)
                return self.ev(e.value)
            raise Undecided(f"subscript `{src(e)[:50]}`")
        if isinstance(e, ast.Call):
            f = src(e.func)
            name = f.split(".")[-1]
            if any(isinstance(a, ast.Starred) for a in e.args) or any(k.arg is None for k in e.keywords):
                raise Undecided(f"star-expanded arguments in `{src(e)[:50]}`")
            # AUDIT: the one-argument library functions below are read by their FIRST argument: a second positional (`out`) or
            # any keyword (out=, where=, decimals= ...) changes what is computed or where it goes -> Undecided
            unary = ("np.sqrt", "sqrt", "math.sqrt", "np.floor", "floor", "np.ceil", "ceil", "np.abs", "abs", "np.exp", "exp",
                     "np.tanh", "tanh", "np.cos", "cos", "np.sin", "sin")
            if f in unary and name not in self.env and f not in self.env and (len(e.args) != 1 or e.keywords):
                raise Undecided(f"call `{src(e)[:50]}`: arguments beyond the operand")
            if f in ("np.sqrt", "sqrt", "math.sqrt"):
                return sp.sqrt(self.ev(e.args[0]))
            if f in ("np.floor", "floor"):
                return sp.floor(self.ev(e.args[0]))
            if f in ("np.round", "np.rint", "round", "np.around") and len(e.args) == 1 and not e.keywords:
                return Function("round")(self.ev(e.args[0]))
            if f in ("np.ceil", "ceil"):
                return sp.ceiling(self.ev(e.args[0]))
            if f == "len" and len(e.args) == 1 and not e.keywords and not isinstance(e.args[0], ast.Call):
                # AUDIT: the length of a name the model does not track is an unknown positive integer; the length of a TRACKED
                # element-wise value is that of the np.arange it is built from (one arange: its length; none or several: Undecided)
                tracked = self.lookup_src(e.args[0])
                if isinstance(tracked, sp.Basic):
                    ks = [x for x in tracked.free_symbols if x.name in self.arange_bounds]
                    if len(ks) == 1 and all(b is not None for b in self.arange_bounds[ks[0].name]):
                        lo_, hi_, st_ = self.arange_bounds[ks[0].name]
                        return sp.ceiling((hi_ - lo_) / st_)
                    if ks:
                        raise Undecided(f"`{src(e)[:50]}`: length of a value built from {len(ks)} ranges")
                return Symbol("size_" + "".join(ch if ch.isalnum() else "_" for ch in src(e.args[0])), integer=True, positive=True)
            if f in ("np.abs", "abs"):
                return sp.Abs(self.ev(e.args[0]))
            if f in ("np.exp", "exp"):
                return sp.exp(self.ev(e.args[0]))
            if f in ("np.tanh", "tanh", "np.cos", "cos", "np.sin", "sin") and f.split(".")[-1] not in self.env:
                return getattr(sp, f.split(".")[-1])(self.ev(e.args[0]))
            if f in ("np.mod", "np.remainder") and len(e.args) == 2 and not e.keywords:
                a, b = self.ev(e.args[0]), self.ev(e.args[1])
                return Wrap(a) if sp.simplify(b - 2 * PI) == 0 else Function("mod")(a, b)
            if f == "np.where" and len(e.args) == 3 and not e.keywords:
                return ITE(self.ev(e.args[0]), self.ev(e.args[1]), self.ev(e.args[2]))
            if f in ("np.prod", "np.sum"):
                # AUDIT: axis / keepdims / dtype only (where=, initial=, out= change the value or its destination)
                if any(k.arg not in ("axis", "keepdims", "dtype") for k in e.keywords) or not (1 <= len(e.args) <= 2):
                    raise Undecided(f"call `{src(e)[:50]}`")
                ax = [k.value for k in e.keywords if k.arg == "axis"]
                axv = src(ax[0]) if ax else (src(e.args[1]) if len(e.args) > 1 else "all")
                return (PROD if f == "np.prod" else SUMR)(self.ev(e.args[0]), Symbol("axis" + axv))
            if f == "np.arange":
                # AUDIT: ONE symbol per np.arange call (K for the first, K2, K3 ... for the others): two ranges are two index
                # variables (they may lie on different axes or have different bounds); the same call (same position and text)
                # evaluated again is the same symbol.  start= / stop= / step= keywords are not modelled.
                if any(k.arg != "dtype" for k in e.keywords) or not (1 <= len(e.args) <= 3):
                    raise Undecided(f"call `{src(e)[:50]}`")
                pos = (getattr(e, "lineno", None), getattr(e, "col_offset", None), src(e))
                if pos in self._arange_of:
                    return self._arange_of[pos]
                nm = "K" if not self.aranges else f"K{len(self.aranges) + 1}"
                sym = Symbol(nm)
                self.aranges[nm] = tuple(e.args)
                vals = []
                for a_ in e.args:
                    try:
                        vals.append(self.ev(a_))
                    except Undecided:
                        vals.append(None)
                lo_, hi_, st_ = (sp.Integer(0), vals[0], sp.Integer(1)) if len(vals) == 1 else \
                    (vals[0], vals[1], sp.Integer(1)) if len(vals) == 2 else tuple(vals)
                self.arange_bounds[nm] = (lo_, hi_, st_)
                self._arange_of[pos] = sym
                return sym
            if f == "np.eye":
                # AUDIT: the diagonal indicator only for the square identity np.eye(n) / np.eye(n, n) (k= shifts the diagonal)
                if any(k.arg != "dtype" for k in e.keywords) or not (1 <= len(e.args) <= 2) or \
                        (len(e.args) == 2 and src(e.args[0]) != src(e.args[1])):
                    raise Undecided(f"call `{src(e)[:50]}`")
                return DELTA
            if name in self.env and callable(self.env[name]):
                if e.keywords:
                    raise Undecided(f"keyword arguments in `{src(e)[:50]}`")
                return self.env[name](*[self.ev(a) for a in e.args])
            if f in self.env and callable(self.env[f]):
                if e.keywords:
                    raise Undecided(f"keyword arguments in `{src(e)[:50]}`")
                return self.env[f](*[self.ev(a) for a in e.args])
            raise Undecided(f"call `{src(e)[:50]}`")
        raise Undecided(f"expression `{src(e)[:50]}`")

    def _forget(self, key, why):
        """a tracked value that a statement outside the model may have changed"""
        if key in self.env and self.env[key] is not None and not callable(self.env[key]):
            self.env[key] = None
            self.env["<undecided>" + key] = why

    def _stores(self, node):
        """source texts of everything a statement (and the statements inside it) assigns"""
        out = set()
        for n in ast.walk(node):
            tg = []
            if isinstance(n, ast.Assign):
                tg = n.targets
            elif isinstance(n, (ast.AugAssign, ast.AnnAssign)):
                tg = [n.target]
            elif isinstance(n, (ast.For, ast.comprehension)):
                tg = [n.target]
            elif isinstance(n, ast.NamedExpr):
                tg = [n.target]
            elif isinstance(n, ast.With):
                tg = [i.optional_vars for i in n.items if i.optional_vars is not None]
            elif isinstance(n, ast.Call):
                tg = [k.value for k in n.keywords if k.arg == "out"]
            for t in tg:
                for x in ([t] if not isinstance(t, (ast.Tuple, ast.List)) else t.elts):
                    while isinstance(x, (ast.Subscript, ast.Starred)):
                        x = x.value
                    out.add(src(x))
        return out

    def run(self, stmts, skip=lambda st: False):
        """AUDIT: forward substitution over straight-line assignments.  A statement that is not modelled (augmented / tuple /
        subscript stores, loops, conditionals, try, calls with out=) does not bind anything, but a value tracked so far that it may
        CHANGE is forgotten (None, with the reason under '<undecided>key') instead of being kept stale."""
        for st in stmts:
            if skip(st):
                continue
            if isinstance(st, ast.AnnAssign) and st.value is not None and isinstance(st.target, (ast.Name, ast.Attribute)):
                st = ast.copy_location(ast.Assign(targets=[st.target], value=st.value), st)
            if isinstance(st, ast.Assign) and all(isinstance(t, (ast.Name, ast.Attribute)) or
                                                  (isinstance(t, ast.Subscript) and isinstance(t.slice, ast.Slice) and t.slice.lower is None
                                                   and t.slice.upper is None and t.slice.step is None) for t in st.targets):
                for c_ in ast.walk(st.value):
                    if isinstance(c_, ast.Call):
                        for k_ in c_.keywords:
                            if k_.arg == "out":
                                x_ = k_.value
                                while isinstance(x_, ast.Subscript):
                                    x_ = x_.value
                                self._forget(src(x_), f"written through out= in `{src(st)[:50]}`")
                for t in st.targets:
                    key = src(t)
                    if isinstance(t, ast.Subscript):
                        key = src(t.value)       # X[:] = expr
                    try:
                        self.env[key] = self.ev(st.value)
                        self.env.pop("<undecided>" + key, None)
                    except Undecided as e:
                        self.env[key] = None
                        self.env["<undecided>" + key] = str(e)
            elif isinstance(st, ast.With):
                for i_ in st.items:
                    if i_.optional_vars is not None:
                        for x in ast.walk(i_.optional_vars):
                            if isinstance(x, (ast.Name, ast.Attribute)):
                                self._forget(src(x), "bound by a with statement")
                self.run(st.body, skip)
            elif isinstance(st, ast.AugAssign) and isinstance(st.target, (ast.Name, ast.Attribute)):
                key = src(st.target)
                if key in self.env and self.env[key] is not None and not callable(self.env[key]):
                    try:
                        new = ast.copy_location(ast.BinOp(left=st.target, op=st.op, right=st.value), st)
                        ast.fix_missing_locations(new)
                        self.env[key] = self.ev(new)
                    except Undecided as e:
                        self.env[key] = None
                        self.env["<undecided>" + key] = str(e)
            elif isinstance(st, (ast.If, ast.For, ast.While, ast.Try)):
                # AUDIT (contract with the callers, who screen for it - e.g. C10 F6-lagrange-geometry): run() gives the formulas of
                # the UNCONDITIONAL straight-line part; names re-bound inside a compound statement keep that value and are listed
                # under '<rebound>name' so that a caller can tell
                for key in self._stores(st):
                    if key in self.env:
                        self.env["<rebound>" + key] = f"re-bound inside `{src(st)[:50]}`"
            else:
                for key in self._stores(st):
                    self._forget(key, f"changed by `{src(st)[:50]}`, a statement the element-wise model does not follow")
                if isinstance(st, ast.Expr) and isinstance(st.value, ast.Call) and isinstance(st.value.func, ast.Attribute):
                    # a method called on a tracked value for its effect (x.sort(), x.fill(..), x.resize(..))
                    self._forget(src(st.value.func.value), f"`{src(st)[:50]}` may change it in place")
