"""C02 - block decomposition is an exact balanced partition; accessors agree with it."""
from __future__ import annotations

import ast

import sympy as sp

from ..core import src, AnalysisError, parent
from .. import units as U
from ..resolve import inline_locals, expand
from .. import ispace as I
from ..ispace import IS, Ctx, OTHER, eta_grid_tag, G, L, arr
from .. import lints
from .C01 import geometry_check
from .C03 import init_buffer, gather_geometry


def split_formula(chk):
    fn = chk.func(U.LAYOUT, "Layout.__init__")
    loops = [n for n in fn.body if isinstance(n, ast.For) and src(n.iter).replace(" ", "") == "enumerate(self._nprocs)"]
    if len(loops) != 1:
        raise AnalysisError("C02: per-axis loop `for i, nRanks in enumerate(self._nprocs)` not found in Layout.__init__")
    lp = loops[0]
    axis_var, p_var = (e.id for e in lp.target.elts)
    env = {}
    for st in lp.body:
        if isinstance(st, ast.Assign) and isinstance(st.targets[0], ast.Name):
            env[st.targets[0].id] = st
    for need in ("starts",):
        if need not in env:
            raise AnalysisError("C02: per-axis table `starts` not found")
    n, p, k = sp.symbols("n p k", integer=True, positive=True)

    # ---- integer-only arithmetic (exactness for all n, p must not depend on rounding)
    def deps(name, seen):
        if name in seen or name not in env:
            return
        seen.add(name)
        for x in ast.walk(env[name].value):
            if isinstance(x, ast.Name):
                deps(x.id, seen)
    chain = set()
    deps("starts", chain)
    bad = []
    for nm in sorted(chain):
        for x in ast.walk(env[nm].value):
            if isinstance(x, ast.BinOp) and isinstance(x.op, ast.Div):
                bad.append(f"true division in `{nm} = {src(env[nm].value)}`")
            if isinstance(x, ast.Call) and (src(x.func) in ("float", "np.floor", "np.round", "round", "np.rint", "np.ceil") or
                                            (isinstance(x.func, ast.Attribute) and x.func.attr == "astype")):
                bad.append(f"float round-trip `{src(x)[:50]}` in `{nm}`")
    chk.ob("P2-integer-arithmetic", env["starts"], src(env["starts"]), not bad,
           "the block table is computed with integer operators only (//, %, *, +): exact for every extent and process count"
           if not bad else "; ".join(bad) + " - the table depends on floating-point rounding: for some (n, p) a start index "
           "truncates one too low (gap at the last rank / blocks differing by two)", file=U.LAYOUT, func="Layout.__init__")

    # ---- symbolic form of starts(k)
    def sym(e):
        if isinstance(e, ast.Name):
            if e.id == p_var:
                return p
            if e.id == "ranks":
                return k
            if e.id == "n":
                return n
            if e.id in env:
                return sym(env[e.id].value)
            raise KeyError(e.id)
        if isinstance(e, ast.Constant) and isinstance(e.value, int):
            return sp.Integer(e.value)
        if isinstance(e, ast.BinOp):
            a, b = sym(e.left), sym(e.right)
            if isinstance(e.op, ast.Add):
                return a + b
            if isinstance(e.op, ast.Sub):
                return a - b
            if isinstance(e.op, ast.Mult):
                return a * b
            if isinstance(e.op, ast.FloorDiv):
                return sp.floor(a / b)
            if isinstance(e.op, ast.Mod):
                return a - b * sp.floor(a / b)
            if isinstance(e.op, ast.Div):
                return a / b
        if isinstance(e, ast.Call) and isinstance(e.func, ast.Attribute) and e.func.attr == "astype":
            return sp.floor(sym(e.func.value))
        raise KeyError(src(e))
    # ranks = arange(0, p+1)  and  n = len(eta_grids[dims_order[i]])
    rk = env.get("ranks")
    ok_r = rk is not None and src(rk.value).replace(" ", "") in (f"np.arange(0,{p_var}+1)", f"np.arange({p_var}+1)")
    nn = env.get("n")
    ok_n = nn is not None and src(nn.value).replace(" ", "") == f"len(eta_grids[dims_order[{axis_var}]])"
    chk.ob("P2-table-shape", rk or lp, "ranks = arange(0, p+1); n = len(eta_grids[dims_order[i]])", ok_r and ok_n,
           "the table has p+1 entries (one boundary per rank plus the end) for the extent of the dimension at axis i"
           if ok_r and ok_n else f"ranks ok={ok_r}, extent ok={ok_n}", file=U.LAYOUT, func="Layout.__init__")
    try:
        E = sym(env["starts"].value)
    except KeyError as e:
        chk.ob("P2-partition-endpoints", env["starts"], src(env["starts"]), None, f"formula not in the recognised fragment ({e})",
               file=U.LAYOUT, func="Layout.__init__")
        return lp, env
    e0 = sp.simplify(E.subs(k, 0))
    ep = sp.simplify(E.subs(k, p))
    ok0 = e0 == 0
    okp = sp.simplify(ep - n) == 0
    chk.ob("P2-partition-endpoints", env["starts"], "starts[0] == 0", ok0, "the first block starts at 0" if ok0 else
           f"starts[0] normalises to {e0}", file=U.LAYOUT, func="Layout.__init__")
    chk.ob("P2-partition-endpoints", env["starts"], "starts[p] == n", okp, "the last block ends at n (no gap, no overshoot)" if okp else
           f"starts[p] normalises to {ep}, not n: the blocks do not tile [0, n)", file=U.LAYOUT, func="Layout.__init__")
    q = sp.floor(n / p)
    r = n - p * q
    forms = [q * k + sp.floor(r * k / p), sp.floor(n * k / p)]
    bal = any(sp.simplify(sp.expand(E - f)) == 0 for f in forms)
    chk.ob("P2-balanced-form", env["starts"], src(env["starts"].value), bal if bal else None,
           "starts(k) = floor(n/p) k + floor((n mod p) k / p): consecutive differences are floor(n/p) or floor(n/p)+1 "
           "(monotone, lengths differ by at most one)" if bal else
           f"starts(k) = {E} is not one of the recognised balanced forms", file=U.LAYOUT, func="Layout.__init__")
    return lp, env


def table_structure(chk, lp, env):
    t = src(lp).replace(" ", "").replace("\n", ";")
    ax = lp.target.elts[0].id
    checks = [
        ("self._mpi_starts.append(starts[:-1])", "per-rank starts are the first p table entries"),
        ("self._mpi_lengths.append(starts[1:]-starts[:-1])", "per-rank lengths are consecutive differences (telescoping: contiguous, no overlap)"),
        (f"self._starts[{ax}]=starts[myRanks[{ax}]]", "this rank's start is the table entry of its own coordinate"),
        (f"self._ends[{ax}]=starts[myRanks[{ax}]+1]", "this rank's end is the next table entry (same table as the start)"),
        (f"self._shape[{ax}]=self._ends[{ax}]-self._starts[{ax}]", "local extent = end - start"),
    ]
    for frag, what in checks:
        ok = frag in t
        chk.ob("P2-one-table", lp, frag, ok, what if ok else f"`{frag}` not found: starts/ends/lengths are no longer slices of one table",
               file=U.LAYOUT, func="Layout.__init__")
    mx = [n for n in lp.body if isinstance(n, ast.Assign) and src(n.targets[0]).replace(" ", "") == f"self._max_shape[{ax}]"]
    okm = False
    if mx and isinstance(mx[0].value, ast.IfExp):
        v = mx[0].value
        big = env.get("big_size")
        okm = src(v.test).replace(" ", "") in ("nBig>0", "nBig!=0", "0<nBig") and src(v.body) == "big_size" and src(v.orelse) == "small_size" \
            and big is not None and src(big.value).replace(" ", "") in ("small_size+1", "1+small_size") \
            and src(env["small_size"].value).replace(" ", "") == "n//nRanks" and src(env["nBig"].value).replace(" ", "") == "n%nRanks"
    chk.ob("P2-max-block", mx[0] if mx else lp, "max_block_shape = floor(n/p)+1 if n mod p > 0 else floor(n/p)", okm,
           "the advertised maximum block length is the length of the largest block" if okm else
           "max_block_shape is not ceil(n/p)", file=U.LAYOUT, func="Layout.__init__")
    fn = chk.func(U.LAYOUT, "Layout.__init__")
    tt = src(fn).replace(" ", "").replace("\n", ";")
    for frag, what in (("self._size=np.prod(self._shape)", "size = product of the local extents"),
                       ("self._max_size=np.prod(self._max_shape)", "max block size = product of the maximal extents"),
                       ("self._full_shape=tuple([len(eta_grids[i])foriindims_order])", "full shape lists the global extents in layout order"),
                       ("fori,jinenumerate(self._dims_order):;self._inv_dims_order[j]=i", "inv_dims_order is the inverse permutation of dims_order"),
                       ("forj,ninenumerate(nprocs):;self._nprocs[j]=n;myRanks[j]=myRank[j]", "leading axes take the process counts and this rank's coordinates; the others are undistributed")):
        ok = frag in tt.replace(";;", ";")
        chk.ob("P2-derived-attributes", fn, frag[:70], ok, what if ok else f"`{frag}` not found", file=U.LAYOUT, func="Layout.__init__")
    # accessor methods return the stored tables
    mod = chk.mod(U.LAYOUT)
    for prop, attr in (("starts", "_starts"), ("ends", "_ends"), ("shape", "_shape"), ("size", "_size"),
                       ("max_block_shape", "_max_shape"), ("fullShape", "_full_shape"), ("dims_order", "_dims_order"),
                       ("inv_dims_order", "_inv_dims_order"), ("nprocs", "_nprocs")):
        f = mod.func(f"Layout.{prop}")
        rets = [n for n in ast.walk(f) if isinstance(n, ast.Return)]
        ok = len(rets) == 1 and src(rets[0].value) == f"self.{attr}"
        chk.ob("P2-accessor", f, f"Layout.{prop}", ok, f"returns self.{attr}" if ok else f"returns `{src(rets[0].value) if rets else '?'}`",
               file=U.LAYOUT, func=f"Layout.{prop}", nontrivial=False)
    for m, attr in (("mpi_starts", "_mpi_starts"), ("mpi_lengths", "_mpi_lengths")):
        f = mod.func(f"Layout.{m}")
        rets = [n for n in ast.walk(f) if isinstance(n, ast.Return)]
        ok = len(rets) == 1 and src(rets[0].value) == f"self.{attr}[i]"
        chk.ob("P2-accessor", f, f"Layout.{m}", ok, f"returns self.{attr}[i]" if ok else "returns another table", file=U.LAYOUT,
               func=f"Layout.{m}", nontrivial=False)


def grid_accessors(chk):
    mod = chk.mod(U.GRID)
    attrs = {"_layout": ("layout", None, None), "_Vals": eta_grid_tag(), "_splines": I.DimList([OTHER] * 4),
             "_nGlobalCoords": I.DimList([("size", G(d)) for d in range(4)]), "_f": OTHER}
    n_obs = 0
    for m in ("getCoords", "getEta", "getCoordVals", "getGlobalIdxVals", "getGlobalIndices", "get2DSlice", "get1DSlice",
              "get2DSpline", "get1DSpline", "getSpline", "getMin", "getMax", "getBlockForFig", "writeH5Dataset", "loadFromFile"):
        fn = chk.func(U.GRID, f"Grid.{m}")
        env = {a.arg: ("param", a.arg) for a in fn.args.args if a.arg != "self"}
        if fn.args.vararg:
            env[fn.args.vararg.arg] = OTHER
        a = IS(chk, U.GRID, f"Grid.{m}", fn, env, Ctx(dist_dims=None), dict(attrs))
        a.run()
        n_obs += a.nobs
    # G-attr: every self.X read in Grid is defined somewhere in the class
    reads, defined = lints.undefined_self_attrs(mod, "Grid")
    seen = set()
    for meth, node in reads:
        key = (meth.name, node.attr)
        if key in seen:
            continue
        seen.add(key)
        chk.ob("G1-attribute-defined", node, f"self.{node.attr} in Grid.{meth.name}", False,
               f"`self.{node.attr}` is read but no code defines it: every call of Grid.{meth.name} raises AttributeError",
               file=U.GRID, func=f"Grid.{meth.name}")
    chk.ob("G1-attribute-defined", mod.cls("Grid"), "all self.X reads of Grid", not reads,
           f"{len(defined)} attributes defined; every read attribute has a definition" if not reads else
           f"{len(seen)} undefined attribute read(s)", file=U.GRID, func="Grid", nontrivial=False)
    derived_state(chk)
    # getGlobalIndices: local index of axis i + start of axis i, stored at the dimension of axis i
    from ..core import contains as _contains, same_expr as _same
    fn = chk.func(U.GRID, "Grid.getGlobalIndices")
    ok = _contains(fn, "for i, toAdd in enumerate(self._layout.starts):\n    result[self._layout.dims_order[i]] = indices[i] + toAdd") or \
        _contains(fn, "for i, (dim, toAdd) in enumerate(zip(self._layout.dims_order, self._layout.starts)):\n    result[dim] = indices[i] + toAdd")
    bad = None
    if not ok:
        st_ = [n for n in ast.walk(fn) if isinstance(n, ast.Assign) and isinstance(n.targets[0], ast.Subscript) and src(n.targets[0].value) == "result"]
        if len(st_) == 1 and isinstance(parent(st_[0]), ast.For) and _same(parent(st_[0]).iter, "enumerate(self._layout.starts)"):
            key, val = st_[0].targets[0].slice, st_[0].value
            if not _same(key, "self._layout.dims_order[i]"):
                bad = f"the global index is stored at `{src(key)}`, not at the dimension carried by axis i (self._layout.dims_order[i])"
            elif not _same(val, "indices[i] + toAdd"):
                bad = f"the stored value `{src(val)}` is not the local index of axis i plus the start of axis i"
    chk.pat("C-sort", fn, "result[dims_order[i]] = indices[i] + starts[i]", ok,
            "the local index along axis i plus the start of axis i is stored at the dimension carried by axis i", bad,
            file=U.GRID, func="Grid.getGlobalIndices")
    # getGlobalIdxVals = range(start, end) of the same axis
    fn = chk.func(U.GRID, "Grid.getGlobalIdxVals")
    r = [n for n in ast.walk(fn) if isinstance(n, ast.Return)]
    ok = len(r) == 1 and _same(r[0].value, "range(self._layout.starts[i], self._layout.ends[i])")
    bad = None
    if not ok and len(r) == 1 and isinstance(r[0].value, ast.Call) and src(r[0].value.func) == "range" and len(r[0].value.args) == 2 \
            and not any(isinstance(a, ast.Starred) for a in r[0].value.args):
        bad = f"`{src(r[0].value)}` is not the range [starts[i], ends[i]) of the axis asked for"
    chk.pat("C-sort", fn, "range(starts[i], ends[i])", ok, "global indices of the local block along axis i", bad,
            file=U.GRID, func="Grid.getGlobalIdxVals")
    return n_obs


def derived_state(chk):
    """G-derived-state: whatever Grid stores that was computed from self._layout is refreshed wherever self._layout is rebound"""
    cls = chk.mod(U.GRID).cls("Grid")
    derived, missing = lints.derived_state_refresh(cls, "_layout")
    if "_f" not in derived:
        raise AnalysisError("C02/C04: the data view self._f is no longer recognised as derived from self._layout")
    for meth, node, a in missing:
        dn, dm = derived[a]
        chk.ob("G4-layout-derived-state", node, f"self.{a} refreshed in Grid.{meth.name}", False,
               f"Grid.{meth.name} rebinds self._layout but leaves `self.{a}` (filled from self._layout in Grid.{dm}, line {dn.lineno}) "
               "as it was: afterwards the accessors answer for the previous layout", file=U.GRID, func=f"Grid.{meth.name}")
    rebinders = sorted({m.name for m in cls.body if isinstance(m, ast.FunctionDef) and
                        any(isinstance(n, ast.Assign) and any(src(t) == "self._layout" for t in n.targets) for n in ast.walk(m))})
    chk.ob("G4-layout-derived-state", cls, "every layout-derived attribute refreshed by every method that rebinds self._layout", not missing,
           f"derived attributes {sorted(derived)}; methods rebinding the layout {rebinders}", file=U.GRID, func="Grid", nontrivial=False)
    if len(rebinders) < 3:
        raise AnalysisError(f"C02/C04: expected __init__, setLayout and restoreGridValues to rebind self._layout, found {rebinders}")


def run(chk):
    chk.explanation = (
        "Layout.__init__: the per-axis block table is computed in integer arithmetic, its symbolic form normalises to 0 at rank 0 "
        "and n at rank p, and is one of the recognised balanced forms; starts/ends/lengths/shape are slices and differences of "
        "that one table (telescoping), max_block_shape is ceil(n/p); Grid accessors: layout-axis vs dimension sort inference on "
        "every parameter and subscript, every coordinate slice cuts the table of the dimension carried by that axis, no read of "
        "an undefined attribute; the advertised buffer sizes cover the views taken by the transposes (shape-list agreement). "
        "The arithmetic fact 'lengths differ by at most one' is decided only through the recognised form.")
    chk.in_file(U.LAYOUT)
    lp, env = split_formula(chk)
    table_structure(chk, lp, env)
    grid_accessors(chk)
    lay = chk.mod(U.LAYOUT)
    geometry_check(chk, lay)
    init_buffer(chk, lay)
    gather_geometry(chk, lay, "LayoutSwapper._transpose", "dest")
    gather_geometry(chk, lay, "LayoutSwapper._transpose_source_intact", "buf")
    # Grid buffers are allocated with the advertised size
    from .C04 import alloc_agreement
    alloc_agreement(chk, chk.mod(U.GRID))
    chk.floor("P2-", 20)
    chk.floor("C-sort", 8)
    chk.floor("G1-", 1)
