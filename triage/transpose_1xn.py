import sys; sys.path.insert(0,'/verif/triage/fake_mpi'); sys.path.insert(0,'/repo')
import numpy as np, mpi4py, warnings
warnings.simplefilter('ignore')
from pygyro.model.layout import getLayoutHandler
def case(shape,grid,layouts,src,dst,usebuf):
    n=int(np.prod(grid)); G=np.arange(np.prod(shape),dtype=float).reshape(shape)
    eta=[np.arange(s,dtype=float) for s in shape]
    def fn(comm):
        h=getLayoutHandler(comm,layouts,list(grid),eta)
        ls=h.getLayout(src); ld=h.getLayout(dst)
        a=np.full(h.bufferSize,-1.0); b=np.full(h.bufferSize,-2.0); c=np.full(h.bufferSize,-3.0)
        sl=tuple(slice(s,e) for s,e in zip(ls.starts,ls.ends))
        a[:ls.size]=np.transpose(G,ls.dims_order)[sl].ravel()
        a0=a.copy()
        h.transpose(a,b,src,dst,c if usebuf else None)
        sd=tuple(slice(s,e) for s,e in zip(ld.starts,ld.ends))
        ok=np.array_equal(b[:ld.size].reshape(ld.shape),np.transpose(G,ld.dims_order)[sd])
        intact=np.array_equal(a,a0)
        return ok,intact
    return mpi4py.run(n,fn)
L={'flux_surface':[0,3,1,2],'v_parallel':[0,2,1,3],'poloidal':[3,2,1,0]}
for grid in [(1,3),(2,2),(3,1),(2,3)]:
  for shape in [[4,5,7,8],[6,6,6,6]]:
    for s in L:
      for d in L:
        if s==d: continue
        for ub in (False,True):
          out,err=case(shape,grid,L,s,d,ub)
          bad=[e for e in err if e]
          if bad or not all(o and o[0] and (o[1] or not ub) for o in out):
              print(grid,shape,s,'->',d,'buf' if ub else 'nobuf','ERR' if bad else out, (bad[0].strip().splitlines()[-1] if bad else ''))
print('done')
