"""C08 - interpolants reproduce their data (narrow claim: the structural clauses).

Decided: periodic coefficient wrap after every periodic solve (full rows/columns, right basis,
right counts), the two sweeps of the 2-D solve use the interpolator/spline of their own
dimension, factorisation and solve routine are selected as a pair and by dtype *equality*,
the solve receives the factors the factorisation produced, the collocation matrix is built
from the same basis.  S(x_i) = u_i, polynomial reproduction, conditioning: numerical, declined.
"""
from __future__ import annotations

import ast

from ..core import src, AnalysisError, parent, same_expr, contains, guards_of
from .. import units as U


def one_d(chk):
    init = chk.func(U.INTERP, "SplineInterpolator1D.__init__")
    # collocation matrix from the same basis
    okc = contains(init, "self._imat = self.collocation_matrix(basis.nbasis, basis.knots, basis.degree, basis.greville, "
                         "basis.periodic, basis.cubic_uniform)")
    chk.ob("H1-collocation-arguments", init, "collocation_matrix(basis.nbasis, knots, degree, greville, periodic, cubic_uniform)", okc,
           "number of basis functions, knots, degree, interpolation points, periodicity and family all come from the one basis"
           if okc else "collocation matrix is no longer built from the attributes of the one basis", file=U.INTERP,
           func="SplineInterpolator1D.__init__")
    cm = chk.func(U.INTERP, "SplineInterpolator1D.collocation_matrix")
    formals = [a.arg for a in cm.args.args]
    okf = formals == ["nb", "knots", "degree", "xgrid", "periodic", "cubic_uniform_splines"]
    chk.ob("H1-collocation-arguments", cm, "collocation_matrix signature", okf, "positional roles match the call" if okf else
           f"signature {formals}", file=U.INTERP, func="SplineInterpolator1D.collocation_matrix", nontrivial=False)
    okj = contains(cm, "def js(span):\n    return [(span - degree + s) % nb for s in range(degree + 1)]") and \
        contains(cm, "def js(span):\n    return slice(span - degree, span + 1)")
    chk.ob("H1-collocation-columns", cm, "columns [span-degree, span] (mod nb when periodic)", okj,
           "row i holds the degree+1 non-vanishing basis values at columns span-degree..span, wrapped modulo the number of basis "
           "functions on periodic spaces" if okj else "column indexing of the collocation matrix changed", file=U.INTERP,
           func="SplineInterpolator1D.collocation_matrix")
    # filling: a periodic function longer than the period occurs twice in one span; the two values add up
    from ..core import find as _find
    fills_add = [c for c in ast.walk(cm) if isinstance(c, ast.Call) and src(c.func) == "np.add.at" and len(c.args) == 3
                 and src(c.args[0]) == "mat" and src(c.args[2]) == "basis" and src(c.args[1]).replace(" ", "") == "(i,js(span))"]
    fills_set = [n for n in ast.walk(cm) if isinstance(n, ast.Assign) and isinstance(n.targets[0], ast.Subscript)
                 and src(n.targets[0].value) == "mat" and "js(" in src(n.targets[0].slice)]
    bad = None
    if fills_set:
        bad = (f"`{src(fills_set[0])}` assigns the basis values at the wrapped columns: when a periodic space has as many cells as the "
               "degree the same column occurs twice in js(span) and the second value overwrites the first instead of adding to it - "
               "the matrix is not the collocation matrix, interpolants do not reproduce their data")
    chk.pat("H1-collocation-accumulate", fills_set[0] if fills_set else cm, "np.add.at(mat, (i, js(span)), basis) on both arms",
            len(fills_add) == 2 and not fills_set, "values falling on the same (wrapped) column are added", bad, file=U.INTERP,
            func="SplineInterpolator1D.collocation_matrix")
    # dtype dispatch: pair (factorisation, solve) selected by equality with complex
    ifs = [n for n in ast.walk(init) if isinstance(n, ast.If) and "dtype" in src(n.test)]
    ok = False
    why = "dtype dispatch not found"
    if len(ifs) == 1:
        t = ifs[0].test
        eq = isinstance(t, ast.Compare) and len(t.ops) == 1 and isinstance(t.ops[0], ast.Eq) and \
            {src(t.left), src(t.comparators[0])} == {"dtype", "complex"}
        a, b = ifs[0].body, ifs[0].orelse
        pair_c = contains(a, "self._bmat, self._ipiv, self._finfo = zgbtrf(bmat, self._l, self._u)") and contains(a, "self._solveFunc = zgbtrs")
        pair_r = contains(b, "self._bmat, self._ipiv, self._finfo = dgbtrf(bmat, self._l, self._u)") and contains(b, "self._solveFunc = dgbtrs")
        ok = eq and pair_c and pair_r
        why = ("complex data selects the complex factorisation together with the complex solve, real data the real pair; the test is an "
               "equality, so every spelling of the complex dtype (complex, np.dtype(complex)) takes the complex pair") if ok else \
            (f"the complex pair is selected by `{src(t)}`: " + ("an identity test is False for np.dtype(complex)/array.dtype, which then "
             "silently takes the real LAPACK pair and drops the imaginary part" if not eq else f"pairs: complex ok={pair_c}, real ok={pair_r}"))
    chk.ob("H2-factor-solve-pair", ifs[0] if ifs else init, "dtype == complex -> (zgbtrf, zgbtrs) else (dgbtrf, dgbtrs)", ok, why,
           file=U.INTERP, func="SplineInterpolator1D.__init__")
    sn = chk.func(U.INTERP, "SplineInterpolator1D._solve_system_nonperiodic")
    oks = contains(sn, "c[:], self._sinfo = self._solveFunc(self._bmat, self._l, self._u, ug, self._ipiv)")
    chk.ob("H2-factor-solve-pair", sn, "solve(bmat, l, u, ug, ipiv)", oks, "the solve receives the factors, band widths and pivots the "
           "factorisation produced, and the data as right-hand side" if oks else "arguments of the banded solve changed", file=U.INTERP,
           func="SplineInterpolator1D._solve_system_nonperiodic")
    okb = contains(init, "bmat[self._u + self._l + i - j, j] = cmat[i, j]") and contains(init, "bmat = np.zeros((1 + self._u + 2 * self._l, cmat.shape[1]))") \
        and contains(init, "self._l = abs(dmat.offsets.min())") and contains(init, "self._u = dmat.offsets.max()")
    chk.ob("H2-band-storage", init, "LAPACK band storage", okb, "entry (i,j) is stored at row u+l+i-j of a (1+u+2l)-row band array (general "
           "band storage with room for fill-in)" if okb else "band storage layout changed", file=U.INTERP, func="SplineInterpolator1D.__init__")
    # periodic solve followed by the wrap
    sp_ = chk.func(U.INTERP, "SplineInterpolator1D._solve_system_periodic")
    okp = contains(sp_, "n = self._basis.nbasis\np = self._basis.degree\nc[0:n] = self._splu.solve(ug)\nc[n:n + p] = c[0:p]")
    chk.ob("H3-periodic-wrap", sp_, "c[0:n] = solve(ug); c[n:n+p] = c[0:p]", okp, "the n periodic coefficients are followed by a copy of "
           "the first `degree` of them" if okp else "periodic solve is no longer followed by the coefficient wrap", file=U.INTERP,
           func="SplineInterpolator1D._solve_system_periodic")
    ci = chk.func(U.INTERP, "SplineInterpolator1D.compute_interpolant")
    okd = contains(ci, "if self._basis.periodic:\n    self._solve_system_periodic(ug, spl.coeffs)\nelse:\n    self._solve_system_nonperiodic(ug, spl.coeffs)") \
        and contains(ci, "assert spl.basis is self._basis") and contains(ci, "assert len(ug) == self._basis.nbasis")
    chk.ob("H3-periodic-wrap", ci, "periodic basis -> periodic solve (with wrap)", okd, "the solve path is selected by the basis' own "
           "periodicity and the spline must live on the same basis" if okd else "dispatch between periodic and clamped solve changed",
           file=U.INTERP, func="SplineInterpolator1D.compute_interpolant")
    okl = contains(init, "if basis.periodic:\n    self._splu = splu(csc_matrix(self._imat))")
    chk.ob("H3-periodic-wrap", init, "periodic: sparse LU of the collocation matrix", okl, "", file=U.INTERP,
           func="SplineInterpolator1D.__init__", nontrivial=False)


def two_d(chk):
    fn = chk.func(U.INTERP, "SplineInterpolator2D.compute_interpolant")
    init = chk.func(U.INTERP, "SplineInterpolator2D.__init__")
    oki = contains(init, "self._spline1 = Spline1D(basis1, dtype)\nself._spline2 = Spline1D(basis2, dtype)\n"
                         "self._interp1 = SplineInterpolator1D(basis1, dtype)\nself._interp2 = SplineInterpolator1D(basis2, dtype)") and \
        contains(init, "self._bwork = np.zeros((n2 + p2, n1 + p1))") and contains(init, "n1, n2 = (basis1.ncells, basis2.ncells)") and \
        contains(init, "p1, p2 = (basis1.degree, basis2.degree)")
    chk.pat("H4-sweep-roles", init, "1-D tools of dimension k are built on basis k; work array is the transposed coefficient shape", oki,
            "spline/interpolator k are built on basis k", file=U.INTERP, func="SplineInterpolator2D.__init__")
    ok1 = contains(fn, "for i1 in range(n1):\n    self._interp2.compute_interpolant(ug[i1, :], self._spline2)\n    w[i1, :] = self._spline2.coeffs")
    bad1 = None
    if not ok1:
        c1 = [c for c in ast.walk(fn) if isinstance(c, ast.Call) and src(c.func) == "self._interp1.compute_interpolant"
              and c.args and src(c.args[0]).replace(" ", "").startswith("ug[")]
        if c1:
            bad1 = f"`{src(c1[0])[:70]}`: the rows of the data (fixed x1, running along x2) are interpolated with the tools of dimension 1"
    chk.pat("H4-sweep-roles", fn, "first sweep: rows of ug along x2 with interp2/spline2", ok1,
            "each row (fixed x1) is interpolated along x2 with the tools of dimension 2", bad1, file=U.INTERP,
            func="SplineInterpolator2D.compute_interpolant")
    ok2 = contains(fn, "wt[:, :] = w.transpose()") and \
        contains(fn, "for i2 in range(n2):\n    self._interp1.compute_interpolant(wt[i2, :n1], self._spline1)\n    wt[i2, :] = self._spline1.coeffs")
    bad2 = None
    if not ok2:
        st2 = [n for n in ast.walk(fn) if isinstance(n, ast.Assign) and isinstance(n.targets[0], ast.Subscript)
               and src(n.targets[0].value) == "wt" and "self._spline1.coeffs" in src(n.value)]
        if st2 and (src(n_ := st2[0].targets[0].slice).replace(" ", "") != "i2,:" or src(st2[0].value) != "self._spline1.coeffs"):
            bad2 = (f"`{src(st2[0])}` keeps only part of the coefficient vector of the x1 solve: the entries added by the solve's own periodic "
                    "wrap are lost (or taken from stale content of the work array)")
    chk.pat("H4-sweep-roles", fn, "second sweep: rows of the transposed coefficients along x1 with interp1/spline1", ok2,
            "each x2-coefficient row is interpolated along x1 with the tools of dimension 1, using its first n1 entries as data",
            bad2, file=U.INTERP, func="SplineInterpolator2D.compute_interpolant")
    okn = contains(fn, "n1, n2 = (basis1.nbasis, basis2.nbasis)\np1, p2 = (basis1.degree, basis2.degree)") and contains(fn, "assert ug.shape == (n1, n2)")
    chk.pat("H4-sweep-roles", fn, "n_k = nbasis of basis k, p_k = degree of basis k", okn, "counts of dimension k come from basis k",
            file=U.INTERP, func="SplineInterpolator2D.compute_interpolant")
    # intermediate coefficients are kept in storage whose type does not depend on the caller's data
    likes = {}
    for n_ in ast.walk(fn):
        if isinstance(n_, ast.Assign) and isinstance(n_.targets[0], ast.Name) and isinstance(n_.value, ast.Call) \
                and src(n_.value.func) in ("np.empty_like", "np.zeros_like", "np.ones_like") and n_.value.args \
                and src(n_.value.args[0]) in ("ug",) and not any(k.arg == "dtype" for k in n_.value.keywords):
            likes[n_.targets[0].id] = n_
    badw = [n_ for n_ in ast.walk(fn) if isinstance(n_, ast.Assign) and isinstance(n_.targets[0], ast.Subscript)
            and src(n_.targets[0].value) in likes and "coeffs" in src(n_.value)]
    chk.ob("H5-work-dtype", badw[0] if badw else fn, "intermediate coefficients are not stored in an array typed like the data", not badw,
           "the work arrays are the spline's own coefficient array and a float work array" if not badw else
           f"`{src(badw[0])}` stores spline coefficients in `{src(likes[src(badw[0].targets[0].value)].value)}`, an array of the DATA's "
           "dtype: integer data truncates, single precision rounds the first-sweep coefficients, and the interpolant no longer reproduces "
           "the data", file=U.INTERP, func="SplineInterpolator2D.compute_interpolant", nontrivial=False)
    # the x2 wrap: all columns of the work array, guarded by basis2.periodic, with n2/p2; before the final transpose
    wraps = [n for n in ast.walk(fn) if isinstance(n, ast.Assign) and isinstance(n.targets[0], ast.Subscript)
             and isinstance(n.targets[0].slice, ast.Tuple) and isinstance(n.targets[0].slice.elts[0], ast.Slice)
             and n.targets[0].slice.elts[0].lower is not None and src(n.targets[0].value) in ("wt", "w")]
    seen = set()
    for wnode in wraps:
        arr = src(wnode.targets[0].value)
        gs = [src(t) for t, pol, k in guards_of(wnode) if pol]
        rows, cols = wnode.targets[0].slice.elts
        vrows, vcols = (wnode.value.slice.elts if isinstance(wnode.value, ast.Subscript) and isinstance(wnode.value.slice, ast.Tuple) else (None, None))
        if arr == "wt":
            want_g, nn, pp = "self._basis2.periodic", "n2", "p2"
        else:
            want_g, nn, pp = "self._basis1.periodic", "n1", "p1"
        full_cols = isinstance(cols, ast.Slice) and cols.lower is None and cols.upper is None and \
            isinstance(vcols, ast.Slice) and vcols.lower is None and vcols.upper is None
        okw = want_g in gs and same_expr(rows, f"slice({nn}, {nn} + {pp})") if False else \
            (want_g in gs and src(rows).replace(" ", "") == f"{nn}:{nn}+{pp}" and vrows is not None and src(vrows).replace(" ", "") == f":{pp}"
             and full_cols and src(wnode.value.value) == arr)
        seen.add(arr)
        chk.ob("H3-periodic-wrap", wnode, src(wnode), okw,
               f"on a periodic dimension the first {pp} coefficient rows are repeated after the {nn}-th, over the whole extent of the other "
               "dimension (including its own wrapped part)" if okw else
               (f"the wrap of `{arr}` covers only `{src(cols)}` of the other dimension: the remaining coefficients of the wrapped rows keep "
                "stale first-sweep values (periodic x clamped combinations interpolate wrongly)" if not full_cols else
                f"wrap guard/extent: guards={gs}, rows={src(rows)}, from={src(vrows) if vrows is not None else '?'}"),
               file=U.INTERP, func="SplineInterpolator2D.compute_interpolant")
    if seen != {"wt", "w"}:
        chk.ob("H3-periodic-wrap", fn, "two wraps (x2 on the work array, x1 on the result)", None if not seen else False,
               f"wrap statements found for {sorted(seen)} only" if seen else "periodic wraps of the 2-D coefficients not recognised",
               file=U.INTERP, func="SplineInterpolator2D.compute_interpolant")
    # order: x2 wrap, transpose back, x1 wrap
    body = fn.body
    pos = {}
    for k, st in enumerate(body):
        s_ = src(st)
        if "self._basis2.periodic" in s_:
            pos["wrap2"] = k
        if s_.replace(" ", "") == "w[:,:]=wt.transpose()":
            pos["back"] = k
        if "self._basis1.periodic" in s_:
            pos["wrap1"] = k
    oko = len(pos) == 3 and pos["wrap2"] < pos["back"] < pos["wrap1"]
    chk.ob("H3-periodic-wrap", fn, "order: x2 wrap -> transpose back -> x1 wrap", oko if len(pos) == 3 else None,
           "the x2 wrap is applied to the work array before it is transposed back, the x1 wrap to the final coefficients" if oko else
           (f"order of wrap/transposition changed: {pos}" if len(pos) == 3 else f"wrap/transposition statements not all recognised: {pos}"),
           file=U.INTERP, func="SplineInterpolator2D.compute_interpolant")


def run(chk):
    chk.explanation = (
        "Narrow structural claim: collocation matrix built from one basis with columns [span-degree, span] (mod nb when periodic); "
        "factorisation and solve selected as a pair by dtype equality and fed with each other's factors; periodic solves followed by "
        "the coefficient wrap; in 2-D each sweep uses the tools of its own dimension and both wraps cover the full extent of the "
        "other dimension in the right order. The defining identity S(x_i)=u_i, polynomial reproduction and conditioning are numerical "
        "and are not decided.")
    chk.in_file(U.INTERP)
    one_d(chk)
    two_d(chk)
    chk.floor("H", 14)
    chk.floor("H3-periodic-wrap", 2)
