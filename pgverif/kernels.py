"""Uninterpreted summaries of the spline evaluators and physics helpers used by the
formula checks (C10-C16).  The spline evaluators have the semantics stated by C07:
S1(x, der; knots, degree, coeffs), S2(x, y, der1, der2; kts1, deg1, kts2, deg2, coeffs)."""
from __future__ import annotations

import ast
import os

import sympy as sp
from sympy import Function, Symbol

from .symx import Arr, Undecided, SymExec
from .core import src

S1 = Function("S1")
S2 = Function("S2")
FEQ = Function("f_eq")


def sym_of(v):
    """symbol standing for a whole array / scalar argument"""
    if isinstance(v, Arr):
        return Symbol("arr_" + v.name)
    return v


_FORMALS_SEEN: dict = {}


def _repo_formals(name):
    """parameter lists [(names, number of trailing defaults, defaults all literal 0)] of every definition of `name` in the spline /
    initialisation modules of the repository being analysed (read from the source, nothing is imported)"""
    from .core import REPO
    if name in _FORMALS_SEEN:
        return _FORMALS_SEEN[name]
    found = []
    for sub in ("pygyro/splines", "pygyro/initialisation"):
        d = os.path.join(str(REPO), sub)
        if not os.path.isdir(d):
            continue
        for fn_ in sorted(os.listdir(d)):
            if not fn_.endswith(".py"):
                continue
            try:
                txt = open(os.path.join(d, fn_), encoding="utf-8").read()
                if ("def " + name + "(") not in txt:
                    continue
                tree = ast.parse(txt)
            except (OSError, SyntaxError, UnicodeDecodeError):
                found.append(None)
                continue
            for n in tree.body:
                if isinstance(n, ast.FunctionDef) and n.name == name:
                    A = n.args
                    plain = not (A.vararg or A.kwarg or A.kwonlyargs or getattr(A, "posonlyargs", []))
                    zero = all(isinstance(d_, ast.Constant) and d_.value == 0 and not isinstance(d_.value, bool) for d_ in A.defaults)
                    found.append(([a.arg for a in A.args], len(A.defaults), zero) if plain else None)
    _FORMALS_SEEN[name] = found
    return found


def formals_established(call_name, names, optional):
    """AUDIT: the handlers below read a call through a FIXED parameter list (`names`, of which the trailing `optional` ones default
    to 0).  That is a fact about the code only when the routines of that name defined in the repository have exactly these
    parameters in this order (an evaluator whose parameters were reordered consistently in the definition and at the call sites
    would otherwise be mis-read).  A name without prefix (a function-valued parameter) stands for the cu_ / nu_ routines."""
    cands = [call_name] if call_name.startswith(("cu_", "nu_")) or call_name == "f_eq" else ["cu_" + call_name, "nu_" + call_name]
    seen = 0
    for c in cands:
        for sig in _repo_formals(c):
            if sig is None:
                return False
            ns, ndef, zero = sig
            seen += 1
            if ns != list(names) or not zero or ndef > len(optional):
                return False
    return seen > 0


def argvals(ex: SymExec, call: ast.Call, names, optional=()):
    """bind positional/keyword actuals to the given formal names
    AUDIT: as Python binds them - star-expanded actuals, more positionals than formals, a keyword that is not a formal or that is
    already bound, a missing non-optional formal: Undecided; the formal list itself is checked against the repository."""
    f = call.func
    cname = f.id if isinstance(f, ast.Name) else f.attr if isinstance(f, ast.Attribute) else None
    if cname is not None and (cname in SPLINE_HANDLERS) and not formals_established(cname, names, optional):
        raise Undecided(f"`{cname}`: the parameter list of the routine is not the one this engine reads calls with")
    if any(isinstance(a, ast.Starred) for a in call.args) or any(k.arg is None for k in call.keywords):
        raise Undecided(f"star-expanded arguments in `{src(call)[:60]}`")
    if len(call.args) > len(names):
        raise Undecided(f"`{src(call)[:60]}`: {len(call.args)} positional arguments for {len(names)} parameters")
    out = {}
    for i, a in enumerate(call.args):
        out[names[i]] = ex.ev(a)
    for k in call.keywords:
        if k.arg not in names or k.arg in out:
            raise Undecided(f"`{src(call)[:60]}`: keyword `{k.arg}`")
        out[k.arg] = ex.ev(k.value)
    missing = [n for n in names if n not in out and n not in optional]
    if missing:
        raise Undecided(f"`{src(call)[:60]}`: no argument for {missing}")
    return out


def _snap(a):
    """value of an array operand NOW (the handlers define an output array by a formula over the inputs: a later store into an
    input does not change the output)"""
    return a.copy() if isinstance(a, Arr) else a


CROSS_FORMALS = ["X", "Y", "kts1", "deg1", "kts2", "deg2", "coeffs", "z", "der1", "der2"]
SCALAR2_FORMALS = ["x", "y", "kts1", "deg1", "kts2", "deg2", "coeffs", "der1", "der2"]
SCALAR1_FORMALS = ["x", "knots", "degree", "coeffs", "der"]
VECTOR1_FORMALS = ["x", "knots", "degree", "coeffs", "y", "der"]
FEQ_FORMALS = ["r", "vPar", "CN0", "kN0", "deltaRN0", "rp", "Cti", "kti", "deltaRti"]


def h_cross(ex: SymExec, call: ast.Call):
    a = argvals(ex, call, CROSS_FORMALS, ("der1", "der2"))
    a.setdefault("der1", sp.Integer(0))
    a.setdefault("der2", sp.Integer(0))
    z = a["z"]
    X, Y = a["X"], a["Y"]
    if not (isinstance(z, Arr) and isinstance(X, Arr) and isinstance(Y, Arr)):
        raise Undecided("eval_spline_2d_cross arguments")
    fam = tuple(sym_of(a[k]) for k in ("kts1", "deg1", "kts2", "deg2", "coeffs"))
    d1, d2 = a["der1"], a["der2"]
    if z is X or z is Y:
        raise Undecided("eval_spline_2d_cross writes into one of its point arrays")
    X, Y = _snap(X), _snap(Y)

    def gen(ix, X=X, Y=Y, d1=d1, d2=d2, fam=fam):
        if len(ix) != 2:
            raise Undecided("the output of eval_spline_2d_cross has two axes")
        return S2(X.read([ix[0]]), Y.read([ix[1]]), d1, d2, *fam)
    z.set_all(gen)
    return sp.S.NaN


def h_scalar2(ex: SymExec, call: ast.Call):
    a = argvals(ex, call, SCALAR2_FORMALS, ("der1", "der2"))
    a.setdefault("der1", sp.Integer(0))
    a.setdefault("der2", sp.Integer(0))
    fam = tuple(sym_of(a[k]) for k in ("kts1", "deg1", "kts2", "deg2", "coeffs"))
    if not all(isinstance(a[k], sp.Expr) for k in ("x", "y", "der1", "der2")) or not all(isinstance(v, sp.Expr) for v in fam):
        raise Undecided("eval_spline_2d_scalar arguments")
    return S2(a["x"], a["y"], a["der1"], a["der2"], *fam)


def h_scalar1(ex: SymExec, call: ast.Call):
    a = argvals(ex, call, SCALAR1_FORMALS, ("der",))
    a.setdefault("der", sp.Integer(0))
    fam = tuple(sym_of(a[k]) for k in ("knots", "degree", "coeffs"))
    if not all(isinstance(a[k], sp.Expr) for k in ("x", "der")) or not all(isinstance(v, sp.Expr) for v in fam):
        raise Undecided("eval_spline_1d_scalar arguments")
    return S1(a["x"], a["der"], *fam)


def h_vector1(ex: SymExec, call: ast.Call):
    a = argvals(ex, call, VECTOR1_FORMALS, ("der",))
    a.setdefault("der", sp.Integer(0))
    y, x = a["y"], a["x"]
    if not (isinstance(y, Arr) and isinstance(x, Arr)):
        raise Undecided("eval_spline_1d_vector arguments")
    fam = tuple(sym_of(a[k]) for k in ("knots", "degree", "coeffs"))
    d = a["der"]
    # AUDIT: y is x itself (evaluation in place): every y[k] is computed from x[k] before it is overwritten - the values of x NOW
    x = _snap(x)

    def gen(ix, x=x, d=d, fam=fam):
        if len(ix) != 1:
            raise Undecided("the output of eval_spline_1d_vector has one axis")
        return S1(x.read([ix[0]]), d, *fam)
    y.set_all(gen)
    return sp.S.NaN


def h_feq(ex: SymExec, call: ast.Call):
    a = argvals(ex, call, FEQ_FORMALS)
    missing = [k for k in FEQ_FORMALS if k not in a]
    if missing:
        raise Undecided(f"f_eq call without {missing}")
    if not all(isinstance(a[k], sp.Expr) for k in FEQ_FORMALS):
        raise Undecided("f_eq on arguments that are not scalars")
    return FEQ(*[a[k] for k in FEQ_FORMALS])


SPLINE_HANDLERS = {
    "eval_spline_2d_cross": h_cross, "eval_spline_2d_scalar": h_scalar2,
    "eval_spline_1d_scalar": h_scalar1, "eval_spline_1d_vector": h_vector1,
    "cu_eval_spline_2d_cross": h_cross, "nu_eval_spline_2d_cross": h_cross,
    "cu_eval_spline_2d_scalar": h_scalar2, "nu_eval_spline_2d_scalar": h_scalar2,
    "cu_eval_spline_1d_scalar": h_scalar1, "nu_eval_spline_1d_scalar": h_scalar1,
    "cu_eval_spline_1d_vector": h_vector1, "nu_eval_spline_1d_vector": h_vector1,
    "f_eq": h_feq,
}
