import sys, os; sys.path.insert(0, os.getcwd())
import types, tempfile, itertools

# ---- minimal fake mpi4py (no MPI library in the sandbox) -------------------
_m = types.ModuleType('mpi4py'); _M = types.ModuleType('mpi4py.MPI')
class _Comm: pass
_M.Comm = _Comm; _M.COMM_WORLD = None
for _n in ('SUM', 'MIN', 'MAX', 'DOUBLE'):
    setattr(_M, _n, _n)
_m.MPI = _M
sys.modules['mpi4py'] = _m; sys.modules['mpi4py.MPI'] = _M

import pygyro
assert os.path.abspath(pygyro.__file__).startswith(os.path.abspath(os.getcwd()) + os.sep), pygyro.__file__
from pygyro.utilities.savingTools import setupSave


class World:
    """ one broadcast slot per (root) ; every rank records its collective trace """
    def __init__(self, size):
        self.size = size
        self.slots = {}


class RecComm(_Comm):
    def __init__(self, world, rank):
        self.w = world; self.r = rank; self.trace = []
    def Get_rank(self): return self.r
    def Get_size(self): return self.w.size
    def bcast(self, obj=None, root=0):
        # mpi4py semantics: root defaults to 0, value of the root is returned
        self.trace.append(('bcast', root))
        if self.r == root:
            self.w.slots.setdefault(root, []).append(obj)
            return obj
        vals = self.w.slots.get(root, [])
        k = sum(1 for t in self.trace if t == ('bcast', root)) - 1
        if k >= len(vals):
            raise RuntimeError("DEADLOCK: rank %d waits in bcast(root=%d) but rank %d never broadcasts"
                               % (self.r, root, root))
        return vals[k]


def run(size, root, mode, order):
    problems = []
    top = tempfile.mkdtemp()
    os.chdir(top)
    os.mkdir('simulation_0')          # forces the search loop to skip a name
    if mode == 'none':
        arg, expected_name, expected_trace = None, 'simulation_1', [('bcast', root)]
    elif mode == 'existing':
        os.mkdir('have'); arg, expected_name, expected_trace = 'have', 'have', []
    else:
        arg, expected_name, expected_trace = 'fresh', 'fresh', []
    w = World(size)
    comms = [RecComm(w, r) for r in range(size)]
    results = {}
    # the root must have deposited its value before a receiver can complete;
    # all other ranks arrive in the requested order
    seq = [root] + [r for r in order if r != root]
    for r in seq:
        try:
            results[r] = setupSave("CONSTANTS", arg, comms[r], root)
        except RuntimeError as e:
            problems.append(str(e)); results[r] = None
    for r in range(size):
        if comms[r].trace != expected_trace:
            problems.append("rank %d trace %r != reference %r" % (r, comms[r].trace, expected_trace))
        if results[r] != expected_name:
            problems.append("rank %d returned %r, expected %r" % (r, results[r], expected_name))
    f = os.path.join(top, expected_name, 'initParams.json')
    if not os.path.isfile(f) or open(f).read().strip() != "CONSTANTS":
        problems.append("initParams.json missing or wrong in " + expected_name)
    if sorted(os.listdir(top)) != sorted({'simulation_0', expected_name}):
        problems.append("unexpected folders %r" % sorted(os.listdir(top)))
    return problems


cwd0 = os.getcwd()
bad = 0; n = 0
for size in (1, 2, 3, 4):
    for root in range(size):
        for mode in ('none', 'existing', 'fresh'):
            for order in itertools.permutations(range(size)):
                n += 1
                pr = run(size, root, mode, order)
                if pr:
                    bad += 1
                    if bad <= 5:
                        print("VIOLATION size=%d root=%d mode=%s order=%s:" % (size, root, mode, order))
                        for p in pr[:4]: print("   ", p)
os.chdir(cwd0)
print("%d configurations, %d violating" % (n, bad))
sys.exit(1 if bad else 0)
