"""C05 - results do not depend on the process decomposition.

The statically visible necessary condition (second sentence of the property): every
operator applies to each local slice the parameters of that slice's own global
coordinates.  Engine C types every table look-up and slice selection of the grid-level
operators; the driver typestate checks that each grid is in the layout its callee
requires.  The operator sections are reused by C10, C11, C13, C14, C15, C16.
"""
from __future__ import annotations

import ast

from ..core import src, AnalysisError, parent
from .. import units as U
from .. import ispace as I
from ..ispace import Ctx, IS, G, L, arr, OTHER, eta_grid_tag, layout_param, grid_param, dist_dims, tname
from .. import agree


def orders(chk):
    return I.load_layout_tables(chk)


# ------------------------------------------------------------------ engine C with a few more transfer functions
class IS2(IS):
    """engine C (ispace.IS) plus the typing of forms met in refactored code: a literal slice of a per-axis layout table
    (`layout.shape[:3]`), the bounds of the range of global indices (`getGlobalIdxVals(k).start`), np.broadcast_to (an array of the
    stated shape), list(zip(...)) of typed arrays, and same-class helper methods analysed with this class"""

    def ev_Subscript(self, e):
        if isinstance(e.slice, ast.Slice) and e.slice.step is None:
            base = self.ev(e.value)
            if isinstance(base, tuple) and isinstance(base[0], str) and base[0].startswith(("layout.", "grid.")):
                attr = base[0].split(".", 1)[1]
                order = base[1][1]
                lo = self.ev(e.slice.lower) if e.slice.lower is not None else ("lit", None)
                hi = self.ev(e.slice.upper) if e.slice.upper is not None else ("lit", None)
                kind = {"starts": lambda d: ("start", d), "ends": lambda d: ("end", d), "shape": lambda d: ("size", L(d)),
                        "max_block_shape": lambda d: ("size", ("Lmax", d)), "fullShape": lambda d: ("size", G(d))}.get(attr)
                if kind and order is not None and all(isinstance(x, tuple) and x[0] == "lit" for x in (lo, hi)):
                    t = [kind(d) for d in list(order)[slice(lo[1], hi[1])]]
                    self.node_tags[id(e)] = t
                    return t
        return IS.ev_Subscript(self, e)

    def ev_Attribute(self, e):
        if e.attr in ("start", "stop") and not (isinstance(e.value, ast.Name) and e.value.id == "self"):
            base = self.ev(e.value)
            # the global indices of a block are the contiguous range [start, end) of that dimension
            if is_arr_(base) and len(base[1]) == 1 and base[1][0] is not None and base[1][0][0] == "L" and base[2] == ("gidx", base[1][0][1]):
                return ("start" if e.attr == "start" else "end", base[1][0][1])
        return IS.ev_Attribute(self, e)

    def stmt(self, st):
        if isinstance(st, ast.For):
            it = self.ev(st.iter)
            w = it[1][0] if I.is_arr(it) and len(it[1]) == 1 else None
            self.__dict__.setdefault("iter_windows", []).append(w)
            try:
                return IS.stmt(self, st)
            finally:
                self.iter_windows.pop()
        return IS.stmt(self, st)

    def ev_Call(self, e):
        f = e.func
        name = f.attr if isinstance(f, ast.Attribute) else f.id if isinstance(f, ast.Name) else ""
        if name == "append" and isinstance(f, ast.Attribute) and len(e.args) == 1 and len(getattr(self, "iter_windows", [])) == 1 \
                and self.iter_windows[0] is not None:
            # a list that starts empty and gets one entry per element of a typed array is a table over that array's index range
            cur = self.ev(f.value)
            self.ev(e.args[0])
            if cur == [] or (I.is_arr(cur) and cur[1] == (self.iter_windows[0],)):
                t = arr((self.iter_windows[0],), None)
                if isinstance(f.value, ast.Attribute) and isinstance(f.value.value, ast.Name) and f.value.value.id == "self":
                    self.attrs[f.value.attr] = t
                elif isinstance(f.value, ast.Name):
                    self.env[f.value.id] = t
            return OTHER
        if name == "broadcast_to" and isinstance(f, ast.Attribute) and isinstance(f.value, ast.Name) and f.value.id in ("np", "numpy") \
                and len(e.args) == 2 and not e.keywords:
            a0 = self.ev(e.args[0])
            shp = self.ev(e.args[1])
            if isinstance(shp, list):
                return arr(tuple(s_[1] if isinstance(s_, tuple) and s_[0] == "size" else (I.UNIT if s_ == ("lit", 1) else I.STENCIL) for s_ in shp),
                           a0[2] if is_arr_(a0) else None)
            return OTHER
        if name == "list" and isinstance(f, ast.Name) and len(e.args) == 1 and not e.keywords:
            return self.ev(e.args[0])
        if isinstance(f, ast.Attribute) and isinstance(f.value, ast.Name) and f.value.id == "self" and name in self.methods \
                and name not in self.summaries and self.depth < 3:
            args = [self.ev(a) for a in e.args]
            kw = {k.arg: self.ev(k.value) for k in e.keywords}
            m = self.methods[name]
            ps = [a.arg for a in m.args.args if a.arg != "self"]
            env = dict(zip(ps, args))
            env.update(kw)
            sub = IS2(self.chk, self.rel, self.q.split(".")[0] + "." + name, m, env, self.ctx, self.attrs, self.summaries)
            sub.methods = self.methods
            sub.depth = self.depth + 1
            sub.run()
            self.nobs += sub.nobs
            self.chk.functions.add(f"{self.rel}:{sub.q}")
            return getattr(sub, "ret", OTHER)
        return IS.ev_Call(self, e)


def is_arr_(t):
    return I.is_arr(t)


def ctor_attrs(chk, rel, cls, env, ctx=None):
    """attribute tags established by cls.__init__ (same-class helper methods are inlined)"""
    attrs = {}
    fn = chk.mod(rel).func(f"{cls}.__init__")
    chk.functions.add(f"{rel}:{cls}.__init__")
    a = IS2(chk, rel, f"{cls}.__init__", fn, env, ctx or Ctx(dist_dims=None), attrs)
    a.methods = I.class_methods(chk, rel, cls)
    a.run()
    return attrs, a


def summary_of(chk, rel, cls, mname, attrs, ctx, env_extra=None):
    """required index tags of the parameters of a per-slice method (from its own table look-ups)"""
    fn = chk.mod(rel).func(f"{cls}.{mname}")
    env = {a.arg: ("param", a.arg) for a in fn.args.args if a.arg != "self"}
    env.update(env_extra or {})
    a = IS2(chk, rel, f"{cls}.{mname}", fn, env, ctx, attrs)
    a.run()
    req = {}
    for p, reqs in a.param_req.items():
        ts = {t for t, _, _ in reqs}
        if len(ts) == 1:
            req[p] = next(iter(ts))
        elif ts:
            req[p] = sorted(ts)[0]
    params = [x.arg for x in fn.args.args if x.arg != "self"]
    return {"params": params, "req": req}, a


def run_method(chk, rel, cls, mname, env, ctx, attrs, summaries=None):
    fn = chk.mod(rel).func(f"{cls}.{mname}" if cls else mname)
    q = f"{cls}.{mname}" if cls else mname
    chk.functions.add(f"{rel}:{q}")
    a = IS2(chk, rel, q, fn, env, ctx, attrs, summaries or {})
    if cls:
        a.methods = {k: v for k, v in I.class_methods(chk, rel, cls).items() if k not in (summaries or {})}
    a.run()
    return a


# ------------------------------------------------------------------ structured form of early exits
def _own_continue(stmts):
    """does a `continue` of the enclosing loop occur in these statements (nested loops keep theirs)?"""
    stack = list(stmts)
    while stack:
        n = stack.pop()
        if isinstance(n, ast.Continue):
            return True
        if isinstance(n, (ast.For, ast.While, ast.FunctionDef, ast.ClassDef, ast.Lambda)):
            continue
        stack.extend(ch for ch in ast.iter_child_nodes(n) if isinstance(ch, (ast.stmt, ast.excepthandler)))
    return False


def _absorb_continue(stmts):
    """loop body without `continue`: `if c: A; continue` followed by R is `if c: A else: R` (the statements after a
    conditional that may continue are moved into the arms that fall through); None when an exit sits where it cannot be
    absorbed (inside with/try)"""
    from ..core import clone
    out = []
    for k, st in enumerate(stmts):
        if isinstance(st, ast.Continue):
            return out
        if isinstance(st, ast.If) and _own_continue([st]):
            rest = list(stmts[k + 1:])
            body = _absorb_continue(list(st.body) + rest)
            orelse = _absorb_continue(list(st.orelse) + clone(rest))
            if body is None or orelse is None:
                return None
            new = ast.If(test=st.test, body=body or [ast.copy_location(ast.Pass(), st)], orelse=orelse)
            out.append(ast.copy_location(new, st))
            return out
        if _own_continue([st]):
            return None
        out.append(st)
    return out


def structured(fn):
    """private copy of `fn` in which the bodies of loops contain no `continue` (same behaviour, if/else form); the function itself
    when it has none.  Returns (function, reason why some loop was left as it is or None)"""
    from ..core import clone
    if not any(isinstance(n, ast.Continue) for n in ast.walk(fn)):
        return fn, None
    par = parent(fn)
    new = clone(fn)
    why = None
    loops = [n for n in ast.walk(new) if isinstance(n, (ast.For, ast.While))]
    for lp in reversed(loops):       # inner loops first
        if _own_continue(lp.body):
            b = _absorb_continue(lp.body)
            if b is None:
                why = f"`continue` inside a with/try block of the loop at line {lp.lineno}"
            else:
                lp.body = b or [ast.copy_location(ast.Pass(), lp)]
    ast.fix_missing_locations(new)
    for n in ast.walk(new):
        for ch in ast.iter_child_nodes(n):
            ch._parent = n
    new._parent = par
    if hasattr(fn, "_qual"):
        new._qual = fn._qual
    return new, why


def class_chain(chk, rel, cls):
    """the class and its base classes defined in the same module, most derived first"""
    mod = chk.mod(rel)
    out, seen = [], set()
    todo = [cls]
    while todo:
        c = todo.pop(0)
        if c in seen or not mod.has(c):
            continue
        seen.add(c)
        node = mod.cls(c)
        out.append(node)
        todo += [b.id for b in node.bases if isinstance(b, ast.Name)]
    return out


def method_table(chk, rel, cls):
    """{method name: (defining class name, FunctionDef)} as seen from an instance of `cls` (overrides win)"""
    out = {}
    for node in class_chain(chk, rel, cls):
        for st in node.body:
            if isinstance(st, ast.FunctionDef):
                out.setdefault(st.name, (node.name, st))
    return out


def resolve_method(chk, rel, cls, name):
    """(qualified name of the definition, FunctionDef) of `cls.name`, inherited definitions included"""
    t = method_table(chk, rel, cls)
    if name not in t:
        raise AnalysisError(f"anchor vanished: {rel}:{cls}.{name} (not defined in the class nor in a base class of the module)")
    owner, fn = t[name]
    chk.functions.add(f"{rel}:{owner}.{name}")
    chk.units.add(rel)
    return f"{owner}.{name}", fn


# ------------------------------------------------------------------ operators
def parallel_gradient(chk):
    """ParallelGradient: tables built in __init__, looked up in parallel_gradient(phi_r, i, der)"""
    env = {"eta_grid": eta_grid_tag(), "layout": layout_param(), "constants": ("constants",), "order": OTHER, "spline": OTHER}
    attrs, _ = ctor_attrs(chk, U.ADV, "ParallelGradient", env)
    summ, a = summary_of(chk, U.ADV, "ParallelGradient", "parallel_gradient", dict(attrs), Ctx(dist_dims={0}))
    idxp = [p_ for p_ in summ["params"] if isinstance(summ["req"].get(p_), tuple) and summ["req"][p_][0] in ("lidx", "gidx")]
    chk.ob("C-table-roles", chk.func(U.ADV, "ParallelGradient.parallel_gradient"), f"parallel_gradient({', '.join(summ['params'])})",
           True if idxp else None,
           "; ".join(f"`{p_}` must be {tname(summ['req'][p_])}" for p_ in idxp) + ": it selects the rows of the per-radius tables "
           f"{sorted(k for k, v in attrs.items() if I.is_arr(v))} (callers are checked against this: C-slice-param)" if idxp else
           "no parameter of parallel_gradient is typed as the index of its per-radius tables: the radial look-ups were not followed "
           f"(tables: { {k: tname(v) for k, v in attrs.items() if I.is_arr(v)} })", file=U.ADV, func="ParallelGradient.parallel_gradient")
    return attrs, summ


def flux_surface(chk):
    env = {"eta_grid": eta_grid_tag(), "layout": layout_param(), "constants": ("constants",), "dt": OTHER,
           "splines": OTHER, "zDegree": OTHER}
    attrs, _ = ctor_attrs(chk, U.ADV, "FluxSurfaceAdvection", env)
    summ, _ = summary_of(chk, U.ADV, "FluxSurfaceAdvection", "step", dict(attrs), Ctx(dist_dims={0, 3}))
    req = summ["req"]
    # which index space each parameter of step must be in follows from the tables it subscripts; whether the callers hand over values of
    # these spaces is rule C-slice-param at each call (a consistent change of convention on both sides holds)
    typed = all(isinstance(req.get(p_), tuple) and req[p_][0] in ("lidx", "gidx") for p_ in ("cIdx", "rIdx"))
    chk.ob("C-table-roles", chk.func(U.ADV, "FluxSurfaceAdvection.step"), "step(f, cIdx, rIdx)", True if typed else None,
           f"the tables step looks up are { {k: tname(v) for k, v in attrs.items() if I.is_arr(v) and k != '_LagrangeVals'} }: cIdx must be "
           f"{tname(req['cIdx'])}, rIdx {tname(req['rIdx'])}" if typed else
           f"index requirements of step not established: { {k: tname(v) for k, v in req.items()} } "
           f"(tables: { {k: tname(v) for k, v in attrs.items() if I.is_arr(v)} })", file=U.ADV, func="FluxSurfaceAdvection.step")
    fn = chk.func(U.ADV, "FluxSurfaceAdvection.gridStep")
    amb = I.ambient_from_asserts(fn)
    o = amb.get("grid")
    if o is None:
        raise AnalysisError("C05: FluxSurfaceAdvection.gridStep no longer asserts its layout")
    ctx = Ctx(dist_dims=dist_dims(o, 2))
    an = run_method(chk, U.ADV, "FluxSurfaceAdvection", "gridStep", {"grid": grid_param(o, 2)}, ctx, dict(attrs), {"step": summ})
    index_agreement(chk, an, fn, U.ADV, "FluxSurfaceAdvection.gridStep")
    local_extent_dependence(chk, an, fn, U.ADV, "FluxSurfaceAdvection.gridStep")
    return attrs, summ, o


def v_parallel(chk, pg_summ):
    O = orders(chk)
    o_grid, o_phi = O["v_parallel"], O["v_parallel_1d"]
    ctx = Ctx(dist_dims=dist_dims(o_grid, 2))
    # table allocated by the driver
    dfn = chk.func(U.DRIVER, "main")
    pgv = None
    for n in ast.walk(dfn):
        if isinstance(n, ast.Assign) and isinstance(n.targets[0], ast.Name) and n.targets[0].id == "parGradVals":
            a = IS2(chk, U.DRIVER, "main", dfn, {"distribFunc": grid_param(o_grid, 2), "constants": ("constants",)}, ctx, {})
            pgv = a.ev(n.value)
            okw = True if I.is_arr(pgv) and all(w is not None and w[0] in ("G", "L") for w in pgv[1]) else None
            pgv_node = n
            chk.ob("C-table-roles", n, "parGradVals = np.empty([...])", okw,
                   f"parallel-gradient table is {tname(pgv)} (its readers and its writer are typed against these axes)" if okw else
                   f"axes of the table not established: {tname(pgv)}", file=U.DRIVER, func="main")
    if pgv is None:
        raise AnalysisError("C05: allocation of parGradVals not found in fullSimulation.main")
    step_summ = {"params": ["f", "dt", "c", "r"], "req": {}}
    analyses = {}
    for m in ("gridStep", "gridStepKeepGradient"):
        fn = chk.func(U.ADV, f"VParallelAdvection.{m}")
        env = {"grid": grid_param(o_grid, 2), "phi": grid_param(o_phi, 1), "parGradVals": pgv,
               "parGrad": ("obj", "ParallelGradient"), "dt": OTHER}
        a = IS2(chk, U.ADV, f"VParallelAdvection.{m}", fn, env, ctx, {}, {"step": step_summ})
        a.obj_summaries = {("ParallelGradient", "parallel_gradient"): pg_summ}
        chk.functions.add(f"{U.ADV}:VParallelAdvection.{m}")
        a.run()
        index_agreement(chk, a, fn, U.ADV, f"VParallelAdvection.{m}")
        local_extent_dependence(chk, a, fn, U.ADV, f"VParallelAdvection.{m}")
        analyses[m] = a
    radius_argument(chk, analyses)
    gradient_out_param(chk)
    out_array_axes(chk, analyses["gridStep"])
    return pgv


def out_array_axes(chk, a):
    """writer side of the gradient table: parallel_gradient fills its output array row for row like its input (it asserts equal shapes), so
    the block of the table handed in must have the axes of the potential slice handed in"""
    fn = a.fn
    pgf = chk.func(U.ADV, "ParallelGradient.parallel_gradient")
    params = [x.arg for x in pgf.args.args if x.arg != "self"]
    for c in ast.walk(fn):
        if isinstance(c, ast.Call) and isinstance(c.func, ast.Attribute) and c.func.attr == "parallel_gradient":
            b = agree.bind_call(c, params) or {}
            if len(params) < 3 or params[0] not in b or params[2] not in b:
                continue
            tin, tout = a.node_tags.get(id(b[params[0]])), a.node_tags.get(id(b[params[2]]))
            known = I.is_arr(tin) and I.is_arr(tout) and all(w is not None and w[0] in ("G", "L") for w in tin[1] + tout[1])
            same = known and tuple(tin[1]) == tuple(tout[1])
            chk.ob("C-window", c, f"parallel_gradient({src(b[params[0]])[:40]}, ..., {src(b[params[2]])[:30]}): axes in = axes out",
                   (True if same else False) if known else None,
                   f"input slice and output block are both {tname(tin)}" if same else
                   (f"the potential slice handed in is {tname(tin)} but the block of the table that receives the gradient is {tname(tout)}: "
                    "parallel_gradient writes row k of its result for row k of its input, so the rows of the table do not hold the gradient at "
                    "their own (z, theta)" if known else f"axes not established: input {tname(tin) if tin else '?'}, output {tname(tout) if tout else '?'}"),
                   file=U.ADV, func=getattr(fn, "_qual", "VParallelAdvection.gridStep"))


def gradient_out_param(chk):
    """gridStep fills parGradVals[i] through parallel_gradient's output argument and gridStepKeepGradient reads the table later:
    the array handed in must end up holding the very value the function returns"""
    gs, unstructured = structured(chk.func(U.ADV, "VParallelAdvection.gridStep"))
    pgf = chk.func(U.ADV, "ParallelGradient.parallel_gradient")
    params = [a.arg for a in pgf.args.args if a.arg != "self"]
    calls = [c for c in ast.walk(gs) if isinstance(c, ast.Call) and isinstance(c.func, ast.Attribute) and c.func.attr == "parallel_gradient"]
    if len(calls) != 1:
        raise AnalysisError("C05/C11: the parallel_gradient call of VParallelAdvection.gridStep not found")
    b = agree.bind_call(calls[0], params) or {}
    row_always_written(chk, gs, calls[0], unstructured)
    out = [p_ for p_, a in b.items() if isinstance(a, ast.Subscript) and src(a.value) == "parGradVals"]
    if len(out) != 1:
        chk.ob("E2-gradient-out-param", calls[0], "parGradVals[i] handed to parallel_gradient as output array", None,
               "no argument of the call is a row block of parGradVals", file=U.ADV, func="VParallelAdvection.gridStep")
        return
    o = out[0]
    rets = [r for r in ast.walk(pgf) if isinstance(r, ast.Return) and r.value is not None]
    rebinds = [n for n in ast.walk(pgf) if isinstance(n, ast.Assign) and any(isinstance(t, ast.Name) and t.id == o for t in n.targets)]
    bad = [r for r in rets if not (isinstance(r.value, ast.Name) and r.value.id == o)]
    ok = not bad and not rebinds
    why = (f"`{o}` is only updated in place and is what the function returns: the table row read by gridStepKeepGradient is the gradient "
           "used by gridStep") if ok else \
        (f"`{src(bad[0])}` returns a value that is not the output array `{o}`: the table row keeps a different (unscaled/partial) value, "
         "so gridStepKeepGradient advects with another speed than gridStep" if bad else
         f"`{src(rebinds[0])}` rebinds `{o}`: later updates no longer reach the caller's table row")
    chk.ob("E2-gradient-out-param", bad[0] if bad else (rebinds[0] if rebinds else pgf), f"parallel_gradient leaves its result in `{o}`", ok, why,
           file=U.ADV, func="ParallelGradient.parallel_gradient")


def row_always_written(chk, gs, call, unstructured):
    """writer/reader agreement on the rows of the gradient table: gridStepKeepGradient reads parGradVals[i] for every local radius, so
    gridStep has to write that row in every iteration of its loop over the radii, whatever the data"""
    q = "VParallelAdvection.gridStep"
    label = "parGradVals[i] is written for every local radius (read again by gridStepKeepGradient)"
    conds, loops, odd = [], [], None
    ch, p_ = call, parent(call)
    while p_ is not None and p_ is not gs:
        if isinstance(p_, ast.If):
            conds.append((p_, ch in p_.body if isinstance(ch, ast.stmt) else None))
        elif isinstance(p_, ast.For):
            loops.append(p_)
        elif isinstance(p_, (ast.While, ast.Try, ast.With, ast.IfExp, ast.FunctionDef, ast.Lambda)):
            odd = p_
        if isinstance(p_, ast.stmt):
            ch = p_
        p_ = parent(p_)
    st = call
    while not isinstance(st, ast.stmt):
        st = parent(st)
    # exits before the call in the loop body (structured form has no `continue` left)
    early = None
    for lp in loops:
        for n in ast.walk(lp):
            if isinstance(n, (ast.Break, ast.Return, ast.Continue, ast.Raise)) and (n.lineno, n.col_offset) < (st.lineno, st.col_offset):
                early = n
    if unstructured or odd is not None or early is not None or any(pol is None for _, pol in conds):
        what = unstructured or (f"`{src(early)}` before the call" if early is not None else f"the call sits in `{src(odd).splitlines()[0][:50]}`"
                                if odd is not None else "condition not followed")
        chk.ob("E2-gradient-row-written", call, label, None, f"control flow around the parallel_gradient call not followed: {what}",
               file=U.ADV, func=q)
        return
    if not conds:
        chk.ob("E2-gradient-row-written", call, label, True,
               "the call that fills parGradVals[i] is executed unconditionally in every iteration of the loop over the local radii: the rows "
               "gridStepKeepGradient reads are the gradient of the potential handed to this gridStep", file=U.ADV, func=q)
        return

    def writes_table(stmts):
        for s_ in stmts:
            for n in ast.walk(s_):
                t = n.targets[0] if isinstance(n, ast.Assign) else n.target if isinstance(n, ast.AugAssign) else None
                while isinstance(t, ast.Subscript):
                    t = t.value
                if isinstance(t, ast.Name) and t.id == "parGradVals":
                    return True
                if isinstance(n, ast.Call) and any(isinstance(x, ast.Name) and x.id == "parGradVals" for a in n.args for x in ast.walk(a)) and n is not call:
                    return True
        return False
    node, pol = conds[-1]

    def neg(t):
        return src(t.operand) if isinstance(t, ast.UnaryOp) and isinstance(t.op, ast.Not) else f"not ({src(t)})"
    cond = src(node.test) if pol else neg(node.test)
    skip = neg(node.test) if pol else src(node.test)
    # does the condition vary from one radius to the next?  (names bound by the loop over the radii or assigned inside it)
    per_iter = set()
    for lp in loops:
        per_iter |= {x.id for x in ast.walk(lp.target) if isinstance(x, ast.Name)}
        per_iter |= {x.id for s_ in lp.body for x in ast.walk(s_) if isinstance(x, ast.Name) and isinstance(x.ctx, ast.Store)}
    varying = [n_ for n_, _ in conds if any(isinstance(x, ast.Name) and x.id in per_iter for x in ast.walk(n_.test))]
    if not varying:
        chk.ob("E2-gradient-row-written", node, label, None,
               f"the parallel_gradient call runs only when `{cond}`, a condition that does not change from one radius to the next: whether "
               "gridStepKeepGradient is ever used with a table left unwritten is not decided", file=U.ADV, func=q)
        return
    if any(writes_table(n_.orelse if pl else n_.body) for n_, pl in conds):
        chk.ob("E2-gradient-row-written", node, label, None,
               f"the parallel_gradient call runs only when `{cond}`; the other path stores into parGradVals itself: equality of that value "
               "with the gradient is not decided", file=U.ADV, func=q)
        return
    chk.ob("E2-gradient-row-written", node, label, False,
           f"parGradVals[i] is filled by parallel_gradient only when `{cond}`; when `{skip}` the iteration leaves the row untouched. "
           "gridStepKeepGradient (called after gridStep in the time step) reads parGradVals[i, J, k] for every local radius: for the skipped "
           "radii it advects with the gradient of an earlier potential, or with the uninitialised content of np.empty on first use",
           file=U.ADV, func=q)


class _Mute:
    functions = set()

    def ob(self, *a, **k):
        pass


def coordinate_of_slice(a, fn, at, expr, sel, d):
    """is `expr` (typed as a coordinate along dimension d) the coordinate at the index `sel` that selects the slice?
    -> (True / False / None, diagnosis or None)"""
    dn = I.DIMNAMES.get(d, d)
    if isinstance(expr, ast.Subscript) and not isinstance(expr.slice, (ast.Slice, ast.Tuple)):
        tX, te = a.node_tags.get(id(expr.value)), a.node_tags.get(id(expr.slice))
        w = tX[1][0] if I.is_arr(tX) and len(tX[1]) == 1 else None
        if w is None or w[0] not in ("G", "L"):
            return None, f"`{src(expr.value)}` is not typed as a coordinate table of {dn}"
        if not a.ctx.distributed(d):
            return True, None
        kind = te[0] if isinstance(te, tuple) and te[0] in ("lidx", "gidx") and te[1] == d else None
        if kind is None and sel is not None and src(sel) == src(expr.slice):
            kind = "lidx"          # the same value selects the local slice
        if kind is None:
            return None, f"index space of `{src(expr.slice)}` in `{src(expr)}` not determined"
        if (kind == "lidx") == (w[0] == "L"):
            return True, None
        return False, (f"`{src(expr)}`: `{src(expr.value)}` holds the {'GLOBAL' if w[0] == 'G' else 'local'} {dn} coordinates but `{src(expr.slice)}` is the "
                       f"{'local' if kind == 'lidx' else 'global'} index of the line" + (f" (it selects the slice: `{src(parent(sel))[:60]}`)" if sel is not None and parent(sel) is not None else "") +
                       f": whenever {dn} is distributed the boundary rule receives the radius of another line")
    if isinstance(expr, ast.Name) and sel is not None:
        lp = _binding_loop(at, expr)
        if lp is not None and isinstance(lp.target, ast.Tuple) and len(lp.target.elts) == 2 and isinstance(lp.target.elts[0], ast.Name):
            iv = lp.target.elts[0].id
            if isinstance(sel, ast.Name) and sel.id == iv:
                return True, None
            ts = a.node_tags.get(id(sel))
            if isinstance(sel, ast.Name) and _binding_loop(at, sel) is not None and _binding_loop(at, sel) is not lp \
                    and isinstance(ts, tuple) and ts[0] in ("lidx", "gidx"):
                return None, (f"the radius `{expr.id}` is bound with index `{iv}` by `{src(lp).splitlines()[0][:60]}` but the slice is selected by "
                              f"`{src(sel)}` of another loop: same line not established")
    return True, None


def index_agreement(chk, a, fn, rel, q):
    """C-same-index for index variables engine C could not type: one value that selects a LOCAL slice (get1DSlice/get2DSlice selector,
    Local axis of a table) must not subscript a Global axis of the same distributed dimension (and vice versa)"""
    uses = {}
    stores = {}
    for n in ast.walk(fn):
        if isinstance(n, ast.Name) and isinstance(n.ctx, ast.Store):
            stores[n.id] = stores.get(n.id, 0) + 1

    def note(name_node, kind, d, node):
        t = a.node_tags.get(id(name_node))
        if isinstance(t, tuple) and t[0] in ("lidx", "gidx", "lit", "param"):
            return                       # typed: engine C's own rules apply
        if d is None or not isinstance(d, int) or not a.ctx.distributed(d):
            return
        lp = _binding_loop(node, name_node)
        if lp is None and stores.get(name_node.id, 0) != 1:
            return                       # re-assigned local: the uses may see different values
        uses.setdefault((name_node.id, id(lp)), []).append((kind, d, node))
    for n in ast.walk(fn):
        if isinstance(n, ast.Call) and isinstance(n.func, ast.Attribute) and n.func.attr in ("get1DSlice", "get2DSlice"):
            g = a.node_tags.get(id(n.func.value))
            if isinstance(g, tuple) and g and g[0] == "grid" and g[1] is not None:
                for k, x in enumerate(n.args):
                    if isinstance(x, ast.Name) and k < len(g[1]):
                        note(x, "L", g[1][k], n)
        elif isinstance(n, ast.Subscript):
            tb = a.node_tags.get(id(n.value))
            if not I.is_arr(tb):
                continue
            items = n.slice.elts if isinstance(n.slice, ast.Tuple) else [n.slice]
            k = 0
            for it in items:
                if isinstance(it, ast.Constant) and it.value is None:
                    continue
                if k >= len(tb[1]):
                    break
                w = tb[1][k]
                if isinstance(it, ast.Name) and w is not None and w[0] in ("G", "L"):
                    note(it, w[0], w[1], n)
                k += 1
    for (name, _), lst in uses.items():
        for d in {d for _, d, _ in lst}:
            loc = [x for x in lst if x[1] == d and x[0] == "L"]
            glo = [x for x in lst if x[1] == d and x[0] == "G"]
            if loc and glo:
                dn = I.DIMNAMES.get(d, d)
                chk.ob("C-same-index", glo[0][2], f"{name}: {src(loc[0][2])[:40]} / {src(glo[0][2])[:40]}", False,
                       f"`{name}` selects the local block in `{src(loc[0][2])[:60]}` (a local index along {dn}) and subscripts the Global({dn}) axis in "
                       f"`{src(glo[0][2])[:60]}`: whenever {dn} is distributed the entry of another process's block is used", file=rel, func=q)


# ------------------------------------------------------------------ decisions taken from the local block only
_REDUCERS = {"max", "min", "sum", "mean", "any", "all", "prod", "amax", "amin", "argmax", "argmin", "std", "var", "norm", "ptp",
             "count_nonzero", "median", "average", "nanmax", "nanmin", "nansum", "nanmean", "vdot", "trace"}
_ELEMENTWISE = {"abs", "absolute", "fabs", "real", "imag", "square", "sqrt", "exp", "log", "conj", "conjugate", "isfinite", "isnan",
                "isinf", "sign", "negative", "logical_not", "asarray", "array", "ascontiguousarray", "copy", "astype", "float64"}
_MPI_REDUCTIONS = {"Allreduce", "allreduce", "Reduce", "reduce", "Allgather", "allgather", "Gather", "gather", "Allgatherv", "Gatherv",
                   "Bcast", "bcast", "Scan", "scan"}


def local_extent_dependence(chk, a, fn, rel, q):
    """C-local-extent: a reduction (max, sum, any, norm ...) over an axis that covers only THIS process's block of a distributed
    dimension yields a value that depends on the decomposition.  Such a value must pass through a reduction over the communicator before
    it decides a branch or is stored into an array; here: windows of the reduced operand from engine C's tags (followed through
    element-wise calls, reshape(n0, -1), flatten), def-use propagation over the locals of the function."""
    wenv = {}

    def local_dims(ws):
        out = set()
        for w in ws or ():
            if w is None:
                continue
            if w[0] == "L" and isinstance(w[1], int) and a.ctx.distributed(w[1]):
                out.add(w[1])
            elif w[0] == "MIX":
                out |= local_dims(w[1])
        return out

    def win(e):
        """windows of an array-valued expression or None"""
        t = a.node_tags.get(id(e))
        if I.is_arr(t):
            return list(t[1])
        if isinstance(e, ast.Name):
            return wenv.get(e.id)
        if isinstance(e, ast.Call):
            f = e.func
            name = f.attr if isinstance(f, ast.Attribute) else f.id if isinstance(f, ast.Name) else ""
            isnp = isinstance(f, ast.Attribute) and isinstance(f.value, ast.Name) and f.value.id in ("np", "numpy")
            if name in _ELEMENTWISE and (isnp or isinstance(f, ast.Name)) and e.args:
                return win(e.args[0])
            if isinstance(f, ast.Attribute) and not isnp:
                r = win(f.value)
                if r is None:
                    return None
                if name in _ELEMENTWISE:
                    return r
                if name in ("flatten", "ravel"):
                    return [("MIX", tuple(r))]
                if name == "reshape":
                    args = list(e.args[0].elts) if len(e.args) == 1 and isinstance(e.args[0], (ast.Tuple, ast.List)) else list(e.args)
                    if len(args) == 2 and src(args[1]) == "-1" and _is_len_of_axis0(args[0], r):
                        return [r[0], ("MIX", tuple(r[1:]))]
                    return [("MIX", tuple(r))] * max(1, len(args))
                if name in _REDUCERS:
                    return reduce_(e)[1]
            if isnp and name in _REDUCERS:
                return reduce_(e)[1]
            return None
        if isinstance(e, (ast.BinOp, ast.Compare, ast.BoolOp)):
            ops = [e.left, e.right] if isinstance(e, ast.BinOp) else ([e.left] + list(e.comparators) if isinstance(e, ast.Compare) else list(e.values))
            ws = [w for w in (win(x) for x in ops) if w]
            return max(ws, key=len) if ws else None
        if isinstance(e, ast.UnaryOp):
            return win(e.operand)
        if isinstance(e, ast.Attribute) and e.attr == "T":
            r = win(e.value)
            return list(reversed(r)) if r else None
        return None

    def _is_len_of_axis0(x, r):
        base = None
        if isinstance(x, ast.Subscript) and isinstance(x.value, ast.Attribute) and x.value.attr == "shape" and src(x.slice) == "0":
            base = x.value.value
        elif isinstance(x, ast.Call) and isinstance(x.func, ast.Name) and x.func.id == "len" and len(x.args) == 1:
            base = x.args[0]
        if base is None:
            return False
        wb = win(base)
        return bool(wb) and wb[0] == r[0]

    events = {}

    def reduce_(e):
        """(local dims removed by this reduction call, windows of its result)"""
        f = e.func
        name = f.attr if isinstance(f, ast.Attribute) else f.id
        isnp = isinstance(f, ast.Attribute) and (src(f.value) in ("np", "numpy", "np.linalg", "numpy.linalg"))
        operand = e.args[0] if isnp and e.args else (f.value if isinstance(f, ast.Attribute) and not isnp else None)
        if operand is None:
            return set(), None
        ws = win(operand)
        if not ws:
            return set(), None
        ax = [k.value for k in e.keywords if k.arg == "axis"]
        pos = e.args[1:] if isnp else e.args
        axis = ax[0] if ax else (pos[0] if pos else None)
        if axis is None:
            removed, rest = ws, []
        elif isinstance(axis, ast.Constant) and isinstance(axis.value, int) and -len(ws) <= axis.value < len(ws):
            k = axis.value % len(ws)
            removed, rest = [ws[k]], ws[:k] + ws[k + 1:]
        elif isinstance(axis, ast.UnaryOp) and isinstance(axis.op, ast.USub) and isinstance(axis.operand, ast.Constant) \
                and isinstance(axis.operand.value, int) and axis.operand.value <= len(ws):
            k = len(ws) - axis.operand.value
            removed, rest = [ws[k]], ws[:k] + ws[k + 1:]
        else:
            return set(), None
        dims = local_dims(removed)
        if dims:
            events[id(e)] = (e, dims, operand)
        return dims, rest

    # pass 1: windows of locals, reductions
    order = [n for n in ast.walk(fn) if isinstance(n, (ast.Assign, ast.AugAssign))]
    order.sort(key=lambda n: (n.lineno, n.col_offset))
    for _ in range(2):
        for st in order:
            if isinstance(st, ast.Assign) and len(st.targets) == 1 and isinstance(st.targets[0], ast.Name):
                w = win(st.value)
                if w:
                    wenv[st.targets[0].id] = w
    for n in ast.walk(fn):
        if isinstance(n, ast.Call):
            nm = n.func.attr if isinstance(n.func, ast.Attribute) else n.func.id if isinstance(n.func, ast.Name) else ""
            if nm in _REDUCERS and id(n) not in events:
                reduce_(n)
    if not events:
        chk.ob("C-local-extent", fn, f"{q}: reductions over local blocks", True,
               "no value is obtained by reducing over this process's block of a distributed dimension", file=rel, func=q, nontrivial=False)
        return
    # pass 2: taint
    tainted = {}

    def sources(e):
        out = []
        for x in ast.walk(e):
            if id(x) in events:
                out.append(events[id(x)])
            elif isinstance(x, ast.Name) and isinstance(x.ctx, ast.Load) and x.id in tainted:
                out += tainted[x.id]
        return out
    for _ in range(2):
        for st in order:
            tg = st.targets[0] if isinstance(st, ast.Assign) else st.target
            got = sources(st.value)
            if got:
                for x in ast.walk(tg):
                    if isinstance(x, ast.Name) and isinstance(x.ctx, ast.Store):
                        tainted[x.id] = list({id(g[0]): g for g in tainted.get(x.id, []) + got}.values())
    # values handed to a reduction over the communicator are made global there
    for n in ast.walk(fn):
        if isinstance(n, ast.Call) and isinstance(n.func, ast.Attribute) and n.func.attr in _MPI_REDUCTIONS:
            for x in ast.walk(n):
                if isinstance(x, ast.Name) and x.id in tainted:
                    tainted.pop(x.id)
                if id(x) in events:
                    events.pop(id(x))
    sinks = []
    quiet = {"print", "my_print", "warn", "warning", "info", "debug", "log", "write", "flush"}

    def effectful(stmts):
        """does the branch change data or control (anything but messages and aborting)?"""
        for s_ in stmts:
            for x in ast.walk(s_):
                if isinstance(x, (ast.Assign, ast.AugAssign, ast.Continue, ast.Break, ast.Return)):
                    return True
                if isinstance(x, ast.Expr) and isinstance(x.value, ast.Call):
                    nm = x.value.func.attr if isinstance(x.value.func, ast.Attribute) else x.value.func.id if isinstance(x.value.func, ast.Name) else ""
                    if nm not in quiet:
                        return True
        return False
    for n in ast.walk(fn):
        if isinstance(n, ast.If) and not effectful(n.body) and not effectful(n.orelse):
            continue
        if isinstance(n, (ast.If, ast.While, ast.IfExp)):
            got = sources(n.test)
            if got:
                sinks.append((n, f"decides `{'if' if not isinstance(n, ast.While) else 'while'} {src(n.test)[:60]}`", got))
        elif isinstance(n, (ast.Assign, ast.AugAssign)):
            tg = n.targets[0] if isinstance(n, ast.Assign) else n.target
            if isinstance(tg, ast.Subscript):
                got = sources(n.value)
                if got:
                    sinks.append((n, f"is stored by `{src(n)[:70]}`", got))
    if not sinks:
        chk.ob("C-local-extent", fn, f"{q}: reductions over local blocks", True,
               "values reduced over the local block neither decide a branch nor are stored before a reduction over the communicator",
               file=rel, func=q, nontrivial=False)
        return
    seen = set()
    for node, what, got in sinks:
        got = list({id(g[0]): g for g in got}.values())
        key = tuple(sorted(id(g[0]) for g in got))
        if key in seen:
            continue
        seen.add(key)
        reds = "; ".join(f"`{src(c)[:70]}` reduces over the local block of {', '.join(I.DIMNAMES.get(d, str(d)) for d in sorted(dims))} "
                         f"(operand `{src(op)[:50]}`)" for c, dims, op in got)
        chk.ob("C-local-extent", node, src(got[0][0])[:80], False,
               f"{reds}: only the part of the distributed dimension held by this process enters, and no reduction over the communicator follows; "
               f"the result {what}, so what is computed for a slice depends on which other slices share its process - the global field differs "
               "between process grids", file=rel, func=q)


def radius_argument(chk, analyses):
    """the `r` handed to VParallelAdvection.step is the coordinate of the line's own radius"""
    for m, a in analyses.items():
        fn = a.fn
        n = 0
        for c in ast.walk(fn):
            if isinstance(c, ast.Call) and isinstance(c.func, ast.Attribute) and c.func.attr == "step" and src(c.func.value) == "self":
                b = agree.bind_call(c, ["f", "dt", "c", "r"]) or {}
                r = b.get("r")
                t = a.node_tags.get(id(r)) if r is not None else None
                ok = t == ("coord", 0)
                n += 1
                why = "the radius handed to the boundary rule is the r coordinate of the line being advanced" if ok else \
                    f"the value handed to the step as radius is {tname(t) if t else 'unknown'}"
                if t in (None, OTHER):
                    ok = None
                elif ok:
                    # ... of the SAME line: the coordinate is taken at the index that selects the slice
                    f_ = b.get("f")
                    sel = f_.args[0] if isinstance(f_, ast.Call) and isinstance(f_.func, ast.Attribute) and f_.func.attr == "get1DSlice" and f_.args else None
                    ok, w2 = coordinate_of_slice(a, fn, c, r, sel, 0)
                    why = w2 or why
                chk.ob("C-coordinate-role", c, f"step(..., r={src(r) if r is not None else '?'}) in {m}", ok, why, file=U.ADV,
                       func=f"VParallelAdvection.{m}")
        if n == 0:
            # the advection loop may live in a sibling grid-level method that this one calls with the grid it received
            # (e.g. gridStep = "all gradients first" + gridStepKeepGradient): the sibling's own obligation covers it
            deleg = [c for c in ast.walk(fn) if isinstance(c, ast.Call) and isinstance(c.func, ast.Attribute)
                     and src(c.func.value) == "self" and c.func.attr in analyses and c.func.attr != m
                     and any(isinstance(x, ast.Name) and x.id == "grid" for x in list(c.args) + [k.value for k in c.keywords])]
            if deleg:
                callee = analyses[deleg[0].func.attr].fn
                formals = [x.arg for x in callee.args.args if x.arg != "self"]
                b = agree.bind_call(deleg[0], formals) or {}
                same = set(b) == set(formals) and all(isinstance(v, ast.Name) and v.id == f for f, v in b.items())
                chk.ob("C-coordinate-role", deleg[0], f"{m} advects through self.{deleg[0].func.attr}(grid, ...)", True if same else None,
                       f"the lines are advanced by `{deleg[0].func.attr}` on the same grid, table and time step; its own step call is typed"
                       if same else f"`{src(deleg[0])}` does not hand its own grid/table/time step on under the same names: cannot decide",
                       file=U.ADV, func=f"VParallelAdvection.{m}")
                continue
            raise AnalysisError(f"C05: no self.step call in VParallelAdvection.{m}")


def poloidal(chk):
    env = {"eta_vals": eta_grid_tag(), "splines": OTHER, "constants": ("constants",), "nulEdge": OTHER,
           "explicitTrap": OTHER, "tol": OTHER}
    attrs, _ = ctor_attrs(chk, U.ADV, "PoloidalAdvection", env)
    cache_tags = {}
    # the per-plane potential splines are distinct objects (a cache written by gridStep and read again later)
    init = chk.func(U.ADV, "PoloidalAdvection.__init__")
    ps = [n for n in ast.walk(init) if isinstance(n, ast.Assign) and src(n.targets[0]) == "self._phiSplines"]
    okc, bad = False, None
    if ps:
        v = ps[0].value
        if isinstance(v, ast.ListComp) and isinstance(v.elt, ast.Call) and src(v.elt.func) == "Spline2D":
            okc = True
        elif isinstance(v, ast.BinOp) and isinstance(v.op, ast.Mult):
            bad = (f"`{src(v)[:70]}` repeats ONE spline object for every z plane: the plane interpolated last overwrites all "
                   "others, so a later gridStep_SplinesUnchanged advects every plane with the last plane's potential")
    chk.pat("C-cache-distinct", ps[0] if ps else init, "self._phiSplines = [Spline2D(...) for each z plane]", okc,
            "one spline object per z plane: the potential splines computed by gridStep survive until gridStep_SplinesUnchanged", bad,
            file=U.ADV, func="PoloidalAdvection.__init__")
    for m in ("gridStep", "gridStep_SplinesUnchanged"):
        fn = chk.func(U.ADV, f"PoloidalAdvection.{m}")
        amb = I.ambient_from_asserts(fn)
        o = amb.get("grid")
        if o is None:
            raise AnalysisError(f"C05: PoloidalAdvection.{m} no longer asserts its layout")
        env2 = {"grid": grid_param(o, 2), "dt": OTHER}
        if m == "gridStep":
            op = amb.get("phi")
            rel_ok = True if op == o[1:] else (False if op is not None else None)
            chk.ob("C-layout-relation", fn, "phi layout = grid layout[1:]", rel_ok,
                   "the potential is required in the grid's layout without v" if rel_ok else
                   (f"the potential is required in layout {op}, which is not the grid's layout {o} without its first dimension: slice j of "
                    "phi is not the plane of slice (i, j) of the grid" if op is not None else
                    "relation between the layouts of grid and phi is no longer asserted"), file=U.ADV, func=f"PoloidalAdvection.{m}")
            env2["phi"] = grid_param(op or o[1:], 1)
        ctx = Ctx(dist_dims=dist_dims(o, 2))
        an = run_method(chk, U.ADV, "PoloidalAdvection", m, env2, ctx, dict(attrs),
                          {"step": {"params": ["f", "dt", "phi", "v"], "req": {}}})
        index_agreement(chk, an, fn, U.ADV, f"PoloidalAdvection.{m}")
        local_extent_dependence(chk, an, fn, U.ADV, f"PoloidalAdvection.{m}")
        for n_ in ast.walk(fn):
            if isinstance(n_, ast.Subscript) and src(n_.value) == "self._phiSplines":
                cache_tags.setdefault(m, []).append((n_, an.node_tags.get(id(n_.slice))))
        # the v handed to step is the coordinate of the slice's own v; the potential spline is the one of the slice's own z plane
        nstep = 0
        for c in ast.walk(fn):
            if not (isinstance(c, ast.Call) and isinstance(c.func, ast.Attribute) and c.func.attr == "step" and src(c.func.value) == "self"):
                continue
            nstep += 1
            b = agree.bind_call(c, ["f", "dt", "phi", "v"]) or {}
            vt = an.node_tags.get(id(b["v"])) if "v" in b else None
            problems, bad = [], []
            if vt == ("coord", 3):
                pass
            elif isinstance(vt, tuple) and vt[0] == "coord":
                bad.append(f"the velocity handed to step is {tname(vt)}, not the v coordinate of the slice")
            else:
                problems.append(f"velocity argument `{src(b['v']) if 'v' in b else '?'}` is {tname(vt) if vt else 'not typed'}")
            f_, ph = b.get("f"), b.get("phi")
            zpos = list(o).index(2) if 2 in o else None
            zsel = f_.args[zpos] if isinstance(f_, ast.Call) and isinstance(f_.func, ast.Attribute) and f_.func.attr == "get2DSlice" \
                and src(f_.func.value) == "grid" and zpos is not None and zpos < len(f_.args) else None
            if not (isinstance(ph, ast.Subscript) and src(ph.value) == "self._phiSplines") or zsel is None:
                problems.append(f"slice `{src(f_) if f_ is not None else '?'}` / potential `{src(ph) if ph is not None else '?'}` not recognised")
            else:
                pt, zt = an.node_tags.get(id(ph.slice)), an.node_tags.get(id(zsel))
                if not (isinstance(pt, tuple) and pt[0] in ("lidx", "gidx")) or not (isinstance(zt, tuple) and zt[0] in ("lidx", "gidx")):
                    problems.append(f"index spaces of `{src(ph)}` ({tname(pt) if pt else '?'}) and of the z selector `{src(zsel)}` "
                                    f"({tname(zt) if zt else '?'}) not determined")
                elif pt[1] != 2:
                    bad.append(f"the potential spline is selected by `{src(ph.slice)}`, an index along {I.DIMNAMES.get(pt[1], pt[1])}, while the "
                               f"slice is the z plane `{src(zsel)}`: planes are advected with the potential of another plane")
                elif src(ph.slice) != src(zsel) and _binding_loop(c, ph.slice) is not _binding_loop(c, zsel):
                    problems.append(f"`{src(ph.slice)}` and `{src(zsel)}` are not bound by the same loop: same plane not established")
            okc = False if bad else (None if problems else True)
            chk.ob("C-coordinate-role", c, f"step(slice(i, j), dt, phiSplines[j], v) in {m}", okc,
                   "the velocity is the slice's own v coordinate and the potential spline is the one of the slice's own z plane"
                   if okc else "; ".join(bad + problems), file=U.ADV, func=f"PoloidalAdvection.{m}")
        if nstep == 0:
            chk.ob("C-coordinate-role", fn, f"self.step(...) in {m}", None, "no call of self.step found (idiom changed)", file=U.ADV,
                   func=f"PoloidalAdvection.{m}")
    # writer (gridStep) and reader (gridStep_SplinesUnchanged) of the cache use the same index space
    tags = {(m, I.tname(t) if t else "?") for m, lst in cache_tags.items() for _, t in lst}
    kinds = {t for _, t in tags}
    node = cache_tags.get("gridStep_SplinesUnchanged", [(None, None)])[0][0] or chk.func(U.ADV, "PoloidalAdvection.gridStep")
    if len(cache_tags) == 2 and "?" not in kinds and "('other',)" not in kinds:
        ok = len(kinds) == 1
        chk.ob("C-cache-index-space", node, "self._phiSplines[...] in gridStep / gridStep_SplinesUnchanged", ok,
               f"the cache is written and read with {sorted(kinds)[0]}" if ok else
               f"the cache is indexed inconsistently: {sorted(tags)} - after gridStep, gridStep_SplinesUnchanged reads the splines of other "
               "z planes whenever z is distributed", file=U.ADV, func="PoloidalAdvection.gridStep_SplinesUnchanged")
    else:
        chk.ob("C-cache-index-space", node, "self._phiSplines[...] in gridStep / gridStep_SplinesUnchanged", None,
               f"index spaces of the cache subscripts not determined: {sorted(tags)}", file=U.ADV,
               func="PoloidalAdvection.gridStep_SplinesUnchanged")
    return attrs


def _binding_loop(at, expr):
    """innermost loop around `at` whose target binds a name of `expr` (None when there is none)"""
    names = {n.id for n in ast.walk(expr) if isinstance(n, ast.Name)}
    p_ = parent(at)
    while p_ is not None and not isinstance(p_, (ast.FunctionDef, ast.ClassDef)):
        if isinstance(p_, ast.For) and names & {n.id for n in ast.walk(p_.target) if isinstance(n, ast.Name)}:
            return p_
        p_ = parent(p_)
    return None


def range_slices_as_index(fn):
    """private copy of `fn` in which `A[R.start:R.stop]`, with R a local bound once to `<grid>.getGlobalIdxVals(k)` (the contiguous
    range of global indices of the local block), is written `A[R]`: selecting with the bounds of a unit-step range selects the
    same rows as indexing with the range itself, which is the form engine C types"""
    import copy
    defs = {}
    for n in ast.walk(fn):
        if isinstance(n, ast.Name) and isinstance(n.ctx, ast.Store):
            defs[n.id] = defs.get(n.id, 0) + 1
    ranges = {st.targets[0].id for st in ast.walk(fn) if isinstance(st, ast.Assign) and len(st.targets) == 1 and isinstance(st.targets[0], ast.Name)
              and defs.get(st.targets[0].id) == 1 and isinstance(st.value, ast.Call) and isinstance(st.value.func, ast.Attribute)
              and st.value.func.attr == "getGlobalIdxVals"}

    def hit(n):
        return isinstance(n, ast.Subscript) and isinstance(n.slice, ast.Slice) and n.slice.step is None \
            and isinstance(n.slice.lower, ast.Attribute) and isinstance(n.slice.upper, ast.Attribute) \
            and n.slice.lower.attr == "start" and n.slice.upper.attr == "stop" and isinstance(n.slice.lower.value, ast.Name) \
            and isinstance(n.slice.upper.value, ast.Name) and n.slice.lower.value.id == n.slice.upper.value.id and n.slice.lower.value.id in ranges
    if not any(hit(n) for n in ast.walk(fn)):
        return fn
    par = parent(fn)
    new = copy.deepcopy(fn, {id(par): par} if par is not None else {})
    for n in ast.walk(new):
        if hit(n):
            n.slice = ast.copy_location(ast.Name(id=n.slice.lower.value.id, ctx=ast.Load()), n.slice)
    for n in ast.walk(new):
        for ch in ast.iter_child_nodes(n):
            ch._parent = n
    new._parent = par
    return new


def density(chk):
    env = {"eta_grid": eta_grid_tag(), "constants": ("constants",), "degree": OTHER, "bspline": OTHER}
    attrs, _ = ctor_attrs(chk, U.POISSON, "DensityFinder", env)
    fe = attrs.get("_fEq")
    # whatever index range the table covers, the kernel call must pair its rows with the rows of the grid block (C-coindexed-axes)
    ok = True if I.is_arr(fe) and all(w is not None and w[0] in ("G", "L") for w in fe[1]) else None
    chk.ob("C-table-roles", chk.func(U.POISSON, "DensityFinder.__init__"), "self._fEq", ok,
           f"equilibrium table is {tname(fe)}" if ok else f"axes of the table not established: {tname(fe)}", file=U.POISSON,
           func="DensityFinder.__init__")
    res = {}
    for m in ("getPerturbedRho", "getRho"):
        fn = chk.func(U.POISSON, f"DensityFinder.{m}")
        fn = range_slices_as_index(fn)
        amb = I.ambient_from_asserts(fn)
        og, orho = amb.get("grid"), amb.get("rho")
        if og is None or orho is None:
            raise AnalysisError(f"C05: DensityFinder.{m} no longer asserts the layouts of grid and rho")
        ctx = Ctx(dist_dims=dist_dims(og, 2))
        a = IS2(chk, U.POISSON, f"DensityFinder.{m}", fn, {"grid": grid_param(og, 2), "rho": grid_param(orho, 2)}, ctx, dict(attrs))
        chk.functions.add(f"{U.POISSON}:DensityFinder.{m}")
        a.run()
        local_extent_dependence(chk, a, fn, U.POISSON, f"DensityFinder.{m}")
        # kernel call: co-indexed axes must cover the same index ranges
        kname = "get_perturbed_rho" if m == "getPerturbedRho" else "get_rho"
        calls = [c for c in ast.walk(fn) if isinstance(c, ast.Call) and isinstance(c.func, ast.Name) and c.func.id == kname]
        if len(calls) != 1:
            raise AnalysisError(f"C05: kernel call {kname} not found in DensityFinder.{m}")
        c = calls[0]
        kfn = chk.func(U.PTOOLS, kname)
        formals = [x.arg for x in kfn.args.args]
        b = agree.bind_call(c, formals)
        tags = {f: a.ev(v) for f, v in (b or {}).items()}
        co = coindexed_axes(kfn)
        for lv, uses in co.items():
            wins = []
            for (an, ax) in uses:
                t = tags.get(an)
                if I.is_arr(t) and ax < len(t[1]):
                    wins.append((an, ax, t[1][ax]))
            known = [(an, ax, w) for an, ax, w in wins if w is not None and w[0] in ("G", "L", "P")]
            bad = None
            for x in known[1:]:
                w0, w1 = known[0][2], x[2]
                if w0 == w1:
                    continue
                if w0[1] == w1[1] and {w0[0], w1[0]} == {"G", "L"} and not ctx.distributed(w0[1]):
                    continue
                bad = (known[0], x)
            stenc = [(an, ax, w) for an, ax, w in wins if w is not None and w[0] in ("S",)]
            if known:
                chk.ob("C-coindexed-axes", c, f"{kname}: loop index `{lv}` over " + ", ".join(f"{an}[{ax}]" for an, ax, _ in wins),
                       False if bad else (None if stenc and len(known) >= 1 and any(w[0] == "S" for _, _, w in wins) else True),
                       ("all arrays indexed by this loop variable cover the same index range: " +
                        ", ".join(f"{an}[{ax}]={I.wname(w)}" for an, ax, w in wins)) if not bad else
                       f"`{bad[0][0]}` axis {bad[0][1]} is {I.wname(bad[0][2])} but `{bad[1][0]}` axis {bad[1][1]} is {I.wname(bad[1][2])}: "
                       "row i of one array does not belong to row i of the other", file=U.POISSON, func=f"DensityFinder.{m}")
        res[m] = tags
    return attrs, res


def coindexed_axes(kfn: ast.FunctionDef):
    """{loop var: [(array param, axis), ...]} from subscripts `A[i, j, ...]` with bare loop variables"""
    params = {a.arg for a in kfn.args.args}
    loopvars = set()
    for n in ast.walk(kfn):
        if isinstance(n, ast.For) and isinstance(n.target, ast.Name):
            loopvars.add(n.target.id)
    out = {}
    for n in ast.walk(kfn):
        if isinstance(n, ast.Subscript) and isinstance(n.value, ast.Name) and n.value.id in params:
            items = n.slice.elts if isinstance(n.slice, ast.Tuple) else [n.slice]
            for k, it in enumerate(items):
                if isinstance(it, ast.Name) and it.id in loopvars:
                    if (n.value.id, k) not in out.setdefault(it.id, []):
                        out[it.id].append((n.value.id, k))
    return out


def solver(chk):
    """DiffEqSolver / QuasiNeutralitySolver: global-mode tables indexed by the global mode index"""
    O = orders(chk)
    o_ms = O["mode_solve"]
    o_v2 = O["v_parallel_2d"]
    ctx = Ctx(dist_dims=dist_dims(o_ms, 2))
    env = {"degree": OTHER, "rspline": OTHER, "nr": ("size", G(0)), "nTheta": ("size", G(1)),
           "lNeumannIdx": OTHER, "uNeumannIdx": OTHER}
    attrs, _ = ctor_attrs(chk, U.POISSON, "DiffEqSolver", env)
    for k in ("_mVals", "_coeff_range", "_stiffness_range"):
        if k != "_mVals" and k not in attrs:
            continue            # a per-mode table the class no longer keeps: nothing to type
        t = attrs.get(k)
        ok = True if I.is_arr(t) and t[1] and t[1][0] is not None and t[1][0][0] in ("G", "L") and t[1][0][1] in (1, None) else None
        chk.ob("C-table-roles", chk.func(U.POISSON, "DiffEqSolver.__init__"), f"self.{k}", ok,
               f"per-mode table is {tname(t)}: its subscripts are typed against this axis (C-window)" if ok else f"axis of the table not established: {tname(t)}",
               file=U.POISSON, func="DiffEqSolver.__init__")
    sm, _ = summary_of(chk, U.POISSON, "DiffEqSolver", "_solveMode", dict(attrs), ctx,
                         {"phi": grid_param(o_ms, 2), "rho": grid_param(o_ms, 2)})
    smfn = chk.func(U.POISSON, "DiffEqSolver._solveMode")
    idxp = [p_ for p_ in sm["params"] if isinstance(sm["req"].get(p_), tuple) and sm["req"][p_][0] in ("lidx", "gidx")]
    ok = True if idxp else None
    chk.ob("C-table-roles", smfn, f"_solveMode({', '.join(sm['params'])})", ok,
           "; ".join(f"`{p_}` must be {tname(sm['req'][p_])}" for p_ in idxp) + " (the callers are checked against this at each call: C-slice-param)"
           if ok else f"index requirements not established: { {k: tname(v) for k, v in sm['req'].items()} }", file=U.POISSON,
           func="DiffEqSolver._solveMode")
    smf, _ = summary_of(chk, U.POISSON, "DiffEqSolver", "_solveModeFunc", dict(attrs), ctx, {"phi": grid_param(o_ms, 2), "rho": OTHER})
    for cls, m in (("DiffEqSolver", "solveEquation"), ("DiffEqSolver", "solveEquationForFunction"),
                   ("QuasiNeutralitySolver", "solveEquation")):
        # an inherited definition is analysed as the derived class runs it: template methods it calls resolve to the overrides
        owner_q, fn = resolve_method(chk, U.POISSON, cls, m)
        summ = {"_solveMode": sm, "_solveModeFunc": smf}
        a = IS2(chk, U.POISSON, f"{cls}.{m}", fn, {"phi": grid_param(o_ms, 2), "rho": grid_param(o_ms, 2) if m != "solveEquationForFunction" else OTHER},
               ctx, dict(attrs), summ)
        a.methods = {k: v[1] for k, v in method_table(chk, U.POISSON, cls).items() if k not in summ and v[1] is not fn}
        chk.functions.add(f"{U.POISSON}:{cls}.{m}")
        a.run()
        local_extent_dependence(chk, a, fn, U.POISSON, f"{cls}.{m}")
    for m in ("getModes", "findPotential"):
        fn = chk.func(U.POISSON, f"DiffEqSolver.{m}")
        amb = I.ambient_from_asserts(fn)
        nm = "rho" if m == "getModes" else "phi"
        o = amb.get(nm)
        if o is None:
            raise AnalysisError(f"C05: DiffEqSolver.{m} no longer asserts its layout")
        run_method(chk, U.POISSON, "DiffEqSolver", m, {nm: grid_param(o, 2)}, Ctx(dist_dims=dist_dims(o, 2)), {})
    return attrs


def initialisers(chk):
    O = orders(chk)
    want = {"r": 0, "rVec": 0, "theta": 1, "z": 2, "zVec": 2, "vPar": 3}
    for fname, lname, kname in (("initialise_flux_surface", "flux_surface", "init_f_flux"),
                                ("initialise_poloidal", "poloidal", "init_f_pol"),
                                ("initialise_v_parallel", "v_parallel", "init_f_vpar")):
        o = O[lname]
        fn = chk.func(U.INITIALISER, fname)
        ctx = Ctx(dist_dims=dist_dims(o, 2))
        a = IS2(chk, U.INITIALISER, fname, fn, {"grid": grid_param(o, 2), "constants": ("constants",)}, ctx, {})
        a.run()
        calls = [c for c in ast.walk(fn) if isinstance(c, ast.Call) and isinstance(c.func, ast.Name) and c.func.id == kname]
        if len(calls) != 1:
            raise AnalysisError(f"C05: kernel call {kname} not found in {fname}")
        c = calls[0]
        kfn = chk.func(U.INITF, kname)
        formals = [x.arg for x in kfn.args.args]
        b = agree.bind_call(c, formals) or {}
        # bind loop variables as in the loops
        a2 = IS2(_Mute(), U.INITIALISER, fname, fn, {"grid": grid_param(o, 2), "constants": ("constants",)}, ctx, {})
        tags = eval_at_call(a2, fn, c, b)
        for f, t in tags.items():
            if f in want:
                d = None
                if isinstance(t, tuple) and t[0] == "coord":
                    d = t[1]
                elif I.is_arr(t) and t[2] is not None and t[2][0] == "coord":
                    d = t[2][1]
                chk.ob("C-coordinate-role", c, f"{kname}: {f} <- {src(b[f])}", d == want[f] if d is not None else None,
                       f"parameter `{f}` receives the {I.DIMNAMES[want[f]]} coordinate(s) of the slice" if d == want[f] else
                       f"parameter `{f}` receives {tname(t)}", file=U.INITIALISER, func=fname)
        # surface axes = last two dims of the layout, in the kernel's (first, second) loop order
        agree.check_roles(chk, U.INITIALISER, fname, c, formals, {}, const_recv="constants")
        co = coindexed_axes(kfn)


def eval_at_call(a: IS, fn, call, bound):
    """tags of the actuals of `call`, with loop variables bound as at the call"""
    res = {}

    def walk(stmts):
        for st in stmts:
            if isinstance(st, ast.For):
                it = a.ev(st.iter)
                tags = it[1] if isinstance(it, tuple) and it[0] == "iter" else OTHER
                a.bind_loop(st.target, tags)
                walk(st.body)
            elif isinstance(st, ast.Assign):
                v = a.ev(st.value)
                for t in st.targets:
                    a.assign(t, v, st)
            elif isinstance(st, ast.If):
                walk(st.body)
                walk(st.orelse)
            if any(n is call for n in ast.walk(st)) and not isinstance(st, (ast.For, ast.If)):
                for f, v in bound.items():
                    res[f] = a.ev(v)
    walk(fn.body)
    return res


# ------------------------------------------------------------------ driver typestate
OPERATOR_REQUIREMENTS = None


def ambient_of(chk, rel, cls, fn, depth=0):
    """layout requirements asserted by a method, those of same-class methods it hands its own grid parameters to included
    (`solveEquation(phi, rho)` = `self._solveLocalModes(phi, rho, ...)`: the callee's asserts on rho are the caller's)"""
    amb = dict(I.ambient_from_asserts(fn))
    if depth >= 2 or cls is None:
        return amb
    own = {a.arg for a in fn.args.args}
    table = method_table(chk, rel, cls)
    for st in fn.body:
        for c in ([st.value] if isinstance(st, (ast.Expr, ast.Return)) and isinstance(st.value, ast.Call) else []):
            if isinstance(c.func, ast.Attribute) and isinstance(c.func.value, ast.Name) and c.func.value.id == "self" and c.func.attr in table \
                    and table[c.func.attr][1] is not fn:
                callee = table[c.func.attr][1]
                formals = [a.arg for a in callee.args.args if a.arg != "self"]
                b = agree.bind_call(c, formals) or {}
                sub = ambient_of(chk, rel, cls, callee, depth + 1)
                for f_, a_ in b.items():
                    if isinstance(a_, ast.Name) and a_.id in own:
                        for k_, v_ in sub.items():
                            if k_ == f_ or k_.startswith(f_ + "["):
                                amb.setdefault(a_.id + k_[len(f_):], v_)
    return amb


def ordered_actuals(chk, c, cls, m):
    """the actual arguments of an operator call in the order of the callee's parameters (keyword arguments bound by name); the
    positional list when the callee is not found"""
    rel = {"FluxSurfaceAdvection": U.ADV, "VParallelAdvection": U.ADV, "PoloidalAdvection": U.ADV, "DensityFinder": U.POISSON,
           "QuasiNeutralitySolver": U.POISSON, "DiffEqSolver": U.POISSON, "DiagnosticCollector": U.DIAG}.get(cls)
    if not c.keywords or rel is None:
        return list(c.args)
    try:
        fn = method_table(chk, rel, cls).get(m, (None, None))[1]
    except AnalysisError:
        fn = None
    if fn is None:
        return list(c.args)
    static = any(isinstance(d, ast.Name) and d.id == "staticmethod" for d in fn.decorator_list)
    formals = [a.arg for a in fn.args.args][0 if static else 1:]
    b = agree.bind_call(c, formals)
    if b is None:
        return list(c.args)
    out = []
    for f_ in formals:
        if f_ not in b:
            break
        out.append(b[f_])
    return out


def callee_requirements(chk):
    """layout each grid-taking operator requires, read from its asserts"""
    req = {}
    O = orders(chk)
    for rel, q, params in (
            (U.ADV, "FluxSurfaceAdvection.gridStep", ["grid"]),
            (U.ADV, "PoloidalAdvection.gridStep", ["grid", "phi"]),
            (U.ADV, "PoloidalAdvection.gridStep_SplinesUnchanged", ["grid"]),
            (U.POISSON, "DensityFinder.getPerturbedRho", ["grid", "rho"]),
            (U.POISSON, "DensityFinder.getRho", ["grid", "rho"]),
            (U.POISSON, "DiffEqSolver.getModes", ["rho"]),
            (U.POISSON, "DiffEqSolver.findPotential", ["phi"])):
        amb = I.ambient_from_asserts(chk.func(rel, q))
        req[q.split(".")[-1]] = {p: amb.get(p) for p in params}
    for q in ("DiffEqSolver.solveEquation", "QuasiNeutralitySolver.solveEquation"):
        amb = ambient_of(chk, U.POISSON, q.split(".")[0], resolve_method(chk, U.POISSON, *q.split("."))[1])
        req.setdefault("solveEquation", {})["rho[-1]"] = amb.get("rho[-1]")
    return req


def driver_typestate(chk):
    """walk fullSimulation.main: current layout of distribFunc / phi / rho at every operator call"""
    O = orders(chk)
    fn = chk.func(U.DRIVER, "main")
    req = callee_requirements(chk)
    GRIDS = ("distribFunc", "phi", "rho")
    state0 = {}
    events = []

    def order_of(g, name):
        nd = 4 if g == "distribFunc" else 3
        return O.get((name, nd))

    def call_events(st, state):
        calls = [c for c in ast.walk(st) if isinstance(c, ast.Call)]
        calls.sort(key=lambda c: (c.end_lineno, c.end_col_offset))
        for c in calls:
            f = c.func
            if isinstance(f, ast.Attribute) and isinstance(f.value, ast.Name) and f.value.id in GRIDS:
                g = f.value.id
                if f.attr == "setLayout" and c.args and isinstance(c.args[0], ast.Constant):
                    state[g] = {"cur": c.args[0].value, "saved": state.get(g, {}).get("saved")}
                    events.append(("setLayout", g, c.args[0].value, c))
                    known = order_of(g, c.args[0].value) is not None
                    chk.ob("S-known-layout", c, src(c), known, "layout name is one of the layouts the grid's manager was built with"
                           if known else "layout name is not in the literal layout dictionaries", file=U.DRIVER, func="main", nontrivial=False)
                elif f.attr == "saveGridValues":
                    state[g] = {"cur": state[g]["cur"], "saved": state[g]["cur"]}
                    events.append(("save", g, state[g]["cur"], c))
                elif f.attr == "restoreGridValues":
                    sv = state[g].get("saved")
                    chk.ob("S-restore-layout", c, src(c), sv is not None, f"restore brings `{g}` back to layout `{sv}`",
                           file=U.DRIVER, func="main")
                    state[g] = {"cur": sv, "saved": None}
                    events.append(("restore", g, sv, c))
                elif f.attr == "freeGridSave":
                    state[g] = {"cur": state[g]["cur"], "saved": None}
                elif f.attr == "writeH5Dataset":
                    events.append(("write", g, state[g]["cur"], c))
            # grid construction
            if isinstance(f, ast.Name) and f.id in ("setupCylindricalGrid", "setupFromFile"):
                lay = [k.value.value for k in c.keywords if k.arg == "layout" and isinstance(k.value, ast.Constant)]
                if lay:
                    state["distribFunc"] = {"cur": lay[0], "saved": None}
            if isinstance(f, ast.Name) and f.id == "Grid":
                stn = c
                while not isinstance(stn, ast.stmt):
                    stn = parent(stn)
                if isinstance(stn, ast.Assign) and isinstance(stn.targets[0], ast.Name) and len(c.args) >= 4 \
                        and isinstance(c.args[3], ast.Constant):
                    state[stn.targets[0].id] = {"cur": c.args[3].value, "saved": None}
            # operator calls taking grids
            if isinstance(f, ast.Attribute) and any(isinstance(a, ast.Name) and a.id in GRIDS for a in list(c.args) + [k.value for k in c.keywords]):
                m = f.attr
                if m in req or m in ("gridStep", "gridStepKeepGradient", "collect"):
                    recv = src(f.value)
                    check_operator_call(chk, c, recv, m, state, req, order_of)
                    events.append(("op", recv + "." + m, {g: state.get(g, {}).get("cur") for g in GRIDS}, c))

    def run_block(stmts, state):
        for st in stmts:
            if isinstance(st, ast.If):
                call_events(ast.Expr(value=st.test), state)
                s1 = {k: dict(v) for k, v in state.items()}
                s2 = {k: dict(v) for k, v in state.items()}
                run_block(st.body, s1)
                run_block(st.orelse, s2)
                for g in set(s1) | set(s2):
                    if s1.get(g) != s2.get(g):
                        chk.ob("S-branch-agreement", st, f"if {src(st.test)[:60]}", False,
                               f"`{g}` is in layout {s1.get(g)} after one arm and {s2.get(g)} after the other", file=U.DRIVER, func="main")
                state.clear()
                state.update(s1)
            elif isinstance(st, (ast.While, ast.For)):
                before = {k: dict(v) for k, v in state.items()}
                run_block(st.body, state)
                # loop invariant: layouts at the end of the body equal those at its start
                for g in GRIDS:
                    ok = before.get(g) == state.get(g)
                    chk.ob("S-loop-invariant", st, f"time loop: layout of {g}", ok,
                           f"`{g}` is in the same layout ({state.get(g, {}).get('cur')}) at the start and at the end of an iteration"
                           if ok else f"`{g}` starts an iteration in {before.get(g)} but ends it in {state.get(g)}",
                           file=U.DRIVER, func="main")
            elif isinstance(st, (ast.FunctionDef, ast.ClassDef)):
                continue
            else:
                call_events(st, state)

    run_block(fn.body, state0)
    chk.extra["driver_events"] = len(events)
    return events


def check_operator_call(chk, c, recv, m, state, req, order_of):
    cls_of = {"fluxAdv": "FluxSurfaceAdvection", "vParAdv": "VParallelAdvection", "polAdv": "PoloidalAdvection",
              "density": "DensityFinder", "QNSolver": "QuasiNeutralitySolver", "diagnostics": "DiagnosticCollector"}
    cls = cls_of.get(recv)
    if c.keywords:
        # keyword arguments are put in the callee's parameter order: the rules below speak of argument positions
        c = ast.copy_location(ast.Call(func=c.func, args=ordered_actuals(chk, c, cls, m), keywords=[]), c)
    args = [a.id for a in c.args if isinstance(a, ast.Name) and a.id in ("distribFunc", "phi", "rho")]
    label = f"{recv}.{m}({', '.join(args)})"
    if cls is None:
        chk.ob("S-operator-layout", c, label, None, f"receiver `{recv}` is not one of the known operator objects", file=U.DRIVER, func="main")
        return
    wanted = {}
    if cls == "FluxSurfaceAdvection":
        wanted = {0: req["gridStep"].get("grid")} if False else {0: I.ambient_from_asserts(chk.func(U.ADV, "FluxSurfaceAdvection.gridStep")).get("grid")}
    elif cls == "PoloidalAdvection":
        amb = I.ambient_from_asserts(chk.func(U.ADV, f"PoloidalAdvection.{m}"))
        wanted = {0: amb.get("grid")}
        if m == "gridStep":
            wanted[1] = amb.get("phi")
    elif cls == "VParallelAdvection":
        O = I.LAYOUT_ORDERS
        wanted = {0: O["v_parallel"]}
        if m == "gridStep":
            wanted[1] = O["v_parallel_1d"]
            # phi must be in a layout whose z is NOT distributed: the gradient is taken along the whole z line
            g = c.args[1].id if len(c.args) > 1 and isinstance(c.args[1], ast.Name) else None
            if g:
                cur = state.get(g, {}).get("cur")
                nd = I.LAYOUT_NDIST.get(cur)
                og = order_of(g, cur)
                zfree = (2 not in og[:nd]) if og is not None and nd is not None else None
                chk.ob("S-operator-layout", c, label + " [z lines complete]", zfree,
                       f"the potential is in layout `{cur}` = {og}, distributed along {[I.DIMNAMES.get(d, d) for d in og[:nd]]}: every process "
                       "holds complete z lines" if zfree else
                       (f"the potential is in layout `{cur}` = {og}, in which z is distributed: the parallel gradient needs the whole periodic z "
                        "line of each (r, theta)" if zfree is False else f"layout `{cur}` of the potential is not one of the known layouts"),
                       file=U.DRIVER, func="main")
    elif cls == "DensityFinder":
        amb = I.ambient_from_asserts(chk.func(U.POISSON, f"DensityFinder.{m}"))
        wanted = {0: amb.get("grid"), 1: amb.get("rho")}
    elif cls == "QuasiNeutralitySolver":
        if m in ("getModes", "findPotential"):
            amb = I.ambient_from_asserts(chk.func(U.POISSON, f"DiffEqSolver.{m}"))
            wanted = {0: amb.get("rho" if m == "getModes" else "phi")}
        elif m == "solveEquation":
            last = ambient_of(chk, U.POISSON, "QuasiNeutralitySolver",
                              resolve_method(chk, U.POISSON, "QuasiNeutralitySolver", "solveEquation")[1]).get("rho[-1]")
            for k, a in enumerate(c.args):
                if isinstance(a, ast.Name) and a.id in state:
                    o = order_of(a.id, state[a.id]["cur"])
                    ok = (o[-1] == last) if o is not None and last is not None else None
                    chk.ob("S-operator-layout", c, label + f" [{a.id}]", ok,
                           f"`{a.id}` is in layout `{state[a.id]['cur']}` whose last (contiguous) dimension is r" if ok else
                           (f"`{a.id}` is in layout `{state[a.id]['cur']}` = {o}, the solver needs r last" if ok is False else
                            f"layout of `{a.id}` ({state[a.id]['cur']} = {o}) or the solver's requirement on the last dimension ({last}) not "
                            "determined"), file=U.DRIVER, func="main")
            # both grids in the same layout: the solver loops over rho's modes and writes phi's slices
            if len(c.args) >= 2 and all(isinstance(a, ast.Name) and a.id in state for a in c.args[:2]):
                same = state[c.args[0].id]["cur"] == state[c.args[1].id]["cur"]
                chk.ob("S-operator-layout", c, label + " [same layout]", same,
                       "phi and rho are in the same layout" if same else
                       f"phi is in `{state[c.args[0].id]['cur']}` but rho in `{state[c.args[1].id]['cur']}`", file=U.DRIVER, func="main")
            return
    elif cls == "DiagnosticCollector":
        # collect(f, phi, t): norms were built for 'v_parallel' / 'v_parallel_2d'
        dfn = chk.func(U.DIAG, "DiagnosticCollector.__init__")
        names = [a.value for n in ast.walk(dfn) if isinstance(n, ast.Call) and isinstance(n.func, ast.Attribute)
                 and n.func.attr == "getLayout" for a in n.args if isinstance(a, ast.Constant)]
        want_f = {x for x in names if x in ("v_parallel", "flux_surface", "poloidal")}
        want_p = {x for x in names if x not in want_f}
        for k, (a, want) in enumerate(zip(c.args[:2], (want_f, want_p))):
            if isinstance(a, ast.Name) and a.id in state:
                cur = state[a.id]["cur"]
                ok = want == {cur}
                chk.ob("S-operator-layout", c, label + f" [{a.id}]", ok,
                       f"`{a.id}` is in `{cur}`, the layout its diagnostics were built for" if ok else
                       f"`{a.id}` is in `{cur}` but its diagnostics were built for {sorted(want)}", file=U.DRIVER, func="main")
        return
    for k, o_want in wanted.items():
        if k >= len(c.args) or not isinstance(c.args[k], ast.Name) or c.args[k].id not in state:
            continue
        g = c.args[k].id
        cur = state[g]["cur"]
        o = order_of(g, cur)
        ok = o is not None and o_want is not None and tuple(o) == tuple(o_want)
        chk.ob("S-operator-layout", c, label + f" [{g}]", ok if o_want is not None else None,
               f"`{g}` is in layout `{cur}` = {o}, as the operator requires" if ok else
               f"`{g}` is in layout `{cur}` = {o} but the operator requires {o_want}", file=U.DRIVER, func="main")


def run(chk):
    chk.explanation = (
        "Index-space and window typing (engine C) of every table look-up, slice selection and kernel argument of the "
        "grid-level operators (flux-surface, v-parallel, poloidal advection, parallel gradient, density, per-mode solver, "
        "initialisers): local vs global index, layout axis vs dimension, local block vs global table, co-indexed kernel "
        "axes; plus the driver layout typestate: at each of the operator calls of fullSimulation.main every grid is in the "
        "layout its callee requires, restore returns to the saved layout, the loop body is layout-invariant. This is the "
        "statically visible necessary condition 'each slice uses the parameters of its own global coordinates'; numerical "
        "equality of parallel and serial runs is not decided. Relational rules: one index value must not select a local slice and a "
        "Global axis of the same distributed dimension (C-same-index, also for indices the engine could not type); the coordinate "
        "handed to a per-line routine is the one at the index that selects the line; the block of the gradient table handed to "
        "parallel_gradient has the axes of the potential slice, is written in every iteration over the radii (E2-gradient-row-written) "
        "and is what the callee returns; a value reduced (max/sum/any/norm ...) over the local block of a distributed dimension must "
        "not decide a branch or be stored without a reduction over the communicator (C-local-extent).")
    chk.assumptions += ["standard layouts and their distributed axes are those of the literal dictionaries in setups.py/fullSimulation.py",
                        "the same dimension is partitioned identically in every layout group that distributes it over the same process count"]
    chk.in_file(U.ADV)
    pg_attrs, pg_summ = parallel_gradient(chk)
    flux_surface(chk)
    v_parallel(chk, pg_summ)
    poloidal(chk)
    density(chk)
    solver(chk)
    initialisers(chk)
    driver_typestate(chk)
    from .C14 import per_mode
    try:
        per_mode(chk)
    except AnalysisError as e:
        # the per-mode rules (C14) cannot follow the solver: undecided here, the other sections keep their verdicts
        chk.ob("F4-mode-solve", chk.mod(U.POISSON).tree, "per-mode solver rules (C14.per_mode)", None, f"not analysable: {e}",
               file=U.POISSON, func="DiffEqSolver")
    # the z stencil of the parallel gradient wraps periodically over ALL z rows whatever block the caller owns: the three index
    # regimes tile [0, nz) (shared with C13)
    from .C13 import regimes as _regimes
    _regimes(chk)
    chk.floor("C-window", 30)
    chk.floor("C-sort", 6)
    chk.floor("S-operator-layout", 18)
    chk.floor("C-slice-param", 4)
