"""C10 - flux-surface advection is a field-aligned shift along z."""
from __future__ import annotations

import ast
import copy
import re

import sympy as sp
from sympy import Symbol, Function, Integer

from ..core import src, AnalysisError, parent
from .. import units as U
from ..symx import SymExec, make_args, Undecided, alg_equal, sym_equal, ITE, Wrap, PI
from ..npsym import NpSym, PROD, DELTA
from ..kernels import SPLINE_HANDLERS, S1, h_scalar1, h_vector1
from .. import agree, lints
from .C05 import flux_surface as flux_index_spaces

CLS = "FluxSurfaceAdvection"


def geometry_env():
    r, dz, R0, dt, v = sp.symbols("r dz R0 dt v", real=True)
    iota = Function("iota")
    return dict(r=r, dz=dz, R0=R0, dt=dt, v=v, iota=iota)


def _straight_helper(h):
    """(statements, return value) of a method whose body is straight-line code (assignments, asserts, `with` blocks) ending in one
    `return`; None otherwise"""
    out = []

    def take(stmts):
        """value of the trailing return / None (no return met yet) / False (outside the fragment)"""
        for k, st in enumerate(stmts):
            if isinstance(st, ast.Expr) and isinstance(st.value, ast.Constant):
                continue
            if isinstance(st, (ast.Assign, ast.AugAssign, ast.Assert)):
                out.append(st)
            elif isinstance(st, ast.With):
                r = take(st.body)
                if r is False:
                    return False
                if r is not None:
                    return r if k == len(stmts) - 1 else False
            elif isinstance(st, ast.Return) and k == len(stmts) - 1 and st.value is not None:
                return st.value
            else:
                return False
        return None
    ret = take(h.body)
    if ret is None or ret is False:
        return None
    return out, ret


def lagrange_statements(chk, fn):
    """the assignments of _getLagrangePts in order, with `with` blocks opened and calls `target = self.helper(args)` /
    `Class.helper(args)` of straight-line helper methods written out (parameters bound to the arguments; helper locals keep their
    names unless the caller uses the same name)"""
    mod = chk.mod(U.ADV)
    methods = mod.methods(CLS)
    caller_names = {n.id for n in ast.walk(fn) if isinstance(n, ast.Name)} | {a.arg for a in fn.args.args}
    out = []
    count = [0]

    def rename(node, m):
        node = copy.deepcopy(node)
        for x in ast.walk(node):
            if isinstance(x, ast.Name) and x.id in m:
                x.id = m[x.id]
        return node

    def visit(stmts, depth=0):
        for st in stmts:
            if isinstance(st, ast.With):
                visit(st.body, depth)
                continue
            call = st.value if isinstance(st, ast.Assign) and len(st.targets) == 1 and isinstance(st.value, ast.Call) else None
            h = None
            if call is not None and isinstance(call.func, ast.Attribute) and isinstance(call.func.value, ast.Name) \
                    and call.func.value.id in ("self", CLS) and call.func.attr in methods and methods[call.func.attr] is not fn and depth < 3:
                h = methods[call.func.attr]
            if h is not None:
                body = _straight_helper(h)
                static = any(isinstance(d, ast.Name) and d.id == "staticmethod" for d in h.decorator_list)
                params = [a.arg for a in h.args.args]
                if not static and call.func.value.id == "self":
                    params = params[1:]
                elif not static:
                    body = None
                b = agree.bind_call(call, params) if body is not None else None
                if b is not None and set(b) == set(params):
                    count[0] += 1
                    stmts_h, ret = body
                    local = {n.id for s_ in stmts_h for n in ast.walk(s_) if isinstance(n, ast.Name) and isinstance(n.ctx, ast.Store)} | set(params)
                    m = {nm: f"{nm}__h{count[0]}" for nm in local if nm in caller_names}
                    pre = [ast.Assign(targets=[ast.Name(id=m.get(p_, p_), ctx=ast.Store())], value=copy.deepcopy(b[p_])) for p_ in params]
                    new = pre + [rename(s_, m) for s_ in stmts_h] + [ast.Assign(targets=copy.deepcopy(st.targets), value=rename(ret, m))]
                    for s_ in new:
                        for x in ast.walk(s_):
                            ast.copy_location(x, st)
                        ast.fix_missing_locations(s_)
                    chk.functions.add(f"{U.ADV}:{CLS}.{h.name}")
                    visit(new, depth + 1)
                    continue
            out.append(st)
    visit(fn.body)
    return propagate_int_constants(out)


def propagate_int_constants(out):
    """locals bound once to an integer literal (dimension numbers handed to a helper) stand for that literal"""
    stores = {}
    for st in out:
        for x in ast.walk(st):
            if isinstance(x, ast.Name) and isinstance(x.ctx, ast.Store):
                stores[x.id] = stores.get(x.id, 0) + 1
    consts = {st.targets[0].id: st.value for st in out if isinstance(st, ast.Assign) and len(st.targets) == 1 and isinstance(st.targets[0], ast.Name)
              and isinstance(st.value, ast.Constant) and isinstance(st.value.value, int) and not isinstance(st.value.value, bool)
              and stores.get(st.targets[0].id) == 1}
    if consts:
        class Sub(ast.NodeTransformer):
            def visit_Name(self, node):
                if isinstance(node.ctx, ast.Load) and node.id in consts:
                    return ast.copy_location(ast.Constant(value=consts[node.id].value), node)
                return node
        out = [ast.fix_missing_locations(Sub().visit(copy.deepcopy(st))) for st in out]
    return out


class _AsType(ast.NodeTransformer):
    """`E.astype(int)` -> `__asint(E)` (decided by the symbolic value of E, see lagrange_points)"""

    def visit_Call(self, node):
        self.generic_visit(node)
        if isinstance(node.func, ast.Attribute) and node.func.attr == "astype" and len(node.args) == 1 and not node.keywords \
                and src(node.args[0]) in ("int", "np.int64", "np.int32", "np.int_", "'int'", "np.intp"):
            return ast.copy_location(ast.Call(func=ast.Name(id="__asint", ctx=ast.Load()), args=[node.func.value], keywords=[]), node)
        return node


TRUNC = Function("trunc")


def _asint(x):
    """conversion to int of a value built from floors, integers and the integer stencil offsets is exact; otherwise it truncates"""
    def integral(e):
        if e.is_Integer or (e.is_Symbol and str(e) == "K"):
            return True
        if isinstance(e, (sp.floor, sp.ceiling)):
            return True
        if e.is_Add or e.is_Mul:
            return all(integral(a) for a in e.args)
        return False
    return x if integral(sp.expand(x)) else TRUNC(x)


def _single_defs(stmts):
    defs = {}
    for st in stmts:
        if isinstance(st, ast.Assign) and len(st.targets) == 1:
            defs.setdefault(src(st.targets[0]), []).append(st.value)
    return defs


def _call_name(c):
    return c.func.attr if isinstance(c.func, ast.Attribute) else c.func.id if isinstance(c.func, ast.Name) else ""


def _reduced_operand(c, names):
    """operand X of `np.<name>(X)` / `<name>(X)` / `X.<name>()` with <name> in names, else None"""
    if not isinstance(c, ast.Call) or c.keywords or _call_name(c) not in names:
        return None
    if isinstance(c.func, ast.Attribute) and not (isinstance(c.func.value, ast.Name) and c.func.value.id in ("np", "numpy")):
        return c.func.value if not c.args else None
    return c.args[0] if len(c.args) == 1 else None


def _guard_facts(test, stmts, n, polarity=True):
    """what a guard says about the per-radius model when it has the truth value `polarity`:
    (facts, complete) with facts a list of ('const', value) - all entries of the array with this generic element are equal -,
    ('zero', value) - they all vanish -, ('single',) - there is only one local radius; `complete` is False when a part of the
    condition was not understood (the facts found are still implied by the guard, but it may say more).
    Normalised forms: locals / attributes bound once stand for their definition, bool(), not, and/or (De Morgan),
    np.all(A == B) / (A == B).all() / not np.any(A != B), np.ptp(A) == 0, A.max() == A.min(), len(set(A)) == 1,
    np.unique(A).size == 1, np.all(np.diff(A) == 0), comparisons of the number of radii with 1"""
    defs = _single_defs(stmts)

    def deref(e):
        for _ in range(6):
            if isinstance(e, (ast.Name, ast.Attribute)) and len(defs.get(src(e), [])) == 1:
                e = defs[src(e)][0]
            elif isinstance(e, ast.Call) and src(e.func) in ("bool", "np.bool_") and len(e.args) == 1 and not e.keywords:
                e = e.args[0]
            else:
                break
        return e

    def val(e):
        try:
            v = n.ev(e)
        except Undecided:
            return None
        return v if isinstance(v, sp.Basic) else None

    def first_elem_of(a, b):
        """is b = a[<const>] (any fixed entry of a)?"""
        b = deref(b) if isinstance(b, ast.Name) else b
        return isinstance(b, ast.Subscript) and isinstance(b.slice, ast.Constant) and (src(b.value) == src(a) or src(deref(b.value)) == src(deref(a)))

    def count_of_radii(e):
        e = deref(e)
        s_ = src(e)
        if s_ in ("len(r)", "r.size", "r.shape[0]", "nR", "np.size(r)"):
            return True
        m_ = re.fullmatch(r"len\((\w+)\)|(\w+)\.size|(\w+)\.shape\[0\]", s_)
        if m_:
            v = n.env.get(next(x for x in m_.groups() if x))
            return isinstance(v, sp.Basic) and bool(v.free_symbols)
        return False

    def all_equal(e, pol):
        """facts of an elementwise comparison reduced by all (pol True) / of `not any(...)` (pol False)"""
        e = deref(e)
        if isinstance(e, ast.Compare) and len(e.ops) == 1:
            want = ast.Eq if pol else ast.NotEq
            a, b = e.left, e.comparators[0]
            if isinstance(e.ops[0], want):
                if first_elem_of(a, b) and val(a) is not None:
                    return [("const", val(a))]
                if first_elem_of(b, a) and val(b) is not None:
                    return [("const", val(b))]
                if isinstance(b, ast.Constant) and b.value == 0 and not isinstance(b.value, bool):
                    d = _reduced_operand(deref(a), {"diff", "ediff1d"})
                    if d is not None and val(d) is not None:
                        return [("const", val(d))]
                    if val(a) is not None:
                        return [("zero", val(a))]
                if isinstance(a, ast.Constant) and a.value == 0 and not isinstance(a.value, bool) and val(b) is not None:
                    return [("zero", val(b))]
        return None

    def facts_of(e, pol):
        e = deref(e)
        if isinstance(e, ast.UnaryOp) and isinstance(e.op, ast.Not):
            return facts_of(e.operand, not pol)
        if isinstance(e, ast.BoolOp):
            conj = isinstance(e.op, ast.And) == pol          # and under True / or under False: every part has polarity `pol`
            if conj:
                out, complete = [], True
                for v in e.values:
                    f, c = facts_of(v, pol)
                    out += f
                    complete = complete and c
                return out, complete
            return [], False
        x = _reduced_operand(e, {"all", "alltrue"})
        if x is not None and pol:
            f = all_equal(x, True)
            return (f, True) if f is not None else ([], False)
        x = _reduced_operand(e, {"any", "sometrue"})
        if x is not None and not pol:
            f = all_equal(x, False)
            if f is None and not isinstance(deref(x), ast.Compare) and val(x) is not None:
                f = [("zero", val(x))]            # not any(x): every entry of x is zero
            return (f, True) if f is not None else ([], False)
        if isinstance(e, ast.Compare) and len(e.ops) == 1:
            a, b, op = deref(e.left), deref(e.comparators[0]), e.ops[0]
            one = lambda t: isinstance(t, ast.Constant) and t.value == 1 and not isinstance(t.value, bool)
            zero = lambda t: isinstance(t, ast.Constant) and t.value == 0 and not isinstance(t.value, bool)
            # number of local radii against 1
            if count_of_radii(a) and isinstance(b, ast.Constant) and isinstance(b.value, int) and not isinstance(b.value, bool):
                import operator
                cmp_ = {ast.Eq: operator.eq, ast.NotEq: operator.ne, ast.Lt: operator.lt, ast.LtE: operator.le, ast.Gt: operator.gt,
                        ast.GtE: operator.ge}.get(type(op))
                if cmp_ is None:
                    return [], False
                # the sizes (1, 2, many) for which the guard has the truth value `pol`: only size 1 -> a single radius
                sat = [k_ for k_ in (1, 2, 3, 1000) if cmp_(k_, b.value) == pol]
                return ([("single",)], True) if sat == [1] else ([], True)      # e.g. `size > 1` says nothing about the values
            eq = isinstance(op, ast.Eq) == pol and isinstance(op, (ast.Eq, ast.NotEq))
            if eq:
                x = _reduced_operand(a, {"count_nonzero"}) if zero(b) else (_reduced_operand(b, {"count_nonzero"}) if zero(a) else None)
                if x is not None and val(x) is not None:
                    return [("zero", val(x))], True
                # spread of the values is zero
                x = _reduced_operand(a, {"ptp"}) if zero(b) else (_reduced_operand(b, {"ptp"}) if zero(a) else None)
                if x is not None and val(x) is not None:
                    return [("const", val(x))], True
                xa, xb = _reduced_operand(a, {"max", "amax", "min", "amin"}), _reduced_operand(b, {"max", "amax", "min", "amin"})
                if xa is not None and xb is not None and src(xa) == src(xb) and _call_name(a)[-3:] != _call_name(b)[-3:] and val(xa) is not None:
                    return [("const", val(xa))], True
                # one distinct value
                for u, w in ((a, b), (b, a)):
                    if one(w):
                        inner = None
                        if isinstance(u, ast.Call) and _call_name(u) == "len" and len(u.args) == 1:
                            inner = deref(u.args[0])
                        elif isinstance(u, ast.Attribute) and u.attr == "size":
                            inner = deref(u.value)
                        x = _reduced_operand(inner, {"set", "unique"}) if inner is not None else None
                        if x is not None and val(x) is not None:
                            return [("const", val(x))], True
        return [], False
    return facts_of(test, polarity)


def _uniformity_assumption(test, stmts, n):
    """first fact of the guard (kept for the callers that need one assumption only); None when nothing was understood"""
    facts, complete = _guard_facts(test, stmts, n)
    return facts[0] if facts and complete else None


def unmodelled_rebinding(chk, fn, stmts, n, g, keys):
    """the element-wise model follows straight-line assignments; a conditional or loop that re-binds a quantity the tables are built
    from is either a recognised form (the local radii cut to the first one) or makes the comparison undecided"""
    q = f"{CLS}._getLagrangePts"
    r = g["r"]
    read = set()
    for st in stmts:
        if isinstance(st, ast.Assign):
            read |= {src(x) for x in ast.walk(st.value) if isinstance(x, (ast.Name, ast.Attribute))}
    read |= set(keys)
    for st in stmts:
        if not isinstance(st, (ast.If, ast.For, ast.While, ast.Try)):
            continue
        stored = [x for x in ast.walk(st) if isinstance(x, (ast.Assign, ast.AugAssign))]
        hit = [x for x in stored if src(x.targets[0] if isinstance(x, ast.Assign) else x.target).split("[")[0] in read]
        if not hit:
            continue
        # recognised form: `if <cond>: X = X[:k]` for per-radius arrays X (the local radii or quantities computed from them) - the
        # tables get fewer rows than there are local radii
        def per_radius(name):
            v = n.env.get(name)
            return isinstance(v, sp.Basic) and r in v.free_symbols

        def is_cut(x):
            if not (isinstance(x, ast.Assign) and len(x.targets) == 1 and isinstance(x.targets[0], ast.Name) and per_radius(x.targets[0].id)):
                return False
            v = x.value
            if not (isinstance(v, ast.Subscript) and src(v.value) == x.targets[0].id):
                return False
            sl = v.slice
            return isinstance(sl, ast.Slice) and sl.step is None and (sl.lower is None or src(sl.lower) == "0") and \
                isinstance(sl.upper, ast.Constant) and isinstance(sl.upper.value, int) and sl.upper.value >= 1
        cut = [x for x in hit if isinstance(st, ast.If) and is_cut(x)]
        arm = None
        if cut and len(hit) == len(cut) and isinstance(st, ast.If) and len({src(x.value.slice) for x in cut}) == 1:
            in_body = all(any(x is y for y in ast.walk(ast.Module(body=st.body, type_ignores=[]))) for x in cut)
            in_else = all(any(x is y for y in ast.walk(ast.Module(body=st.orelse, type_ignores=[]))) for x in cut)
            arm = True if in_body else (False if in_else else None)
        if cut and arm is not None:
            facts_, complete = _guard_facts(st.test, stmts, n, arm)
            cond_txt = src(st.test) if arm else f"not ({src(st.test)})"
            tables = {k: n.env.get(k) for k in ("zDist", "self._shifts", "self._thetaShifts", "self._lagrangeCoeffs") if isinstance(n.env.get(k), sp.Basic)}
            dep = {}
            uni = Symbol("uniform_value")
            assumed = []
            for k, v in tables.items():
                for f_ in facts_:
                    if f_[0] in ("const", "zero") and isinstance(f_[1], sp.Basic):
                        v = v.subs(f_[1], uni if f_[0] == "const" else Integer(0))
                if r in v.free_symbols:
                    dep[k] = v
            for f_ in facts_:
                if f_[0] in ("const", "zero"):
                    assumed.append(f"{f_[1]} {'the same on all local surfaces' if f_[0] == 'const' else '= 0 on all local surfaces'}")
            if ("single",) in facts_:
                ok, why = True, f"`{src(cut[0])}` under `{cond_txt}` keeps the only local radius"
            elif not tables:
                ok, why = None, (f"`{src(cut[0])}` under `{cond_txt[:60]}` cuts the local radii the tables are built for; the tables are outside "
                                 "the model: whether the omitted rows would equal the kept one is not decided")
            elif not dep and facts_:
                ok, why = True, (f"`{src(cut[0])}` under `{cond_txt}`: with {' and '.join(assumed)} none of the tables depends on r, one row serves "
                                 "every radius")
            elif not facts_ or not complete:
                ok, why = None, (f"`{src(cut[0])}` under `{cond_txt[:60]}` cuts the local radii the tables are built for; the condition is "
                                 "outside the model: whether the omitted rows would equal the kept one is not decided")
            else:
                k0 = "zDist" if "zDist" in dep else sorted(dep)[0]
                # VIOLATED-soundness: the statement IS the recognised cut `X = X[:k]` of per-radius arrays under the guard, every part of the guard
                # was understood (`complete`), and under the guard's own facts a table formula still depends on r (symbolic)
                ok, why = False, (f"when `{cond_txt}` holds the tables are built for the first local radius only (`{src(cut[0])}`), i.e. every "
                                  f"flux surface is advected with the tables of that radius; but `{k0}` = {dep[k0]} still depends on r when "
                                  f"{' and '.join(assumed)}" + (" (through b_z = 1/sqrt(1 + (r iota/R0)^2))" if k0 in ("zDist", "self._shifts") else "") +
                                  ": all surfaces but the first get the foot of the first one")
            chk.ob("F6-radial-table", st, f"if {src(st.test)[:50]}: {src(cut[0])}", ok, why, file=U.ADV, func=q)
            _store(chk).setdefault("_c10_radial", []).append((st, ok, why))
            continue
        names = sorted({src(x.targets[0] if isinstance(x, ast.Assign) else x.target).split("[")[0] for x in hit})
        chk.ob("F6-lagrange-geometry", st, f"{type(st).__name__.lower()} {src(st).splitlines()[0][:60]}", None,
               f"{names} (used to build the tables) {'is' if len(names) == 1 else 'are'} re-bound inside a {type(st).__name__.lower()} statement: "
               "outside the straight-line element-wise model, the formulas above are those of the unconditional part only", file=U.ADV, func=q)


def _store(chk):
    return getattr(chk, "_real", chk).__dict__


class _OnlyRule:
    """view of a check that records the obligations of one rule only (the element-wise model is shared between properties)"""

    def __init__(self, chk, rule):
        self._real, self._rule = chk, rule

    def __getattr__(self, name):
        return getattr(self._real, name)

    def ob(self, rule, *a, **k):
        if rule == self._rule:
            return self._real.ob(rule, *a, **k)

    def pat(self, rule, node, construct, ok, good, bad=None, **kw):
        if rule == self._rule:
            return self._real.pat(rule, node, construct, ok, good, bad, **kw)


def radial_tables(chk):
    """rule F6-radial-table alone (for C05: the tables of every local radius are those of that radius): [(node, verdict, diagnosis)];
    emitted once per check"""
    st = _store(chk)
    if "_c10_lagrange_done" not in st:
        try:
            lagrange_points(_OnlyRule(chk, "F6-radial-table"))
        except Exception:          # noqa: BLE001 - the model is auxiliary here: C10 reports what it cannot follow, engine C keeps its verdicts
            st["_c10_lagrange_done"] = True
    return st.get("_c10_radial", [])


def lagrange_points(chk):
    _store(chk)["_c10_lagrange_done"] = True
    fn = chk.func(U.ADV, f"{CLS}._getLagrangePts")
    q = f"{CLS}._getLagrangePts"
    g = geometry_env()
    z1 = Symbol("z1", real=True)
    n = NpSym(env={"R0": g["R0"], "dt": g["dt"], "iota": g["iota"], "__asint": _asint}, hooks={})
    from .C05 import library_forms
    stmts = [ast.fix_missing_locations(_AsType().visit(library_forms(copy.deepcopy(st)))) for st in lagrange_statements(chk, fn)]
    # the z grid is uniform: eta_grid[2][k] = z1 + (k-1) dz; the local radii and velocities are symbols (their index spaces are
    # engine C's subject)
    for st in stmts:
        for nd in ast.walk(st):
            if isinstance(nd, ast.Subscript) and src(nd.value) == "eta_grid[2]" and isinstance(nd.slice, ast.Constant) and isinstance(nd.slice.value, int):
                n.hooks[src(nd)] = z1 + (nd.slice.value - 1) * g["dz"]
            if isinstance(nd, ast.Subscript) and src(nd.value) == "eta_grid[3]" and isinstance(nd.slice, ast.Slice):
                n.hooks[src(nd)] = g["v"]
            if isinstance(nd, ast.Subscript) and src(nd.value) == "eta_grid[0]" and isinstance(nd.slice, ast.Slice):
                n.hooks[src(nd)] = g["r"]
    n.hooks.setdefault("eta_grid[0]", g["r"])
    n.hooks.setdefault("eta_grid[3]", g["v"])
    n.hooks["self._zLagrangePts"] = Symbol("nL", integer=True, positive=True)
    alloc = lambda st: isinstance(st, ast.Assign) and isinstance(st.value, ast.Call) and src(st.value.func) in (
        "np.ndarray", "np.empty", "np.zeros") and not isinstance(st.targets[0], ast.Subscript)
    n.run(stmts, skip=lambda st: alloc(st) or (isinstance(st, ast.Assign) and isinstance(st.value, ast.Call) and src(st.value.func) == "len"))
    K = Symbol("K")
    r, dz, R0, dt, v, iota = g["r"], g["dz"], g["R0"], g["dt"], g["v"], g["iota"]
    bz = 1 / sp.sqrt(1 + (r * iota(r) / R0) ** 2)
    zDist = -v * bz * dt
    shifts = sp.floor(zDist / dz) + K
    # every quantity is compared with the formula of the property applied to the code's own upstream quantities, so that a wrong
    # definition is reported where it is made (and not again for everything derived from it); the absolute forms are in `facts`
    # what a shift table MEANS is fixed by its reader: the kernel stores the value for column i, entry j at row i - S_j and evaluates
    # it at theta_k + T_j.  S_j / T_j are the table entries themselves in the reference convention; when the kernel reads the tables
    # with another convention (sign, offset - see F6-table-writer) the effective shifts are compared with the formulas of the property
    # VIOLATED-soundness of the three table rules below (self._shifts, self._thetaShifts, zDiff): the formulas of the property fix
    # what the kernels must DO with a table entry, so a table is compared with them only when the use of the tables by writer and
    # reader together has been followed (meaning_known); otherwise a formula that differs is UNDECIDED
    conv, point_wrapped, meaning_known, meaning_why = None, False, False, "the kernels that use the tables were not followed"
    try:
        cv = shift_convention(chk)
        conv = cv.get("conv")
        meaning_known = cv.get("ok") is True
        meaning_why = cv.get("why") or meaning_why
        point_wrapped = bool(writer_rule(chk).get("point_wrapped"))
    except (AnalysisError, Undecided, KeyError):
        conv = None
    eff = {key: n.env.get(key) for key, *_ in [("bz",), ("dtheta",), ("zDist",), ("self._shifts",), ("self._thetaShifts",), ("zDiff",)]}
    conv_note = ""
    if conv is not None and isinstance(eff.get("self._shifts"), sp.Basic):
        s_eff, t_eff, shj, tsj = conv
        raw_s, raw_t = eff["self._shifts"], eff.get("self._thetaShifts")
        eff["self._shifts"] = sp.simplify(s_eff.subs(shj, raw_s))
        if isinstance(raw_t, sp.Basic):
            eff["self._thetaShifts"] = sp.simplify(t_eff.subs({tsj: raw_t, shj: raw_s}))
        conv_note = (f" [the kernel reads the tables as effective cell shift {s_eff}, effective theta shift {t_eff}; table entries: "
                     f"shifts = {raw_s}, thetaShifts = {raw_t}]")
    up = lambda key, dflt: eff.get(key) if eff.get(key) is not None else dflt
    spec = [
        ("bz", lambda: bz, bz, "b_z = 1/sqrt(1 + (r iota(r)/R0)^2)"),
        ("dtheta", lambda: dz * iota(r) / R0, dz * iota(r) / R0, "theta shift per cell = dz iota(r)/R0"),
        ("zDist", lambda: -v * up("bz", bz) * dt, zDist, "foot displacement = -v b_z(r) dt"),
        ("self._shifts", lambda: sp.floor(up("zDist", zDist) / dz) + K, shifts, "stencil cells = floor(displacement/dz) + stencil offsets"),
        ("self._thetaShifts", lambda: up("dtheta", dz * iota(r) / R0) * up("self._shifts", shifts), dz * iota(r) / R0 * shifts,
         "theta shifts = (dz iota/R0) x cell shifts (field-line pitch)"),
        ("zDiff", lambda: up("zDist", zDist) - dz * up("self._shifts", shifts), zDist - dz * shifts,
         "distance foot - stencil node = displacement - dz x shift (reference z cancels)"),
    ]
    results = ("self._shifts", "self._thetaShifts", "zDiff")
    got_of = {key: eff.get(key) for key, *_ in spec}
    abs_ok = {key: (alg_equal(got_of[key], abs_want) if got_of[key] is not None else None) for key, _, abs_want, _ in spec}
    all_results_ok = all(abs_ok[k] for k in results)
    flagged = set()
    n_arange = [c_ for st_ in stmts for c_ in ast.walk(st_) if isinstance(c_, ast.Call) and src(c_.func) in ("np.arange", "numpy.arange", "arange")]
    if len(n_arange) > 1:
        # several ranges share the engine's one symbol K: formulas containing K are not reliable
        meaning_known, meaning_why = False, f"{len(n_arange)} np.arange calls in the method are not distinguished by the element-wise model"
    for key, rel_want, abs_want, what in spec:
        got = got_of[key]
        note = conv_note if key in ("self._shifts", "self._thetaShifts", "zDiff") else ""
        if got is None:
            # an intermediate local that no longer exists is not needed when the stored tables agree with the absolute formulas
            ok_missing = True if key not in results and all_results_ok else None
            chk.ob("F6-lagrange-geometry", fn, key, ok_missing,
                   f"no local `{key}`; the stored tables agree with the formulas of the property" if ok_missing else
                   f"`{key}` not extractable: {n.env.get('<undecided>' + key, 'not assigned')}", file=U.ADV, func=q)
            continue
        want = rel_want()
        ok_rel = alg_equal(got, want)
        unwrapped = got.replace(lambda x: x.func == Wrap, lambda x: x.args[0]) if key == "self._thetaShifts" and got.has(Wrap) else None
        if abs_ok[key]:
            ok, why = True, what + note
        elif unwrapped is not None and point_wrapped and alg_equal(unwrapped, want):
            ok, why = True, (what + " - stored reduced modulo 2 pi; the kernel reduces theta_k + shift modulo 2 pi again, and "
                             "(a + (b mod 2 pi)) mod 2 pi = (a + b) mod 2 pi" + note)
        elif key not in results and all_results_ok:
            ok, why = True, f"local `{key}` = {got} has another meaning than in the reference code; the stored tables agree with the formulas of the property"
        elif ok_rel and flagged:
            ok, why = True, f"{what} - consistent with the code's own {sorted(flagged)} (reported there)"
        else:
            ok = False
            flagged.add(key)
            why = f"`{key}` is {got}, expected {want if not ok_rel else abs_want} ({what})" + note
            if got.has(TRUNC):
                why += ": the conversion to int truncates towards zero, so for negative displacements the stencil is one cell off the floor"
            if key in results and not meaning_known:
                ok = None
                why += f" - not decided: how the kernels use the table entries is not established ({meaning_why[:200]})"
            elif key not in results and any(got_of[k_] is None for k_ in results):
                # an intermediate local is identified by its NAME: a different formula under that name is a defect only when the stored
                # tables (whose meaning is fixed by the kernels) were all extracted, so that the difference is seen to reach them
                ok = None
                why += " - not decided: the stored tables that depend on it were not all extracted, a local of this name may have another meaning"
        chk.ob("F6-lagrange-geometry", fn, f"{key} = ...", ok, why, file=U.ADV, func=q,
               facts={"code": str(got), "spec": str(want), "absolute_spec": str(abs_want), "matches_absolute": bool(abs_ok[key])})
    unmodelled_rebinding(chk, fn, stmts, n, g, [key for key, *_ in spec] + ["self._lagrangeCoeffs"])
    # stencil offsets centred on the foot: K in [floor(-n/2)+1, floor(n/2)+1)
    # the engine writes every np.arange(...) as the one symbol K: read as "the stencil offsets" only when there is exactly one such call
    n_ar = [c_ for st_ in stmts for c_ in ast.walk(st_) if isinstance(c_, ast.Call) and src(c_.func) in ("np.arange", "numpy.arange", "arange")]
    ar = n.aranges.get("K") if len(n_ar) == 1 and not n_ar[0].keywords else None
    okc, whyc = None, "stencil offsets np.arange(lo, hi) not extractable"
    if ar and len(ar) == 2:
        nL = n.hooks["self._zLagrangePts"]
        p_ = Symbol("p", integer=True, positive=True)
        try:
            lo, hi = n.ev(ar[0]), n.ev(ar[1])
            res = []
            for nv in (2 * p_, 2 * p_ + 1):
                dl = sp.simplify((lo - (sp.floor(-nL / 2) + 1)).subs(nL, nv))
                dh = sp.simplify((hi - (sp.floor(nL / 2) + 1)).subs(nL, nv))
                res.append((dl, dh))
            if all(dl == 0 and dh == 0 for dl, dh in res):
                okc = True
            elif all(dl.is_number and dh.is_number for dl, dh in res) and (conv is not None or not meaning_known):
                # the offsets are part of the stored shifts: under a convention of the tables other than the reference one (or when the
                # kernels were not followed) a shifted range of offsets is not by itself off-centre (the effective shifts are compared
                # by F6-lagrange-geometry)
                whyc = (f"the stencil offsets run from {lo} to {hi}: not comparable with floor(-n/2)+1 .. floor(n/2) because the kernels read the "
                        "shift tables with another convention / were not followed")
            elif all(dl.is_number and dh.is_number for dl, dh in res):
                okc = False
                dl, dh = next((a, b) for a, b in res if a != 0 or b != 0)
                whyc = (f"the stencil offsets run from {lo} to {hi} (exclusive): shifted by {dl} / {dh} cells against floor(-n/2)+1 .. floor(n/2): "
                        "the foot no longer lies in the central cell of the stencil, the interpolation becomes one-sided")
            else:
                whyc = f"stencil offsets [{lo}, {hi}) not comparable with floor(-n/2)+1 .. floor(n/2)"
        except Undecided as e:
            whyc = f"stencil offsets: {e}"
    chk.ob("F6-stencil-centring", fn, "np.arange(-n//2+1, n//2+1)", okc,
           "the n stencil cells are floor(foot)-n/2+1 .. floor(foot)+n/2: the foot lies in the central cell" if okc else whyc,
           file=U.ADV, func=q)
    # first barycentric form with exact on-node special case
    coeffs = n.env.get("self._lagrangeCoeffs")
    zPts, zPos, zDiff = n.env.get("zPts"), n.env.get("zPos"), n.env.get("zDiff")
    omega, lambdas = n.env.get("omega"), n.env.get("lambdas")
    ok = None
    why = "barycentric construction not extractable"
    if all(x is not None for x in (coeffs, zPts, zPos, zDiff, omega, lambdas)):
        want = ITE(sp.Eq(zPts, zPos), Integer(1), omega * lambdas / zDiff)
        shape_ok = isinstance(omega, sp.Basic) and omega.func == PROD and alg_equal(omega.args[0], zDiff) and str(omega.args[1]) == "axis2"
        # lambdas = 1/PROD(zPts_j - zPts_k + eye): in the element-wise model the pairwise difference vanishes, leaving PROD(DELTA)
        lam_ok = alg_equal(lambdas, 1 / PROD(DELTA, Symbol("axis3")))
        cond_exact = isinstance(coeffs, ITE) and isinstance(coeffs.args[0], sp.Eq)
        ok = bool(shape_ok and lam_ok and cond_exact and sym_equal(coeffs, want)[0])
        why = ("weights = omega lambda_j / (foot - node_j) with omega = prod_j (foot - node_j), lambda_j = 1/prod_{k!=j}(node_j - node_k), "
               "and exactly 1 on a node hit by the foot" if ok else
               f"weights are {coeffs}; omega ok={shape_ok}, lambda ok={lam_ok}, exact on-node test ok={cond_exact}")
    elif all(x is not None for x in (coeffs, zDiff, lambdas)) and omega is None and isinstance(coeffs, ITE) \
            and alg_equal(coeffs.args[2] * zDiff, lambdas):
        # VIOLATED-soundness: recognised wrong form, extracted symbolically: the STORED weights equal ITE(on node, 1, lambda_j/(foot - node_j))
        # exactly - whether or not a later stage renormalises, the on-node weight 1 then comes with non-zero weights on the other nodes
        ok = False
        why = ("the weights are lambda_j / (foot - node_j) without the factor omega = prod_j (foot - node_j): they are not the Lagrange weights "
               "(they do not sum to 1 unless renormalised later), and when the foot hits a node the bare 1 written there no longer comes with "
               "zero weights on the other nodes (these used to vanish through omega = 0)")
    # the on-node test must be exact equality (a tolerance snaps near-node feet while the other weights stay non-zero)
    wh = [c for st in stmts for c in ast.walk(st) if isinstance(c, ast.Call) and src(c.func) == "np.where"]
    if wh and ok is None and len(wh[0].args) == 3 and isinstance(wh[0].args[1], ast.Constant) and wh[0].args[1].value == 1:
        cnd = wh[0].args[0]
        env = {st.targets[0].id: st.value for st in stmts if isinstance(st, ast.Assign) and isinstance(st.targets[0], ast.Name)}
        cexp = env.get(cnd.id) if isinstance(cnd, ast.Name) else cnd
        if (isinstance(cexp, ast.Call) and src(cexp.func).split(".")[-1] in ("isclose", "allclose", "less", "less_equal")) or \
                (isinstance(cexp, ast.Compare) and not isinstance(cexp.ops[0], (ast.Eq, ast.NotEq))):
            ok = False
            why = f"the on-node special case is selected by `{src(cexp)}`, not by exact equality: a foot merely near a node gets weight 1 " \
                  "while the other weights stay non-zero (weights no longer sum to 1)"
    chk.ob("F6-barycentric-weights", fn, "self._lagrangeCoeffs = np.where(zPts == zPos, 1, omega*lambdas/zDiff)", ok, why,
           file=U.ADV, func=q)
    return n


def sibling_geometry(chk):
    """b_z and the field-line pitch agree between FluxSurfaceAdvection, ParallelGradient and fieldline()"""
    g = geometry_env()
    r, dz, R0, iota = g["r"], g["dz"], g["R0"], g["iota"]
    pg = chk.func(U.ADV, "ParallelGradient.__init__")
    stmts = propagate_int_constants([st for st in pg.body if isinstance(st, (ast.Assign, ast.With))])
    n = NpSym(env={"iota": iota}, hooks={"constants.R0": R0})
    for st in stmts:
        for nd in ast.walk(st):
            if isinstance(nd, ast.Subscript) and src(nd.value) == "eta_grid[0]" and isinstance(nd.slice, ast.Slice):
                n.hooks[src(nd)] = r
    # the radii the tables are built for (the local block or all of them: which, and how the tables are indexed, is engine C's subject)
    n.hooks.setdefault("eta_grid[0]", r)
    # `constants.iota(x)` is the rotational transform at x
    n.env["constants.iota"] = iota
    bzs = [st for st in stmts if isinstance(st, ast.Assign) and src(st.targets[0]) == "self._bz"]
    n.run([st for st in stmts if not (isinstance(st, ast.Assign) and isinstance(st.value, ast.Call) and
                                      src(st.value.func).split(".")[-1] in ("empty", "zeros", "ndarray", "SplineInterpolator1D", "Spline1D"))])
    ok = None
    got = n.env.get("self._bz")
    _store(chk)["_c10_bz_ratio"] = Integer(1) if got is not None else None
    why = f"b_z not extractable: {n.env.get('<undecided>self._bz', 'self._bz is not assigned at the top level of the constructor')}"
    if got is not None:
        want = 1 / sp.sqrt(1 + (r * iota(r) / R0) ** 2)
        ok = alg_equal(got, want)
        why = "b_z(r) has the same normal form as in the flux-surface advection" if ok else \
            f"b_z is {got}, the flux-surface advection (and the property) use {want}: the two operators disagree about the field direction"
        if not ok:
            # what the attribute holds is a contract with the method that multiplies by it: a factor that does not depend on the radius
            # (1/dz folded into the table, a sign) is a scaling convention, judged end to end by F7-scaling of C13; VIOLATED here needs a
            # different dependence on r
            try:
                ratio = sp.simplify(got / want)
                if not ratio.has(r) and not ratio.has(iota):
                    ok = None
                    why = (f"self._bz holds b_z(r) times the radius-independent factor {ratio}: a scaling convention between the constructor and "
                           "parallel_gradient, decided end to end by the scaling rule of C13 (F7-scaling), not here")
                    _store(chk)["_c10_bz_ratio"] = ratio
            except Exception:          # noqa: BLE001
                ok = None
    chk.ob("F6-sibling-geometry", bzs[0] if bzs else pg, "ParallelGradient._bz", ok, why, file=U.ADV, func="ParallelGradient.__init__")
    fl = chk.func(U.ADV, "fieldline")
    params = [a.arg for a in fl.args.args]
    th, zd = sp.symbols("theta z_diff", real=True)
    ok2, why2 = None, "fieldline(theta, z_diff, iota, r, R0): signature or body outside the extractable fragment"
    moved = ""
    if params == ["theta", "z_diff", "iota", "r", "R0"]:
        n2 = NpSym(env={"theta": th, "z_diff": zd, "r": r, "R0": R0, "iota": iota, "fmod": FMOD, "trunc": TRUNC, "fix": TRUNC,
                        "remainder": lambda a, b: Wrap(a) if sp.simplify(b - 2 * PI) == 0 else Function("mod")(a, b)})
        body = [s_ for s_ in fl.body if not (isinstance(s_, ast.Expr) and isinstance(s_.value, ast.Constant))]
        ret = body[-1] if body and isinstance(body[-1], ast.Return) and body[-1].value is not None else None
        if ret is not None and all(isinstance(s_, (ast.Assign, ast.With)) for s_ in body[:-1]):
            n2.run(body[:-1])
            try:
                got2 = floor_mod_normal(n2.ev(ret.value))
                line = th + iota(r) * zd / R0
                if alg_equal(got2, Wrap(line)):
                    ok2 = True
                else:
                    ok2 = False
                    why2 = f"field line is {got2}, expected (theta + iota(r) z_diff / R0) mod 2 pi"
                    if not got2.has(Wrap) and got2.has(ITE) and alg_equal(_first_branch(got2), line):
                        why2 = ("the angle theta + iota(r) z_diff/R0 is brought back to [0, 2 pi) by adding or subtracting at most one period, "
                                "not by a modulo: when the field line winds a full poloidal turn or more over the stencil "
                                "(|iota dz k/R0| >= 2 pi) the result stays outside the domain of the periodic theta-spline, which is then "
                                "evaluated out of range")
                    elif got2.func == FMOD and alg_equal(got2.args[0], line) and sp.simplify(got2.args[1] - 2 * PI) == 0:
                        why2 = ("the angle theta + iota(r) z_diff/R0 is reduced with fmod, the remainder that keeps the sign of the dividend: a "
                                "negative angle (backward stencil points of the first theta nodes when iota > 0, forward ones when iota < 0) "
                                "stays in (-2 pi, 0) instead of being mapped to [0, 2 pi), so the periodic theta-spline, which does not wrap its "
                                "argument, is evaluated outside its domain")
                    elif got2.has(TRUNC) and alg_equal(got2.subs(TRUNC(line / (2 * PI)), sp.floor(line / (2 * PI))), line - 2 * PI * sp.floor(line / (2 * PI))):
                        why2 = ("the angle is reduced by subtracting 2 pi x the quotient TRUNCATED towards zero: negative angles stay negative "
                                "instead of being mapped to [0, 2 pi); the periodic theta-spline is evaluated outside its domain")
                    elif not got2.has(Wrap) and not got2.has(ITE) and alg_equal(got2, line):
                        why2 = ("the angle theta + iota(r) z_diff/R0 is not reduced modulo 2 pi: the theta-spline is evaluated outside its "
                                "periodic domain")
                        # caller and helper are one unit: the reduction may have moved to the callers
                        wrapped_by = _callers_reduce_mod_2pi(chk, "fieldline")
                        if wrapped_by:
                            ok2 = True
                            why2 = None
                            moved = f"; the reduction modulo 2 pi is applied by the caller(s) `{wrapped_by}`"
                        else:
                            later = _reduced_where_read(chk)
                            if later:
                                ok2 = None
                                why2 = (f"fieldline no longer reduces the angle modulo 2 pi; a reduction modulo 2 pi is applied where the angles "
                                        f"are used (`{later[:70]}`): whether every use is covered is not decided")
            except Undecided as e:
                why2 = f"field line not extractable: {e}"
    chk.ob("F6-sibling-geometry", fl, "fieldline(theta, z_diff, iota, r, R0)", ok2,
           "field line: theta + iota(r) z_diff / R0 (mod 2 pi) - the same pitch iota/R0 as the flux-surface theta shifts" + moved
           if ok2 else why2, file=U.ADV, func="fieldline")


def _reduced_where_read(chk):
    """a `... % (2 pi)` / np.mod(..., 2 pi) over the stored field-line angles in a method of ParallelGradient ('' when there is none)"""
    mod = chk.mod(U.ADV)
    try:
        cls = mod.cls("ParallelGradient")
    except AnalysisError:
        return ""
    for n in ast.walk(cls):
        arg = n.left if isinstance(n, ast.BinOp) and isinstance(n.op, ast.Mod) else \
            (n.args[0] if isinstance(n, ast.Call) and src(n.func) in ("np.mod", "np.remainder") and len(n.args) == 2 else None)
        if arg is not None and any(isinstance(x, (ast.Name, ast.Attribute)) and src(x).split(".")[-1].lstrip("_") == "thetaVals" for x in ast.walk(arg)):
            if "pi" in src(n):
                return src(n)
    return ""


def _callers_reduce_mod_2pi(chk, fname):
    """source text of the calls of module function `fname` when EVERY one of them is directly reduced modulo 2 pi by its caller
    (`f(...) % (2*pi)`, np.mod(f(...), 2*pi), np.remainder), else ''"""
    mod = chk.mod(U.ADV)
    calls = [c for c in ast.walk(mod.tree) if isinstance(c, ast.Call) and isinstance(c.func, ast.Name) and c.func.id == fname]
    if not calls:
        return ""

    def two_pi(e):
        try:
            return sp.simplify(NpSym().ev(e) - 2 * PI) == 0
        except Undecided:
            return False
    out = []
    for c in calls:
        p_ = parent(c)
        if isinstance(p_, ast.BinOp) and isinstance(p_.op, ast.Mod) and p_.left is c and two_pi(p_.right):
            out.append(src(p_))
        elif isinstance(p_, ast.Call) and src(p_.func) in ("np.mod", "np.remainder", "numpy.mod") and len(p_.args) == 2 and p_.args[0] is c and two_pi(p_.args[1]):
            out.append(src(p_))
        else:
            return ""
    return "; ".join(x[:60] for x in out)


FMOD = Function("fmod")


def floor_mod_normal(e):
    """x - 2 pi floor(x / (2 pi)) is x mod 2 pi"""
    if not isinstance(e, sp.Basic) or not e.has(sp.floor):
        return e
    for fl in e.atoms(sp.floor):
        x = sp.simplify(fl.args[0] * 2 * PI)
        if sp.simplify(e - (x - 2 * PI * fl)) == 0:
            return Wrap(x)
    return e


def _first_branch(e):
    """the unshifted alternative of nested conditionals ITE(c, x + 2 pi, x) / ITE(c, x - 2 pi, x)"""
    while isinstance(e, ITE):
        e = e.args[2]
    return e


def _writer_diagnosis(vals, keys, want_key, want_val, congruent):
    """what differs between the extracted table writer and the specification"""
    if len(keys) != 1:
        return f"writer stores {len(keys)} families of cells: {dict(vals.cells)}"
    key, val = keys[0], vals.cells[keys[0]]
    out = []
    if not congruent(key[0], want_key[0]):
        out.append(f"the value of source row i and stencil entry j goes to row {key[0]}, expected (i - shift_j) mod nz")
    if not all(alg_equal(a, b) for a, b in zip(key[1:], want_key[1:])):
        out.append(f"cell ({key[1]}, {key[2]}) is written for theta node k and stencil entry j")
    if not alg_equal(val, want_val):
        pt = val.args[0] if isinstance(val, sp.Basic) and val.func == S1 and val.args else None
        wpt = want_val.args[0].args[0]
        if pt is not None and not pt.has(Wrap) and pt.has(ITE) and alg_equal(_first_branch(pt), wpt):
            out.append("the evaluation point theta_k + thetaShifts[j] is brought back to [0, 2 pi) by adding or subtracting at most one "
                       "period, not by a modulo: thetaShifts = (iota dz/R0) x shift is unbounded, so when the field line winds a full "
                       "poloidal turn or more the theta-spline is evaluated outside its periodic domain")
        elif pt is not None and pt.func == FMOD and alg_equal(pt.args[0], wpt) and sp.simplify(pt.args[1] - 2 * PI) == 0:
            out.append("the evaluation point theta_k + thetaShifts[j] is reduced with fmod, the remainder that keeps the sign of the dividend: "
                       "negative angles stay in (-2 pi, 0) instead of being mapped to [0, 2 pi), the periodic theta-spline is evaluated outside "
                       "its domain")
        elif pt is not None and not pt.has(Wrap) and alg_equal(pt, wpt):
            out.append("the evaluation point theta_k + thetaShifts[j] is not reduced modulo 2 pi")
        else:
            out.append(f"the stored value is {val}, expected {want_val}")
    return "; ".join(out) or f"writer stores {dict(vals.cells)}"


def devectorise(fn):
    """private copy of a kernel in which whole-array statements over slices (`A[:n, :m] op= expr` with operands `B[:m, :n, k].T`,
    scalars, arithmetic) are written as the element loops they abbreviate; statements outside this fragment are left as they are"""
    from ..core import clone
    count = [0]

    def items_of(sub):
        return list(sub.slice.elts) if isinstance(sub.slice, ast.Tuple) else [sub.slice]

    def elem(e, tv):
        """element of operand `e` at the target's loop variables tv = [(var, lower or None)] (numpy right alignment)"""
        if isinstance(e, ast.Constant):
            return e
        if isinstance(e, ast.Name):
            return e if e.id in scalars else None
        if isinstance(e, ast.BinOp):
            a, b = elem(e.left, tv), elem(e.right, tv)
            return None if a is None or b is None else ast.BinOp(left=a, op=e.op, right=b)
        if isinstance(e, ast.UnaryOp):
            a = elem(e.operand, tv)
            return None if a is None else ast.UnaryOp(op=e.op, operand=a)
        if isinstance(e, ast.Attribute) and e.attr == "T":
            return elem(e.value, list(reversed(tv)))
        if isinstance(e, ast.Call) and isinstance(e.func, ast.Name) and e.func.id == "len" and len(e.args) == 1:
            return e
        if isinstance(e, ast.Subscript) and isinstance(e.value, ast.Name):
            its = items_of(e)
            free = [k for k, it in enumerate(its) if isinstance(it, ast.Slice)]
            if not free:
                return e
            if len(free) > len(tv) or any(its[k].step is not None for k in free):
                return None
            use = tv[len(tv) - len(free):]
            new = list(its)
            for k, (v, tlo) in zip(free, use):
                olo = its[k].lower
                idx = ast.Name(id=v, ctx=ast.Load())
                if (olo is None) != (tlo is None) or (olo is not None and src(olo) != src(tlo)):
                    off = idx if tlo is None else ast.BinOp(left=idx, op=ast.Sub(), right=tlo)
                    idx = off if olo is None else ast.BinOp(left=olo, op=ast.Add(), right=off)
                new[k] = idx
            return ast.Subscript(value=e.value, slice=ast.Tuple(elts=new, ctx=ast.Load()) if len(new) > 1 else new[0], ctx=ast.Load())
        return None

    def lower(st):
        tg = st.targets[0] if isinstance(st, ast.Assign) and len(st.targets) == 1 else st.target if isinstance(st, ast.AugAssign) else None
        if not (isinstance(tg, ast.Subscript) and isinstance(tg.value, ast.Name)):
            return None
        its = items_of(tg)
        free = [k for k, it in enumerate(its) if isinstance(it, ast.Slice)]
        if not free or any(its[k].step is not None for k in free):
            return None
        if any(isinstance(n, ast.Name) and n.id == tg.value.id for n in ast.walk(st.value)):
            return None          # the right-hand side reads the array being written: not element-wise in general
        tv, loops, new = [], [], list(its)
        for k in free:
            count[0] += 1
            v = f"_e{count[0]}"
            lo, hi = its[k].lower, its[k].upper
            if hi is None:
                hi = ast.Subscript(value=ast.Attribute(value=tg.value, attr="shape", ctx=ast.Load()), slice=ast.Constant(value=k), ctx=ast.Load())
            loops.append((v, lo, hi))
            tv.append((v, lo))
            new[k] = ast.Name(id=v, ctx=ast.Load())
        val = elem(st.value, tv)
        if val is None:
            return None
        tgt = ast.Subscript(value=tg.value, slice=ast.Tuple(elts=new, ctx=ast.Load()) if len(new) > 1 else new[0], ctx=ast.Store())
        body = ast.Assign(targets=[tgt], value=val) if isinstance(st, ast.Assign) else ast.AugAssign(target=tgt, op=st.op, value=val)
        for v, lo, hi in reversed(loops):
            rng = ast.Call(func=ast.Name(id="range", ctx=ast.Load()), args=([lo] if lo is not None else []) + [hi], keywords=[])
            body = ast.For(target=ast.Name(id=v, ctx=ast.Store()), iter=rng, body=[body], orelse=[])
        return body

    def is_vec(st):
        tg = st.targets[0] if isinstance(st, ast.Assign) and len(st.targets) == 1 else st.target if isinstance(st, ast.AugAssign) else None
        return isinstance(tg, ast.Subscript) and any(isinstance(it, ast.Slice) for it in items_of(tg))
    if not any(is_vec(n) for n in ast.walk(fn) if isinstance(n, (ast.Assign, ast.AugAssign))):
        return fn
    new = clone(fn)
    scalars = {a.arg for a in new.args.args if a.annotation is None or "[" not in src(a.annotation)}
    for n in ast.walk(new):
        if isinstance(n, ast.For) and isinstance(n.target, ast.Name):
            scalars.add(n.target.id)
    for blk_owner in list(ast.walk(new)):
        for fld in ("body", "orelse"):
            blk = getattr(blk_owner, fld, None)
            if isinstance(blk, list):
                for k, st in enumerate(blk):
                    if isinstance(st, (ast.Assign, ast.AugAssign)) and is_vec(st):
                        lw = lower(st)
                        if lw is not None:
                            blk[k] = ast.fix_missing_locations(ast.copy_location(lw, st))
    for n in ast.walk(new):
        for ch in ast.iter_child_nodes(n):
            if not hasattr(ch, "lineno") and isinstance(ch, (ast.expr, ast.stmt)):
                ast.copy_location(ch, n)
    ast.fix_missing_locations(new)
    return new


def _vector_into_view(ex, call):
    """eval_spline_1d_vector(x, kts, deg, coeffs, y, der) with y a one-axis view `A[.., :, ..]`: the value for the k-th point goes to the
    cell of the view's k-th element (other forms: the engine's whole-array handler)"""
    from ..kernels import VECTOR1_FORMALS, sym_of
    from ..symx import Arr, _elem
    nodes = dict(zip(VECTOR1_FORMALS, call.args))
    nodes.update({k.arg: k.value for k in call.keywords})
    y = nodes.get("y")
    if isinstance(y, ast.Subscript) and isinstance(y.value, ast.Name) and isinstance(ex.env.get(y.value.id), Arr) \
            and all(k in nodes for k in ("x", "knots", "degree", "coeffs")):
        items = list(y.slice.elts) if isinstance(y.slice, ast.Tuple) else [y.slice]
        sl = [k for k, it in enumerate(items) if isinstance(it, ast.Slice)]
        if len(sl) == 1 and items[sl[0]].step is None and items[sl[0]].lower is None:
            base = ex.env[y.value.id]
            x = ex.ev(nodes["x"])
            der = ex.ev(nodes["der"]) if "der" in nodes else Integer(0)
            fam = tuple(sym_of(ex.ev(nodes[k])) for k in ("knots", "degree", "coeffs"))
            nm = "k"
            while nm in ex.env:
                nm += "_"
            kv = Symbol(nm, integer=True)
            idx = [kv if k == sl[0] else ex.ev(it) for k, it in enumerate(items)]
            base.write(idx, S1(_elem(x, (kv,)), der, *fam))
            ex.all_loop_syms = getattr(ex, "all_loop_syms", set()) | {kv}
            return sp.S.NaN
    return h_vector1(ex, call)


def _h_mod(ex, call):
    """np.mod(a, b) / mod(a, b): the `%` of its arguments (element-wise on arrays)"""
    from ..symx import Arr, Vec, _elem
    if len(call.args) != 2 or call.keywords:
        raise Undecided("mod arguments")
    a, b = ex.ev(call.args[0]), ex.ev(call.args[1])
    if isinstance(a, (Arr, Vec)) or isinstance(b, (Arr, Vec)):
        return Vec(lambda ix, a=a, b=b: ex.binop(ast.Mod(), _elem(a, ix), _elem(b, ix), call))
    return ex.binop(ast.Mod(), a, b, call)


def _h_fmod(ex, call):
    """np.fmod(a, b) / math.fmod(a, b): the remainder with the sign of the dividend (NOT the `%` of Python)"""
    from ..symx import Arr, Vec, _elem
    if len(call.args) != 2 or call.keywords:
        raise Undecided("fmod arguments")
    a, b = ex.ev(call.args[0]), ex.ev(call.args[1])
    if isinstance(a, (Arr, Vec)) or isinstance(b, (Arr, Vec)):
        return Vec(lambda ix, a=a, b=b: FMOD(_elem(a, ix), _elem(b, ix)))
    return FMOD(a, b)


def _sums_from_zero(e):
    """every Sum over k = a .. hi with a small literal a > 0 written as the Sum from 0 minus its first a terms (one canonical lower limit,
    so that `s = c0 v0; for k in 1..` and `s = 0; for k in 0..` have the same normal form)"""
    if not isinstance(e, sp.Basic) or not e.has(sp.Sum):
        return e

    def fix(s_):
        if len(s_.limits) == 1:
            k, lo, hi = s_.limits[0]
            if lo.is_Integer and 0 < int(lo) <= 4:
                return sp.Sum(s_.function, (k, 0, hi)) - sum(s_.function.subs(k, t) for t in range(int(lo)))
        return s_
    return e.replace(lambda x: isinstance(x, sp.Sum), fix)


# ------------------------------------------------------------------ caller + callee as one unit
def single_defs(fn):
    """locals of a method that are bound exactly once by a plain assignment (not loop targets, not parameters)"""
    stores = {}
    for x in ast.walk(fn):
        if isinstance(x, ast.Name) and isinstance(x.ctx, ast.Store):
            stores[x.id] = stores.get(x.id, 0) + 1
    params = {a.arg for a in fn.args.args}
    return {st.targets[0].id: st.value for st in ast.walk(fn) if isinstance(st, ast.Assign) and len(st.targets) == 1
            and isinstance(st.targets[0], ast.Name) and stores.get(st.targets[0].id) == 1 and st.targets[0].id not in params}


def resolved(e, defs, depth=0):
    """copy of an expression in which single-assignment locals stand for their defining expressions"""
    class R(ast.NodeTransformer):
        def visit_Name(self, node):
            if isinstance(node.ctx, ast.Load) and node.id in defs and depth < 6:
                return resolved(defs[node.id], defs, depth + 1)
            return node
    return R().visit(copy.deepcopy(e))


def table_alloc(chk):
    """{'pos': {'z': k, 'theta': k, 'stencil': k}, 'node', 'p_ok', 'n_ok', 'pts', 'npt'} read off the constructor: which axis of
    self._LagrangeVals has which extent (cached)"""
    from ..core import same_expr
    cache = chk.__dict__.setdefault("_c10_alloc", {})
    if cache:
        return cache
    init = chk.func(U.ADV, f"{CLS}.__init__")
    vals = {}
    for st in init.body:
        if isinstance(st, ast.Assign) and len(st.targets) == 1 and src(st.targets[0]) in ("self._points", "self._nPoints", "self._LagrangeVals"):
            vals.setdefault(src(st.targets[0]), []).append(st)
    cache.update({"init": init, "vals": vals, "pos": None})
    if all(len(vals.get(k, [])) == 1 for k in ("self._points", "self._nPoints", "self._LagrangeVals")):
        pts, npt, tab = (vals[k][0].value for k in ("self._points", "self._nPoints", "self._LagrangeVals"))
        cache["pts"], cache["npt"] = pts, npt
        cache["p_ok"] = same_expr(pts, "eta_grid[1:3]") or same_expr(pts, "(eta_grid[1], eta_grid[2])") or same_expr(pts, "[eta_grid[1], eta_grid[2]]")
        cache["n_ok"] = same_expr(npt, "(self._points[0].size, self._points[1].size)") or same_expr(npt, "(len(self._points[0]), len(self._points[1]))")
        shape = tab.args[0] if isinstance(tab, ast.Call) and src(tab.func) in ("np.ndarray", "np.empty", "np.zeros") and tab.args else None
        if isinstance(shape, (ast.List, ast.Tuple)) and len(shape.elts) == 3:
            pos = {}
            for k_, x in enumerate(shape.elts):
                for role, forms in (("z", ("self._nPoints[1]", "self._points[1].size", "len(self._points[1])")),
                                    ("theta", ("self._nPoints[0]", "self._points[0].size", "len(self._points[0])")),
                                    ("stencil", ("self._zLagrangePts", "zDegree + 1"))):
                    if any(same_expr(x, f_) for f_ in forms):
                        pos.setdefault(role, []).append(k_)
            if all(len(pos.get(r_, [])) == 1 for r_ in ("z", "theta", "stencil")):
                cache["pos"] = {r_: pos[r_][0] for r_ in pos}
                cache["node"] = vals["self._LagrangeVals"][0]
    return cache


CANON_ARRAYS = {"self._LagrangeVals": "vals", "self._thetaSpline.basis.knots": "kts", "self._thetaSpline.coeffs": "coeffs"}
CANON_SCALARS = {"self._thetaSpline.basis.degree": "deg", "self._thetaSpline.basis.cubic_uniform": "cubic_uniform_splines"}
CANON_ROWS = {"self._shifts": "shifts", "self._thetaShifts": "thetaShifts", "self._lagrangeCoeffs": "lagrangeCoeffs"}


def step_call_model(chk):
    """the call of get_lagrange_vals in FluxSurfaceAdvection.step seen together with what step computes for it: single-assignment
    locals are written out, the per-(r, v) rows of the tables, the theta nodes, the value table, the spline data, the counter of
    the loop over the z columns and the numbers of points become the canonical quantities the kernel specification is written in.
    -> {'call', 'call_resolved', 'loop', 'bind' (wrapper formal -> resolved actual), 'values' (wrapper formal -> symbolic value),
        'why' (formal -> reason its value was not followed)} or None"""
    from ..symx import Arr, Vec
    cache = chk.__dict__.setdefault("_c10_call", {})
    if "model" in cache:
        return cache["model"]
    cache["model"] = None
    fn = chk.func(U.ADV, f"{CLS}.step")
    kmod = chk.mod(U.ADVK)
    calls = [c for c in ast.walk(fn) if isinstance(c, ast.Call) and isinstance(c.func, ast.Name) and c.func.id == "get_lagrange_vals"]
    if len(calls) != 1:
        return None
    c1 = calls[0]
    defs = single_defs(fn)
    c1r = ast.Call(func=c1.func, args=[resolved(a, defs) for a in c1.args],
                   keywords=[ast.keyword(arg=k.arg, value=resolved(k.value, defs)) for k in c1.keywords])
    ast.copy_location(c1r, c1)
    for a0, a1 in zip(list(c1.args) + [k.value for k in c1.keywords], list(c1r.args) + [k.value for k in c1r.keywords]):
        for x in ast.walk(a1):
            ast.copy_location(x, a0)
    ast.fix_missing_locations(c1r)
    wformals = [a.arg for a in kmod.func("get_lagrange_vals").args.args]
    b = agree.bind_call(c1r, wformals) or {}
    lp = None
    p_ = parent(c1)
    while p_ is not None and p_ is not fn:
        if isinstance(p_, ast.For) and isinstance(p_.target, ast.Name):
            lp = p_
        p_ = parent(p_)
    al = table_alloc(chk)
    pos = al.get("pos")
    sizes = {}
    if pos:
        sizes = {0: Symbol(f"n{pos['theta']}_vals", integer=True, positive=True), 1: Symbol(f"n{pos['z']}_vals", integer=True, positive=True)}
    iv = lp.target.id if lp is not None else None

    class Canon(ast.NodeTransformer):
        def visit_Subscript(self, node):
            s_ = src(node.value)
            if s_ in CANON_ROWS and not isinstance(node.slice, ast.Slice):
                return ast.copy_location(ast.Name(id=CANON_ROWS[s_], ctx=ast.Load()), node)
            if src(node) == "self._points[0]":
                return ast.copy_location(ast.Name(id="qVals", ctx=ast.Load()), node)
            if s_ == "self._nPoints" and isinstance(node.slice, ast.Constant) and node.slice.value in (0, 1):
                return ast.copy_location(ast.Name(id=f"__n{node.slice.value}", ctx=ast.Load()), node)
            return self.generic_visit(node)

        def visit_Attribute(self, node):
            s_ = src(node)
            if s_ in CANON_ARRAYS or s_ in CANON_SCALARS:
                return ast.copy_location(ast.Name(id=(CANON_ARRAYS.get(s_) or CANON_SCALARS.get(s_)), ctx=ast.Load()), node)
            if s_ in ("self._points[0].size", "self._points[1].size"):
                return ast.copy_location(ast.Name(id=f"__n{s_[13]}", ctx=ast.Load()), node)
            return self.generic_visit(node)

        def visit_Call(self, node):
            if src(node) in ("len(self._points[0])", "len(self._points[1])"):
                return ast.copy_location(ast.Name(id=f"__n{src(node)[17]}", ctx=ast.Load()), node)
            # a change of element type / memory order of a table row does not change which quantity it is
            if isinstance(node.func, ast.Attribute) and node.func.attr in ("astype", "copy", "view") and len(node.args) <= 1:
                return self.visit(node.func.value)
            if src(node.func) in ("np.ascontiguousarray", "np.asarray", "np.array", "np.asfortranarray") and len(node.args) == 1 and not node.keywords:
                return self.visit(node.args[0])
            return self.generic_visit(node)

        def visit_Name(self, node):
            if iv is not None and node.id == iv:
                return ast.copy_location(ast.Name(id="i", ctx=ast.Load()), node)
            return node
    env = {nm: Arr(nm) for nm in list(CANON_ARRAYS.values()) + ["shifts", "thetaShifts", "lagrangeCoeffs", "qVals"]}
    env.update({nm: Symbol(nm, integer=True) for nm in CANON_SCALARS.values()})
    env["i"] = Symbol("i", integer=True)
    for k_, v_ in sizes.items():
        env[f"__n{k_}"] = v_
    from ..symx import SymExec as _SE
    ex0 = _SE(fn, env, calls={"mod": _h_mod, "remainder": _h_mod})
    values, why = {}, {}
    for f_, a_ in b.items():
        try:
            from .C05 import library_forms
            v = ex0.ev(library_forms(Canon().visit(copy.deepcopy(a_))))
            if isinstance(v, Vec):
                # an element-wise expression over the canonical arrays: an array whose generic element is that expression and whose
                # length is that of its array operands
                jj = Symbol("_jj", integer=True)
                el = v.f((jj,))
                names = sorted({str(a.func) for a in el.atoms(sp.Function) if a.args == (jj,) and str(a.func) in env})
                arr_ = Arr(f_, generic=lambda ix, v=v: v.f(tuple(ix)))
                if names:
                    arr_.length = Symbol(f"n0_{names[0]}", integer=True, positive=True)
                v = arr_
            values[f_] = v
        except Undecided as e:
            why[f_] = f"`{src(a_)[:60]}`: {e}"
    model = {"call": c1, "call_resolved": c1r, "loop": lp, "bind": b, "values": values, "why": why, "wformals": wformals, "defs": defs}
    cache["model"] = model
    return model


def general_overrides(chk, wrapper, general, model):
    """values of the general routine's parameters as handed through the dispatch wrapper by the call in step:
    (overrides for make_args, {general formal: reason} for the ones not followed)"""
    kmod = chk.mod(U.ADVK)
    w, g = kmod.func(wrapper), kmod.func(general)
    wf = [a.arg for a in w.args.args]
    gf = [a.arg for a in g.args.args]
    inner = [c for c in ast.walk(w) if isinstance(c, ast.Call) and isinstance(c.func, ast.Name) and c.func.id == general]
    ov, why = {}, {}
    if model is None or not inner:
        return ov, why
    b = agree.bind_call(inner[0], gf) or {}
    for f_, a_ in b.items():
        if isinstance(a_, ast.Name) and a_.id in wf:
            if a_.id in model["values"]:
                ov[f_] = model["values"][a_.id]
            elif a_.id in model["why"]:
                # not followed: an opaque value under a name of its own, so that it cannot pass for the quantity the parameter is
                # named after
                from ..symx import Arr
                why[f_] = model["why"][a_.id]
                ann = next((src(x.annotation) for x in g.args.args if x.arg == f_ and x.annotation is not None), "")
                ov[f_] = Arr("unfollowed_" + f_) if "[" in ann else Symbol("unfollowed_" + f_, integer="int" in ann, real=True)
    return ov, why


AXES = ("z row", "theta node", "stencil entry")


def _axes_text(perm):
    """perm = (axis of the z row, axis of the theta node, axis of the stencil entry) -> '[z row, theta node, stencil entry]' in axis order"""
    names = {perm[0]: "z", perm[1]: "theta", perm[2]: "stencil"}
    return "[" + ", ".join(names[k] for k in range(3)) + "]"


def writer_rule(chk):
    """the kernel that fills the table of field-line values, seen together with the call in step (cached; no obligation is recorded
    here): {'ob': arguments of the F6-table-writer obligation, 'perm': axis roles or None, 'conv': None or (effective cell shift,
    effective theta shift, shifts(j), thetaShifts(j)) when the kernel reads the shift tables with another convention than
    row = (i - shifts[j]) mod nz, point = theta_k + thetaShifts[j]}"""
    st_ = _store(chk)
    if "_c10_writer" in st_:
        return st_["_c10_writer"]
    res = {"ob": None, "perm": None, "conv": None}
    st_["_c10_writer"] = res
    kmod = chk.mod(U.ADVK)
    fn = kmod.func("general_get_lagrange_vals")
    chk.functions.add(f"{U.ADVK}:general_get_lagrange_vals")
    label_w = "vals[(i - shifts[j]) % nz, k, j] = S(theta_k + thetaShifts[j])  (axes in the table's own order)"
    try:
        from .C05 import structured
        fn_s, why_s = structured(fn)
        if why_s:
            raise Undecided(why_s)
        model = step_call_model(chk)
        ov, ov_why = general_overrides(chk, "get_lagrange_vals", "general_get_lagrange_vals", model)
        gformals = [a.arg for a in fn_s.args.args]
        ov = {k_: v_ for k_, v_ in ov.items() if k_ in gformals}
        args = make_args(fn_s, funcs={"eval_spline_1d_vector": _vector_into_view, "eval_spline_1d_scalar": h_scalar1}, overrides=ov)
        handlers = dict(SPLINE_HANDLERS)
        handlers["eval_spline_1d_vector"] = _vector_into_view
        handlers["mod"] = handlers["remainder"] = _h_mod
        handlers["fmod"] = _h_fmod
        ex = SymExec(fn_s, args, calls=handlers)
        ex.run()
        from ..symx import Arr as _Arr
        vals = next((v_ for v_ in ex.env.values() if isinstance(v_, _Arr) and v_.name == "vals"), None)
        if vals is None or not hasattr(vals, "cells"):
            raise Undecided("the value table is not among the arrays the kernel writes")
        keys = list(vals.cells)
        # the specification is written in the quantities of the call in step (caller and kernel are one unit): the counter i of the loop
        # over the z columns, the rows [rIdx, cIdx] of the shift tables, the theta nodes
        i = Symbol("i", integer=True)
        sh, ts, qv = Function("shifts"), Function("thetaShifts"), Function("qVals")
        canonical = {"shifts", "thetaShifts", "qVals", "vals", "kts", "coeffs", "lagrangeCoeffs"}
        # a parameter whose value at the call site was not followed must not decide the comparison
        opaque = sorted({str(a.func) for key_ in keys for e_ in list(key_) + [vals.cells[key_]] for a in e_.atoms(sp.Function)
                         if str(a.func) in gformals and str(a.func) not in canonical} |
                        {str(x) for key_ in keys for e_ in list(key_) + [vals.cells[key_]] for x in e_.free_symbols
                         if str(x) in gformals and str(x) not in ("i", "deg") and str(x) not in canonical})
        opaque += sorted({str(a.func)[11:] for key_ in keys for e_ in list(key_) + [vals.cells[key_]] for a in e_.atoms(sp.Function)
                          if str(a.func).startswith("unfollowed_")} |
                         {str(x)[11:] for key_ in keys for e_ in list(key_) + [vals.cells[key_]] for x in e_.free_symbols
                          if str(x).startswith(("unfollowed_", "arr_unfollowed_"))})
        if opaque:
            raise Undecided(f"the table entry depends on the kernel argument(s) {opaque} whose value at the call in step was not followed"
                            + (f" ({'; '.join(ov_why.values())})" if ov_why else ""))
        perm = None
        if len(keys) == 1 and len(keys[0]) == 3:
            key, val = keys[0], vals.cells[keys[0]]
            syms = [(p_, e) for p_, e in enumerate(key) if isinstance(e, sp.Symbol)]
            ps = [p_ for p_, e in syms if val.has(ts(e)) or any(k2.has(sh(e)) for k2 in key)]
            pt = [p_ for p_, e in syms if val.has(qv(e))]
            if len(ps) == 1 and len(pt) == 1 and ps[0] != pt[0]:
                perm = (({0, 1, 2} - {ps[0], pt[0]}).pop(), pt[0], ps[0])
        if perm is None:
            # roles not recognisable from the stored cell: judged against the axis order [z row, theta, stencil]
            perm = (0, 1, 2)
            roles_known = False
        else:
            roles_known = True
        j = keys[0][perm[2]] if keys and len(keys[0]) == 3 and isinstance(keys[0][perm[2]], sp.Symbol) else Symbol("j", integer=True)
        k = keys[0][perm[1]] if keys and len(keys[0]) == 3 and isinstance(keys[0][perm[1]], sp.Symbol) else Symbol("k", integer=True)
        nz = Symbol(f"n{perm[0]}_vals", integer=True, positive=True)
        want = {perm[0]: Function("mod")(i - sh(j), nz), perm[1]: k, perm[2]: j}
        want_key = tuple(want[a] for a in range(3))
        fam = (Symbol("arr_kts"), Symbol("deg", integer=True), Symbol("arr_coeffs"))
        want_val = S1(Wrap(qv(k) + ts(j)), 0, *fam)

        def congruent(a, b):
            # row indices are compared modulo nz (interpreted Python wraps a negative index; whether compiled code may
            # rely on that is C19's rule K1, not this property's)
            strip = lambda e: e.replace(lambda x: x.func == Function("mod") and x.args[1] == nz, lambda x: x.args[0])
            return alg_equal(strip(a), strip(b))
        ok = len(keys) == 1 and len(keys[0]) == 3 and all(congruent(a, b) if ax == perm[0] else alg_equal(a, b)
                                                         for ax, (a, b) in enumerate(zip(keys[0], want_key))) \
            and alg_equal(vals.cells[keys[0]], want_val)
        why = ("the value for source row i and stencil entry j is stored at target row (i - shift_j) mod nz, with the theta "
               f"shift of the same j; the table is written as {_axes_text(perm)}")
        if not ok:
            other = [x for x in (keys[0][perm[0]].atoms(sp.Function) if keys and len(keys[0]) == 3 else ())
                     if x.func == Function("mod") and str(x.args[1]).startswith("n") and str(x.args[1]).endswith("_vals") and x.args[1] != nz]
            if roles_known and other and congruent(keys[0][perm[0]].subs(other[0].args[1], nz), want_key[perm[0]]):
                why = (f"the target row (i - shift_j) is wrapped modulo {other[0].args[1]} (the length of axis {str(other[0].args[1])[1]} of the table) "
                       f"but is used as the index of axis {perm[0]}, whose length is {nz}: rows are out of range or alias other rows when the two "
                       "lengths differ")
            else:
                # diagnosis in the table's own axis order
                kk = tuple(keys[0][a] for a in perm) if keys and len(keys[0]) == 3 else None
                wk = tuple(want_key[a] for a in perm)

                class _V:
                    pass
                v2 = _V()
                v2.cells = {kk: vals.cells[keys[0]]} if kk is not None and len(keys) == 1 else dict(vals.cells)
                why = _writer_diagnosis(v2, [kk] if kk is not None and len(keys) == 1 else keys, wk, want_val, congruent)
        res["alone_ok"] = bool(ok)
        if roles_known and len(keys) == 1:
            # the writer's PART of the contract with the reader: row = (i - g(shifts[j])) [mod nz], point = theta_k + h(thetaShifts[j],
            # shifts[j]) with g, h functions of the table entries alone (g = 0: the whole cell shift is left to the reader; g = identity:
            # the reference code).  The parts of writer and reader are composed by shift_convention(); the tables are then compared with
            # the formulas of the property under the composed convention (F6-lagrange-geometry)
            strip = lambda e: e.replace(lambda x: x.func == Function("mod") and x.args[1] == nz, lambda x: x.args[0])
            val = vals.cells[keys[0]]
            arg = val.args[0] if isinstance(val, sp.Basic) and val.func == S1 and val.args else None
            if arg is not None and arg.func == Wrap and all(alg_equal(keys[0][ax], want_key[ax]) for ax in (perm[1], perm[2])):
                s_eff = sp.simplify(i - strip(keys[0][perm[0]]))
                t_eff = sp.simplify(arg.args[0] - qv(k))
                X_, Y_ = Symbol("_tab_shift"), Symbol("_tab_theta")

                def only(e, allowed):
                    """e is a function of the table entries in `allowed` alone"""
                    e2 = e.subs({sh(j): X_, ts(j): Y_})
                    return not (e2.free_symbols - allowed) and not [a_ for a_ in e2.atoms(sp.Function) if not isinstance(a_, (sp.floor, sp.ceiling))]
                z_wrapped = keys[0][perm[0]].func == Function("mod") and keys[0][perm[0]].args[1] == nz
                if only(s_eff, {X_}) and only(t_eff, {X_, Y_}) and alg_equal(val, S1(Wrap(qv(k) + t_eff), 0, *fam)) \
                        and (z_wrapped or sp.simplify(s_eff) == 0):
                    res["parts"] = (s_eff, t_eff, sh(j), ts(j), j)
        if ok or roles_known:
            res["perm"] = perm
        v_ = vals.cells[keys[0]] if len(keys) == 1 else None
        res["point_wrapped"] = bool((ok or res.get("parts") is not None) and isinstance(v_, sp.Basic) and v_.func == S1 and v_.args and v_.args[0].func == Wrap)
        res["ob"] = dict(rule="F6-table-writer", node=fn, construct=label_w, ok=ok, why=why,
                         facts={"key": str(keys[0]) if keys else "", "value": str(vals.cells[keys[0]]) if keys else "", "axes": _axes_text(perm)})
    except (Undecided, KeyError) as e:
        res["ob"] = dict(rule="F6-table-writer", node=fn, construct="general_get_lagrange_vals", ok=None,
                         why="outside the extractable fragment: " + (f"the kernel has no parameter {e}" if isinstance(e, KeyError) else str(e)), facts={})
    except AnalysisError:
        raise
    except Exception as e:          # noqa: BLE001 - a form the symbolic model cannot digest is undecided, the other rules keep their verdicts
        res["ob"] = dict(rule="F6-table-writer", node=fn, construct="general_get_lagrange_vals", ok=None,
                         why=f"outside the extractable fragment: {type(e).__name__}: {e}", facts={})
    return res


def reader_call_model(chk):
    """the call of flux_advection in FluxSurfaceAdvection.step: {'call', 'bind' (kernel formal -> actual with single-assignment locals
    written out, `*self._nPoints` split into its two components), 'role' (kernel formal -> 'vals' | 'lagrangeCoeffs' | 'shifts' |
    'thetaShifts' | 'f' | 'n_theta' | 'n_z' | None), 'entry' (formal -> text of the (r, v) entry of a per-(r, v) table)} or None
    when the call is not found / cannot be bound (cached)"""
    from ..core import same_expr
    cache = chk.__dict__.setdefault("_c10_rcall", {})
    if "model" in cache:
        return cache["model"]
    cache["model"] = None
    fn = chk.func(U.ADV, f"{CLS}.step")
    kmod = chk.mod(U.ADVK)
    calls = [c for c in ast.walk(fn) if isinstance(c, ast.Call) and isinstance(c.func, ast.Name) and c.func.id == "flux_advection"]
    if len(calls) != 1:
        return None
    c2 = calls[0]
    defs = single_defs(fn)
    two = False
    al = table_alloc(chk)
    npt = al.get("npt")
    if isinstance(npt, (ast.Tuple, ast.List)) and len(npt.elts) == 2 and not any(isinstance(e, ast.Starred) for e in npt.elts):
        two = True          # self._nPoints is bound once, to a pair
    actual = []
    for x in c2.args:
        if isinstance(x, ast.Starred) and same_expr(x.value, "self._nPoints") and two:
            actual += [ast.parse("self._nPoints[0]", mode="eval").body, ast.parse("self._nPoints[1]", mode="eval").body]
        else:
            actual.append(x)
    if any(isinstance(x, ast.Starred) for x in actual) or any(k.arg is None for k in c2.keywords):
        return None
    kfn = kmod.func("flux_advection")
    if kfn.args.vararg is not None or kfn.args.kwarg is not None:
        return None
    fformals = [a.arg for a in kfn.args.args]
    b2 = agree.bind_call(ast.Call(func=c2.func, args=actual, keywords=c2.keywords), fformals)
    if b2 is None:
        cache["model"] = {"call": c2, "bind": None, "formals": fformals, "role": {}, "entry": {}}
        return cache["model"]
    b2 = {k_: resolved(v_, defs) for k_, v_ in b2.items()}

    def strip_copies(e):
        while True:
            if isinstance(e, ast.Call) and isinstance(e.func, ast.Attribute) and e.func.attr in ("astype", "copy", "view") and len(e.args) <= 1 and not e.keywords:
                e = e.func.value
            elif isinstance(e, ast.Call) and src(e.func) in ("np.ascontiguousarray", "np.asarray", "np.array", "np.asfortranarray") and len(e.args) == 1 and not e.keywords:
                e = e.args[0]
            else:
                return e

    def entry_of(sub):
        items = list(sub.slice.elts) if isinstance(sub.slice, ast.Tuple) else [sub.slice]
        full = lambda i_: isinstance(i_, ast.Slice) and i_.lower is None and i_.upper is None and i_.step is None
        return ", ".join(sorted(src(i_) for i_ in items if not full(i_) and not (isinstance(i_, ast.Constant) and i_.value is Ellipsis)))
    role, entry = {}, {}
    for f_, a_ in b2.items():
        a_ = strip_copies(a_)
        r_ = None
        if same_expr(a_, "self._LagrangeVals"):
            r_ = "vals"
        elif isinstance(a_, ast.Subscript) and src(a_.value) in CANON_ROWS and not isinstance(a_.slice, ast.Slice):
            r_ = CANON_ROWS[src(a_.value)]
            entry[f_] = entry_of(a_)
        elif isinstance(a_, ast.Name) and a_.id in {x.arg for x in fn.args.args} and a_.id == [x.arg for x in fn.args.args if x.arg != "self"][0]:
            r_ = "f"
        elif same_expr(a_, "self._nPoints[0]") or same_expr(a_, "self._points[0].size") or same_expr(a_, "len(self._points[0])"):
            r_ = "n_theta"
        elif same_expr(a_, "self._nPoints[1]") or same_expr(a_, "self._points[1].size") or same_expr(a_, "len(self._points[1])"):
            r_ = "n_z"
        role[f_] = r_
    cache["model"] = {"call": c2, "bind": b2, "formals": fformals, "role": role, "entry": entry}
    return cache["model"]


def reader_rule(chk):
    """the kernel that reads the table of field-line values (flux_advection), seen together with the call in step (cached; no
    obligation is recorded here): {'ob': arguments of the F6-table-reader obligation, 'perm': axis roles (z row, theta node, stencil
    entry) or None, 'r_shift': cell shift the READER applies - it reads row (i + r_shift(shifts[k])) mod nz for target column i and
    stencil entry k - as an expression in shifts(k), 0 in the reference code, 'k': the stencil symbol}.
    Which side applies the periodic cell shift is a contract between writer and reader: the rule only establishes the reader's part;
    the two parts are composed by shift_convention()."""
    from ..symx import Arr
    st_ = _store(chk)
    if "_c10_reader" in st_:
        return st_["_c10_reader"]
    res = {"ob": None, "perm": None, "r_shift": None, "k": None}
    st_["_c10_reader"] = res
    kmod = chk.mod(U.ADVK)
    fr = kmod.func("flux_advection")
    chk.functions.add(f"{U.ADVK}:flux_advection")
    label = "f[j,i] = sum_k coeffs[k] vals[z i (+ cell shift), theta j, stencil k]  (axes in the table's own order)"
    try:
        fr_s = devectorise(fr)
        rc = reader_call_model(chk)
        formals = [a.arg for a in fr_s.args.args]
        role_of = dict(rc["role"]) if rc and rc.get("bind") else {}
        # roles of the kernel's parameters: from the call in step; a parameter the call model has no role for keeps its own name
        # (then the names vals / coeffs / f are the roles, as in the reference signature)
        by_role = {}
        for f_, r_ in role_of.items():
            if r_ is not None:
                by_role.setdefault(r_, []).append(f_)
        if any(len(v_) > 1 for v_ in by_role.values()):
            raise Undecided(f"two parameters of the kernel receive the same quantity at the call in step: {by_role}")
        pf = {r_: (by_role[r_][0] if r_ in by_role else dflt) for r_, dflt in (("vals", "vals"), ("lagrangeCoeffs", "coeffs"), ("f", "f"))}
        for r_, f_ in pf.items():
            if f_ not in formals:
                raise Undecided(f"no parameter of flux_advection receives the {r_} (parameters {formals})")
        ov = {pf["vals"]: Arr("vals"), pf["lagrangeCoeffs"]: Arr("coeffs")}
        for r_ in ("shifts", "thetaShifts"):
            if r_ in by_role:
                ov[by_role[r_][0]] = Arr(r_)
        a2 = make_args(fr_s, overrides=ov)
        ex2 = SymExec(fr_s, a2, calls={"mod": _h_mod, "remainder": _h_mod})
        ex2.run()
        fa = ex2.env.get(pf["f"])
        # the engine turns an array whose only written cell is keyed by distinct loop counters into a generic element (any index names)
        if not isinstance(fa, Arr) or fa.cells or fa.generic is None:
            raise Undecided("the field is not written point-wise at [theta index, z index] by two loop counters (one family of cells expected)")
        j, i = Symbol("j", integer=True), Symbol("i", integer=True)
        got = _sums_from_zero(fa.read([j, i]))
        c, v = Function("coeffs"), Function("vals")
        sums = [x for x in got.atoms(sp.Sum)]
        if len(sums) != 1 or len(sums[0].limits) != 1:
            raise Undecided(f"the new value is not one sum over the stencil: {str(got)[:160]}")
        k, klo, khi = sums[0].limits[0]
        nco = Symbol("n0_coeffs", integer=True, positive=True)
        if sp.simplify(klo) != 0 or sp.simplify(khi - (nco - 1)) != 0:
            raise Undecided(f"the sum runs over k = {klo} .. {khi}, not over all len(coeffs) stencil entries")
        vat = [x for x in sums[0].function.atoms(sp.Function) if x.func == v]
        if len(vat) != 1 or len(vat[0].args) != 3:
            raise Undecided(f"the summand does not contain exactly one entry of the table: {str(sums[0].function)[:120]}")
        args = list(vat[0].args)
        nzs = {ax: Symbol(f"n{ax}_vals", integer=True, positive=True) for ax in range(3)}

        def unmod(e, ax):
            if e.func == Function("mod") and len(e.args) == 2 and e.args[1] == nzs[ax]:
                return e.args[0], True
            return e, False
        # which axis carries which index: the theta index j of the point, the stencil counter k, the z index i (possibly shifted)
        cls_ = {}
        for ax, e in enumerate(args):
            core, _ = unmod(e, ax)
            fs = core.free_symbols
            if core == j:
                cls_.setdefault("theta", []).append(ax)
            elif core == k:
                cls_.setdefault("stencil", []).append(ax)
            elif i in fs and j not in fs:
                cls_.setdefault("z", []).append(ax)
            else:
                cls_.setdefault("other", []).append(ax)
        w = sp.simplify(sums[0].function / vat[0])
        if w.has(v):
            raise Undecided(f"the summand is not (weight) x (table entry): {str(sums[0].function)[:120]}")
        bad = None
        if "other" not in cls_ and not cls_.get("theta"):
            bad = (f"the table entry read for the point (theta j, z i) is vals{tuple(args)}: no axis is subscripted with the theta index of the "
                   "point, every theta node gets the same value")
        elif "other" not in cls_ and not cls_.get("stencil"):
            bad = (f"the table entry read for stencil entry k is vals{tuple(args)}: no axis is subscripted with the stencil counter, the sum "
                   "combines one table entry with all the weights")
        elif w.func == c and len(w.args) == 1 and cls_.get("stencil") and "other" not in cls_ and sp.simplify(w.args[0] - k) != 0 \
                and not (w.args[0].free_symbols - {k, nco}):
            bad = (f"the weight is coeffs[{w.args[0]}] while the table entry is that of stencil entry {k}: weight and value of different "
                   "stencil entries are paired")
        if bad:
            res["ob"] = dict(rule="F6-table-reader", node=fr, construct=label, ok=False, why=bad)
            return res
        if any(len(cls_.get(r_, [])) != 1 for r_ in ("z", "theta", "stencil")) or "other" in cls_:
            raise Undecided(f"axes of the table entry vals{tuple(args)} not recognised as (z index, theta index j, stencil counter k) in some order")
        perm = (cls_["z"][0], cls_["theta"][0], cls_["stencil"][0])
        zcore, wrapped = unmod(args[perm[0]], perm[0])
        R = sp.simplify(zcore - i)
        shf = Function("shifts")
        foreign = [x for x in R.atoms(sp.Function) if not (x.func == shf and x.args == (k,)) and not isinstance(x, (sp.floor, sp.ceiling))]
        if R.has(i) or R.has(j) or foreign or (R.free_symbols - {k}):
            raise Undecided(f"the row read for column i is {args[perm[0]]}: not i plus a function of the stencil entry's cell shift alone")
        if R.has(shf) and "shifts" not in by_role:
            raise Undecided("the reader shifts the row by a parameter named `shifts`, but the call in step was not followed: what it receives is not established")
        if sp.simplify(R) != 0 and not wrapped:
            raise Undecided(f"the row i + ({R}) read by the kernel is not reduced modulo the length of the axis: it may lie outside the table")
        if not (w.func == c and len(w.args) == 1 and sp.simplify(w.args[0] - k) == 0):
            raise Undecided(f"the weight of the table entry is {w}, not coeffs[k]")
        # the sum written out from its parts must be the extracted value (nothing else is added)
        if not alg_equal(got, sp.Sum(c(k) * vat[0], (k, 0, nco - 1))):
            raise Undecided(f"the new value is not only the weighted sum over the stencil: {str(got)[:160]}")
        res.update(perm=perm, r_shift=R, k=k)
        res["ob"] = dict(rule="F6-table-reader", node=fr, construct=label, ok=True,
                         why=f"new value at (theta j, z i) = Lagrange-weighted sum over the stencil of the entries of row "
                             f"{'i' if sp.simplify(R) == 0 else '(i + ' + str(R) + ') mod nz'}; the table is read as {_axes_text(perm)}")
    except (Undecided, KeyError) as e:
        res["ob"] = dict(rule="F6-table-reader", node=fr, construct="flux_advection", ok=None, why="outside the extractable fragment: " +
                         (f"the kernel has no parameter {e}" if isinstance(e, KeyError) else str(e)))
    except AnalysisError:
        raise
    except Exception as e:          # noqa: BLE001 - a form the symbolic model cannot digest is undecided
        res["ob"] = dict(rule="F6-table-reader", node=fr, construct="flux_advection", ok=None,
                         why=f"outside the extractable fragment: {type(e).__name__}: {e}")
    return res


def shift_convention(chk):
    """writer and reader of the value table composed: the value the point (theta j, z i) takes for stencil entry k comes from source
    column i + S_k (mod nz) with S_k = (shift applied by the writer: it stores source column c at row c - w(shifts[k])) + (shift
    applied by the reader: it reads row i + r(shifts[k])), evaluated at theta_j + T_k.
    -> {'conv': None (S_k = shifts[k], T_k = thetaShifts[k]: the reference meaning of the tables) or (S, T, shifts(j), thetaShifts(j)),
        'ok': True / False / None, 'why'} (cached)"""
    st_ = _store(chk)
    if "_c10_conv" in st_:
        return st_["_c10_conv"]
    out = {"conv": None, "ok": None, "why": "writer or reader of the value table not followed"}
    st_["_c10_conv"] = out
    wr, rd = writer_rule(chk), reader_rule(chk)
    parts = wr.get("parts")
    if parts is None or rd.get("r_shift") is None:
        # one side not followed: the reference meaning is assumed only when the side that WAS followed applies the whole shift
        if wr.get("ob") and wr["ob"]["ok"] is True and wr.get("conv") is None and rd.get("r_shift") is None and rd.get("ob") and rd["ob"]["ok"] is None:
            out.update(ok=None, why="the reader was not followed: whether it shifts the rows again is not established")
        return out
    s_w, t_eff, shj, tsj, j = parts
    r_r = rd["r_shift"].subs(rd["k"], j) if rd["k"] is not None else rd["r_shift"]
    S = sp.simplify(s_w + r_r)
    X_, Y_ = Symbol("_tab_shift"), Symbol("_tab_theta")

    def only(e, allowed):
        e2 = e.subs({shj: X_, tsj: Y_})
        return not (e2.free_symbols - allowed) and not [a_ for a_ in e2.atoms(sp.Function) if not isinstance(a_, (sp.floor, sp.ceiling))]
    if not only(S, {X_}) or not only(t_eff, {X_, Y_}):
        out.update(ok=None, why=f"composed cell shift {S} / theta shift {t_eff} are not functions of the table entries alone")
        return out
    if not S.has(shj):
        out.update(ok=False, why=(f"writer and reader composed: the value at (theta j, z i) for stencil entry k is taken from source column "
                                  f"i + ({S}) - the writer stores source column c at row c - ({s_w}), the reader reads row i + ({r_r}): the cell "
                                  "shift shifts[k] of the stencil entry is applied by neither side, every stencil entry reads the same column"))
        return out
    if not t_eff.has(tsj):
        out.update(ok=None, why=f"the evaluation point theta_k + ({t_eff}) does not use the theta-shift table")
        return out
    ref = sp.simplify(S - shj) == 0 and sp.simplify(t_eff - tsj) == 0
    out.update(conv=None if ref else (S, t_eff, shj, tsj), ok=True, s_w=s_w, r_r=r_r,
               why=(f"writer and reader composed: source column = i + ({S}) mod nz (writer part {s_w}, reader part {r_r}), evaluation point "
                    f"theta_j + ({t_eff})"))
    return out


def kernels(chk):
    kmod = chk.mod(U.ADVK)
    lay = chk.__dict__.setdefault("_c10_layout", {})
    wr = writer_rule(chk)
    rd = reader_rule(chk)
    cv = shift_convention(chk)
    if wr["perm"] is not None:
        lay["writer"] = wr["perm"]
    if rd["perm"] is not None:
        lay["reader"] = rd["perm"]
    o_ = dict(wr["ob"])
    # which side applies the periodic cell shift is a contract between the two kernels: when the writer alone does not store the
    # value of source column i at row (i - shifts[j]) mod nz, the verdict is that of the composition with the reader
    if wr.get("parts") is not None and wr.get("alone_ok") is False:
        if cv["ok"] is True:
            o_["ok"] = True
            o_["why"] = (cv["why"] + (": a convention of the shift tables other than S = shifts[j], T = thetaShifts[j]; the tables are compared "
                                      "with the formulas of the property under it (F6-lagrange-geometry)" if cv["conv"] is not None else
                                      ": together the two kernels apply the cell shift shifts[k] once") + f"; the table is written as {_axes_text(wr['perm'])}")
        elif cv["ok"] is False:
            o_["ok"], o_["why"] = False, cv["why"]
        else:
            o_["ok"], o_["why"] = None, f"{wr['ob']['why']} - judged together with the reader: {cv['why']}"
    chk.ob(o_["rule"], o_["node"], o_["construct"], o_["ok"], o_["why"], file=U.ADVK, func="general_get_lagrange_vals", facts=o_.get("facts", {}))
    r_ = dict(rd["ob"])
    if r_["ok"] is True and rd.get("r_shift") is not None and sp.simplify(rd["r_shift"]) != 0 and cv["ok"] is not True:
        # the reader shifts the rows itself: right only together with a writer that leaves (part of) the shift to it
        r_["ok"] = False if cv["ok"] is False else None
        r_["why"] = r_["why"] + " - " + cv["why"]
    chk.ob(r_["rule"], r_["node"], r_["construct"], r_["ok"], r_["why"], file=U.ADVK, func="flux_advection")
    from .C05 import wrapper_dispatch
    wrapper_dispatch(chk, kmod, "get_lagrange_vals", "general_get_lagrange_vals")


def table_layout(chk):
    """the kernel that fills the table of field-line values, the kernel that reads it and the allocation agree on the order of its axes"""
    lay = chk.__dict__.get("_c10_layout", {})
    kmod = chk.mod(U.ADVK)
    node = lay.get("alloc_node") or kmod.func("flux_advection")
    have = {k: lay[k] for k in ("writer", "reader", "alloc") if k in lay}
    text = "; ".join(f"{ {'writer': 'general_get_lagrange_vals writes', 'reader': 'flux_advection reads', 'alloc': '__init__ allocates'}[k]} "
                     f"{_axes_text(p_)}" for k, p_ in have.items())
    if len(have) < 3 and len(set(have.values())) <= 1:
        # a side whose axes were not extracted has been reported by its own rule (F6-table-writer / -reader / E2-point-order)
        return
    # VIOLATED-soundness: relational - the axis roles of writer, reader and allocation were each read off the code (stored cell, summed
    # entry, allocated extents); a side whose roles were not established is not in `have`
    ok = len(set(have.values())) == 1
    chk.ob("F6-table-layout", node, "axes of self._LagrangeVals: writer = reader = allocation", ok,
           f"all three use {_axes_text(have['writer'])}" if ok else
           f"{text}: the value stored for (z row, theta node, stencil entry) is read back as another entry of the table (or lies outside it)",
           file=U.ADV if "alloc_node" in lay else U.ADVK, func=f"{CLS}.__init__" if "alloc_node" in lay else "flux_advection")


def _field_axis_bounds(kfn, fparam):
    """(parameter bounding the loop over axis 0 of the field, parameter bounding the loop over axis 1) read off the kernel:
    `for a in range(P): for b in range(Q): F[a, b] = ...` -> (P, Q); None when the store is not of this form"""
    if fparam is None:
        return None
    params = {a.arg for a in kfn.args.args}
    out = set()
    for st in ast.walk(kfn):
        tg = st.targets[0] if isinstance(st, ast.Assign) and len(st.targets) == 1 else st.target if isinstance(st, ast.AugAssign) else None
        if isinstance(tg, ast.Subscript) and isinstance(tg.value, ast.Name) and tg.value.id == fparam and isinstance(tg.slice, ast.Tuple) \
                and len(tg.slice.elts) == 2 and all(isinstance(x, ast.Name) for x in tg.slice.elts):
            bounds = []
            for x in tg.slice.elts:
                p_ = parent(st)
                found = None
                while p_ is not None and p_ is not kfn:
                    if isinstance(p_, ast.For) and isinstance(p_.target, ast.Name) and p_.target.id == x.id:
                        it = p_.iter
                        if isinstance(it, ast.Call) and isinstance(it.func, ast.Name) and it.func.id == "range" and len(it.args) == 1 \
                                and not it.keywords and isinstance(it.args[0], ast.Name) and it.args[0].id in params:
                            found = it.args[0].id
                        break
                    p_ = parent(p_)
                bounds.append(found)
            if None in bounds:
                return None
            out.add(tuple(bounds))
    return next(iter(out)) if len(out) == 1 else None


def _n_subscripts(kfn, name):
    """number of index positions with which the kernel subscripts its parameter `name` (None when it varies / is never subscripted)"""
    ns = {len(n.slice.elts) if isinstance(n.slice, ast.Tuple) else 1 for n in ast.walk(kfn)
          if isinstance(n, ast.Subscript) and isinstance(n.value, ast.Name) and n.value.id == name}
    return next(iter(ns)) if len(ns) == 1 else None


def step_wiring(chk):
    fn = chk.func(U.ADV, f"{CLS}.step")
    kmod = chk.mod(U.ADVK)
    calls = {c.func.id: c for c in ast.walk(fn) if isinstance(c, ast.Call) and isinstance(c.func, ast.Name)
             and c.func.id in ("get_lagrange_vals", "flux_advection")}
    if len(calls) != 2:
        raise AnalysisError("C10: kernel calls not found in FluxSurfaceAdvection.step")
    c1 = calls["get_lagrange_vals"]
    # single-assignment locals of step stand for their definitions (`shifts = self._shifts[rIdx, cIdx]` before the loop)
    try:
        model = step_call_model(chk)
    except AnalysisError:
        raise
    except Exception:          # noqa: BLE001 - the call is then taken as written
        model = None
    defs = model["defs"] if model else {}
    c1r = model["call_resolved"] if model else c1
    from .C05 import roles as _roles
    _roles(chk, U.ADV, f"{CLS}.step", c1r, [a.arg for a in kmod.func("get_lagrange_vals").args.args], {
        "i": "i", "self._shifts[rIdx, cIdx]": "shifts", "self._LagrangeVals": "vals", "self._points[0]": "qVals",
        "self._thetaShifts[rIdx, cIdx]": "thetaShifts", "self._thetaSpline.basis.knots": "kts",
        "self._thetaSpline.basis.degree": "deg", "self._thetaSpline.coeffs": "coeffs",
        "self._thetaSpline.basis.cubic_uniform": "cubic_uniform_splines"}, callee=kmod.func("get_lagrange_vals"))
    c2 = calls["flux_advection"]
    from ..core import same_expr, enclosing_stmt
    b1 = agree.bind_call(c1r, [a.arg for a in kmod.func("get_lagrange_vals").args.args]) or {}
    # the (r, v) entry of the shift tables the call works with, wherever in its arguments the tables are subscripted
    def entry_of(sub):
        """the index expressions that select the (r, v) entry of a per-(r, v) table, whole-axis slices left out and the order ignored:
        WHICH axis each of them subscripts is engine C's subject (C-window), here only the values matter"""
        items = list(sub.slice.elts) if isinstance(sub.slice, ast.Tuple) else [sub.slice]
        full = lambda i_: isinstance(i_, ast.Slice) and i_.lower is None and i_.upper is None and i_.step is None
        return ", ".join(sorted(src(i_) for i_ in items if not full(i_) and not (isinstance(i_, ast.Constant) and i_.value is Ellipsis)))
    entry = sorted({entry_of(n_) for n_ in ast.walk(c1r) if isinstance(n_, ast.Subscript) and src(n_.value) in ("self._shifts", "self._thetaShifts")
                    and not isinstance(n_.slice, ast.Slice)})
    # flux_advection(nq, nr, f, coeffs, vals [, rows of other per-(r, v) tables]): the roles of the kernel's parameters are read off the
    # call (what each of them receives) and off the kernel (which parameter bounds which axis of the field), not off their names.
    # VIOLATED needs: every actual written out and bound (no * / ** other than the pair self._nPoints), the two size parameters
    # identified in the kernel as the bounds of the loops over axis 0 / axis 1 of the field, table rows selected by index expressions
    # that can be compared as text (same locals, no re-assignment between the two calls is assumed: the locals are single-assignment
    # or parameters)
    rc = reader_call_model(chk)
    ok, bad = None, None
    if rc is not None and rc.get("bind"):
        role, ent, b2 = rc["role"], rc["entry"], rc["bind"]
        by = {}
        for f_, r_ in role.items():
            by.setdefault(r_, []).append(f_)
        kfn = kmod.func("flux_advection")
        fformals = rc["formals"]
        needed = ("n_theta", "n_z", "f", "lagrangeCoeffs", "vals")
        complete = set(b2) == set(fformals) and None not in by and all(len(by.get(r_, [])) == 1 for r_ in needed) \
            and all(len(v_) == 1 for v_ in by.values())
        axes = _field_axis_bounds(devectorise(kfn), by.get("f", [None])[0])
        by_name = False
        if axes is None and {"nq", "nr"} <= set(fformals):
            axes, by_name = ("nq", "nr"), True          # the reference names (number of theta points, number of z points): enough to HOLD
        all_entries = sorted(set(entry) | set(ent.values()))
        step_params = {x.arg for x in fn.args.args}
        stable = all(isinstance(n_, ast.Name) and (n_.id in step_params or n_.id in defs or n_.id == "self") or not isinstance(n_, ast.Name)
                     for f_ in ent for n_ in ast.walk(b2[f_]))
        if complete and axes is not None:
            straight = role.get(axes[0]) == "n_theta" and role.get(axes[1]) == "n_z"
            crossed = role.get(axes[0]) == "n_z" and role.get(axes[1]) == "n_theta"
            if straight and len(all_entries) == 1:
                ok = True
            elif crossed and not by_name:
                bad = ("the numbers of theta and z points are handed over in the wrong order: the kernel loops over f[j, i] with j < n_z, "
                       "i < n_theta")
            elif straight and stable and len(entry) == 1 and ent.get(by["lagrangeCoeffs"][0]) not in (None, entry[0]):
                bad = (f"the weights are those of table entry [{ent[by['lagrangeCoeffs'][0]]}] while the stencil shifts and theta shifts are those "
                       f"of entry [{entry[0]}]: weights and shifts of different (r, v) surfaces are combined")
            elif straight and stable and len(all_entries) > 1:
                bad = (f"the rows of the per-(r, v) tables handed to the two kernels are those of different table entries {all_entries}: "
                       "shifts / weights of different (r, v) surfaces are combined")
        elif not complete and set(fformals) >= {"vals", "coeffs"} and role.get("vals") == "lagrangeCoeffs" and role.get("coeffs") == "vals" \
                and _n_subscripts(kfn, "vals") == 3 and _n_subscripts(kfn, "coeffs") == 1:
            bad = "weights and value table are handed over in each other's position"
        if ok is None and bad is None and len(entry) > 1:
            bad = (f"the stencil shifts and the theta shifts handed to get_lagrange_vals are those of different table entries {entry}: "
                   "shifts of different (r, v) surfaces are combined")
    chk.pat("E2-argument-role", c2, "flux_advection(*self._nPoints, f, coeffs[rIdx,cIdx], vals)", ok,
            "(n_theta, n_z), the field, the weights of the same (r,v) entry as the shifts, and the table", bad,
            file=U.ADV, func=f"{CLS}.step")
    # the field the kernel overwrites is the caller's array (shared rule, C05.result_in_place)
    from .C05 import result_in_place
    f_formal0 = next((k_ for k_, v_ in (rc or {}).get("role", {}).items() if v_ == "f"), None) if rc is not None and rc.get("bind") else None
    if f_formal0 is not None and f_formal0 in rc["bind"]:
        result_in_place(chk, chk.mod(U.ADV).cls(CLS), fn, [("flux_advection", c2, rc["bind"][f_formal0])], U.ADV, CLS)
    else:
        chk.ob("E2-result-in-place", c2, "flux_advection: the field it overwrites is the caller's array", None,
               "which argument of the kernel call is the field it overwrites is not established", file=U.ADV, func=f"{CLS}.step")
    # points = (theta, z); table allocated [n_z, n_theta, stencil] as the kernels index it
    init = chk.func(U.ADV, f"{CLS}.__init__")
    vals = {}
    for st in init.body:
        if isinstance(st, ast.Assign) and len(st.targets) == 1 and src(st.targets[0]) in ("self._points", "self._nPoints", "self._LagrangeVals"):
            vals.setdefault(src(st.targets[0]), []).append(st)
    okp, badp = None, None
    if all(len(vals.get(k, [])) == 1 for k in ("self._points", "self._nPoints", "self._LagrangeVals")):
        pts, npt, tab = (vals[k][0].value for k in ("self._points", "self._nPoints", "self._LagrangeVals"))
        p_ok = same_expr(pts, "eta_grid[1:3]") or same_expr(pts, "(eta_grid[1], eta_grid[2])") or same_expr(pts, "[eta_grid[1], eta_grid[2]]")
        n_ok = same_expr(npt, "(self._points[0].size, self._points[1].size)") or same_expr(npt, "(len(self._points[0]), len(self._points[1]))")
        shape = tab.args[0] if isinstance(tab, ast.Call) and src(tab.func) in ("np.ndarray", "np.empty", "np.zeros") and tab.args else None
        # the three extents in any order: which axis is which is compared with the kernels (F6-table-layout)
        t_ok = False
        if isinstance(shape, (ast.List, ast.Tuple)) and len(shape.elts) == 3:
            pos = {}
            for k_, x in enumerate(shape.elts):
                for role, forms in (("z", ("self._nPoints[1]", "self._points[1].size", "len(self._points[1])")),
                                    ("theta", ("self._nPoints[0]", "self._points[0].size", "len(self._points[0])")),
                                    ("stencil", ("self._zLagrangePts", "zDegree + 1"))):
                    if any(same_expr(x, f_) for f_ in forms):
                        pos.setdefault(role, []).append(k_)
            if all(len(pos.get(r_, [])) == 1 for r_ in ("z", "theta", "stencil")) and p_ok and n_ok:
                t_ok = True
                lay_ = chk.__dict__.setdefault("_c10_layout", {})
                lay_["alloc"] = (pos["z"][0], pos["theta"][0], pos["stencil"][0])
                lay_["alloc_node"] = vals["self._LagrangeVals"][0]
        if p_ok and n_ok and t_ok:
            okp = True
        elif p_ok and same_expr(npt, "(self._points[1].size, self._points[0].size)"):
            badp = "self._nPoints is (n_z, n_theta) while the slice handed to step is (theta, z): every size test and loop bound is transposed"
        elif same_expr(pts, "eta_grid[2:4]") or same_expr(pts, "eta_grid[0:2]") or same_expr(pts, "eta_grid[:2]"):
            badp = f"the advection surface is spanned by `{src(pts)}`, not by (theta, z) = eta_grid[1:3]"
    chk.pat("E2-point-order", vals.get("self._LagrangeVals", [init])[0], "points = (theta, z); table extents n_z, n_theta, stencil", okp,
            "the slice is (theta, z); the table has one axis of n_z rows, one of n_theta nodes and one of stencil entries", badp,
            file=U.ADV, func=f"{CLS}.__init__")
    # loop: one spline per z column i, interpolated from f[:, i] before the table row is produced; the update runs after the loop
    lp = None
    p_ = parent(enclosing_stmt(c1))
    while p_ is not None and p_ is not fn:
        if isinstance(p_, ast.For):
            lp = p_
        p_ = parent(p_)
    okl, badl = None, None
    if lp is not None and isinstance(lp.target, ast.Name) and parent(lp) is fn:
        iv = lp.target.id
        ci = [n for n in ast.walk(lp) if isinstance(n, ast.Call) and isinstance(n.func, ast.Attribute) and n.func.attr == "compute_interpolant"]
        in_loop = any(n is c2 for n in ast.walk(lp))
        # ASSUMPTION of the order verdicts: the order of EXECUTION of two calls.  It is read from the statement lists (C05.exec_order),
        # never from line numbers: the statements of a helper written back in place all carry the position of the call they replace
        from .C05 import exec_order

        def before(x, y):
            """True / False / None: x is executed before y (x an unconditional statement, or an expression statement, of the list)"""
            v_, sx, sy = exec_order(fn, x, y)
            return v_
        rc_ = reader_call_model(chk)
        f_formal = next((k_ for k_, v_ in (rc_ or {}).get("role", {}).items() if v_ == "f"), None)
        if in_loop and f_formal is not None and len(ci) == 1 and ci[0].args and isinstance(ci[0].args[0], ast.Subscript) \
                and src(ci[0].args[0].value) == src(rc_["bind"][f_formal]):
            # recognised wrong form: the kernel that overwrites the whole field runs inside the loop that still interpolates columns of it
            badl = ("flux_advection overwrites f inside the loop over the z columns: the columns interpolated afterwards are already "
                    "advected values")
        elif in_loop:
            pass                # a call inside the loop on other data: not followed
        elif len(ci) == 1 and len(ci[0].args) == 2 and same_expr(ci[0].func.value, "self._interpolator") and same_expr(ci[0].args[1], "self._thetaSpline"):
            col = ci[0].args[0]
            # which table rows column i feeds is the writer rule's subject (F6-table-writer, caller and kernel as one unit); here: the
            # call depends on the column counter at all
            i_ok = any(isinstance(x_, ast.Name) and x_.id == iv for x_ in ast.walk(c1r))
            it_ = resolved(lp.iter, defs)
            if same_expr(it_, "range(self._nPoints[1])") and same_expr(col, f"f[:, {iv}]") and before(ci[0], c1) is True and i_ok \
                    and before(lp, c2) is True:
                okl = True
            elif same_expr(it_, "range(self._nPoints[0])") and same_expr(col, f"f[:, {iv}]"):
                badl = "the loop runs over the number of theta points, not over the n_z columns of the slice: columns are missed or out of range"
            elif same_expr(col, f"f[{iv}, :]") or same_expr(col, f"f[{iv}]"):
                badl = f"`{src(col)}` interpolates a row of the slice (fixed theta, along z) with the theta spline, not the z column {iv} along theta"
            elif before(ci[0], c1) is False and same_expr(col, f"f[:, {iv}]"):
                badl = "the table row of column i is produced before the spline of column i is computed: it holds the previous column's values"
        elif not ci and not [n for n in ast.walk(lp) if isinstance(n, ast.Call) and n is not c1 and not any(n is x for x in ast.walk(c1))
                             and not (isinstance(n.func, ast.Name) and n.func.id in ("range", "len", "enumerate"))]:
            # not FINDING the interpolation is a defect only when the loop body is known completely: it contains no other call that
            # could compute the spline (a helper, a method of another object)
            badl = "the theta spline is never recomputed inside the loop: every table row is produced from the same (stale) spline"
    chk.pat("E2-interpolate-before-evaluate", lp if lp is not None else fn, "for i in range(n_z): interpolate f[:, i]; fill table", okl,
            "every z column is interpolated along theta and entered into the table before the weighted sum overwrites f", badl,
            file=U.ADV, func=f"{CLS}.step")
    # precomputed tables are not modified by the step
    muts = lints.shared_state_mutations(fn, lambda s: s.startswith("self._") and s.split("[")[0] in
                                        ("self._shifts", "self._thetaShifts", "self._lagrangeCoeffs"))
    chk.ob("G2-no-shared-mutation", fn, "step vs precomputed tables", not muts,
           "the per-(r,v) tables are only read" if not muts else "; ".join(d for _, d in muts), file=U.ADV, func=f"{CLS}.step")
    # possible writes the engine could not establish (alias liveness, view/copy of the value not known): undecided, same rule
    for node, desc, why in getattr(muts, "undecided", ()):
        chk.ob("G2-no-shared-mutation", node, "step vs precomputed tables", None, f"{desc} - not established: {why}",
               file=U.ADV, func=f"{CLS}.step")


def run(chk):
    chk.explanation = (
        "Element-wise model of FluxSurfaceAdvection._getLagrangePts (b_z, theta shift per cell, foot displacement -v b_z dt, "
        "stencil cells, theta shifts, node distances with the reference z cancelling, first barycentric weights with an exact "
        "on-node case, stencil centring); sibling agreement of b_z and the field-line pitch with ParallelGradient/fieldline; "
        "table writer/reader/allocation agreement by symbolic forward substitution: the axis roles (z row, theta node, stencil entry) "
        "are read off the writer's stored cell, the reader's sum and the allocated shape and compared WITH EACH OTHER (any consistent "
        "axis order holds; the row is (i - shift_j) modulo the length of the axis it is used on, theta shift of the same j; weighted sum "
        "over the stencil; whole-array statements are lowered to element loops, eval_spline_1d_vector into a one-axis view is followed); "
        "a conditional that cuts the local radii the tables are built for is decided under the condition's own assumption "
        "(F6-radial-table); dispatch, argument roles, interpolate-before-evaluate; "
        "index-space typing of the tables and of gridStep (engine C). Constants/linearity/shift identities are consequences "
        "and are not decided separately; floor conventions are fixed by the stencil rule only. The call in step and the kernel are one unit: "
        "what step hands over (single-assignment locals written out, rows of the tables, loop counter, sizes) is substituted for the kernel's "
        "parameters before the comparison, so a wrap / lookup moved between caller and kernel compares equal; an argument that cannot be "
        "followed makes the rule undecided. The meaning of the shift tables is fixed by their reader: when the kernel reads them with "
        "another convention (row = i - g(shifts[j]), point = theta_k + h(thetaShifts[j])) the effective shifts g, h of the stored formulas are "
        "compared with the property (a consistent change of sign/offset holds, a one-sided one is reported with both sides). The guard of "
        "a radial cut is read as a conjunction of facts (all equal / all zero / single radius) through not/and/or, np.all/any, ptp, "
        "max==min, unique.")
    chk.in_file(U.ADV)
    from .C05 import normalise_structures
    normalise_structures(chk, U.ADV)
    lagrange_points(chk)
    sibling_geometry(chk)
    kernels(chk)
    step_wiring(chk)
    table_layout(chk)
    flux_index_spaces(chk)
    from .. import lints as _l
    _l.check_cache_keys(chk, U.ADV, "FluxSurfaceAdvection")
    chk.floor("F6-", 10)
    chk.floor("C-", 6)


# --- engine I (pgverif/oneshot.py): one-shot iterators handed out by the grid accessors are walked once per creation and never memoised.
# Run first so that its reports do not depend on the idiom recognition of the rules above.
_run_before_engine_I = run


def run(chk):  # noqa: F811
    from ..oneshot import attach
    attach(chk, [(U.ADV, {"FluxSurfaceAdvection"})])
    _run_before_engine_I(chk)
