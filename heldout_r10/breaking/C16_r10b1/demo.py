import sys, os; sys.path.insert(0, os.getcwd())
# --- fake mpi4py (no MPI library in the sandbox) -----------------------------
import types
_m = types.ModuleType('mpi4py'); _M = types.ModuleType('mpi4py.MPI')
class _Comm:
    def Get_rank(self): return 0
    def Get_size(self): return 1
_M.Comm = _Comm; _M.COMM_WORLD = _Comm(); _M.DOUBLE = 'd'; _M.MIN = 'min'; _M.MAX = 'max'
_m.MPI = _M; sys.modules['mpi4py'] = _m; sys.modules['mpi4py.MPI'] = _M

import numpy as np
from scipy.interpolate import BSpline
import pygyro
assert os.path.abspath(pygyro.__file__).startswith(os.path.abspath(os.getcwd()) + os.sep), pygyro.__file__
from pygyro.splines.splines import BSplines, make_knots
from pygyro.initialisation.constants import Constants
from pygyro.initialisation.initialiser_funcs import f_eq
from pygyro.poisson.poisson_solver import DensityFinder

FAIL = []
def check(ok, msg):
    if not ok:
        FAIL.append(msg); print('VIOLATION:', msg)

class _Layout:
    def __init__(self, dims_order): self.dims_order = dims_order
class StubGrid:
    """Duck-typed stand-in for pygyro.model.grid.Grid: a local block of a
    distributed grid whose r (axis 0) and z (axis 1) ranges start anywhere."""
    def __init__(self, data, dims_order, starts):
        self._f = data; self._lay = _Layout(dims_order); self._starts = starts
        self.currentLayout = 'v_parallel'
    def getLayout(self, name): return self._lay
    def getGlobalIdxVals(self, i): return range(self._starts[i], self._starts[i] + self._f.shape[i])
    def getAllData(self): return self._f

def exact_integral(t, k, x, values, a, b):
    """independent reference: interpolate `values` at `x` in the spline space
    (knots t, degree k) with scipy and integrate the interpolant exactly."""
    A = BSpline.design_matrix(x, t, k).toarray()
    c = np.linalg.solve(A, values)
    return float(BSpline(t, c, k).integrate(a, b))

def make_space(ncells, degree, uniform, vmin=-7.0, vmax=7.0, rng=None):
    if uniform:
        breaks = np.linspace(vmin, vmax, ncells + 1)
    else:
        inner = np.sort(rng.uniform(vmin, vmax, ncells - 1))
        breaks = np.array([vmin, *inner, vmax])
    t = make_knots(breaks, degree, False)
    return BSplines(t, degree, False, uniform), np.asarray(t, dtype=float)

def original_kernel(rho, feq, grid, q, perturbed):
    """verbatim copy of the upstream accumulation order (for bitwise comparison)"""
    n, m, p = rho.shape
    for i in range(n):
        for j in range(m):
            for k in range(p):
                rho[i, j, k] = 0.0
                for l in range(q.shape[0]):
                    if perturbed:
                        rho[i, j, k] += q[l] * (grid[i, j, k, l] - feq[i, l])
                    else:
                        rho[i, j, k] += q[l] * grid[i, j, k, l]

def run(bitwise=False):
    rng = np.random.default_rng(1234)
    constants = Constants()
    cargs = (constants.CN0, constants.kN0, constants.deltaRN0, constants.rp,
             constants.CTi, constants.kTi, constants.deltaRTi)
    nr_glob, nth, nz_glob = 9, 3, 4
    r_glob = np.linspace(constants.rMin, constants.rMax, nr_glob)
    th = np.linspace(0, 2*np.pi, nth, endpoint=False)
    z = np.linspace(0, 1, nz_glob)
    blocks = [((0, 9), (0, 4)), ((0, 4), (0, 2)), ((4, 9), (2, 4)), ((6, 8), (1, 3))]
    for (ncells, degree, uniform) in [(8, 3, True), (21, 3, True), (32, 3, True),
                                      (7, 3, False), (12, 2, False), (10, 4, False)]:
        bspl, t = make_space(ncells, degree, uniform, rng=rng)
        v = np.asarray(bspl.greville, dtype=float)
        nv = v.size
        a, b = t[degree], t[-degree-1]
        eta_grid = [r_glob, th, z, v]
        # two finders built from the SAME v-spline object (the simulation and
        # the tests do this: every DensityFinder gets distribFunc.getSpline(3))
        finders = [DensityFinder(6, bspl, eta_grid, constants),
                   DensityFinder(6, bspl, eta_grid, constants)]
        f_glob = rng.standard_normal((nr_glob, nz_glob, nth, nv))
        g_glob = rng.standard_normal((nr_glob, nz_glob, nth, nv))
        feq_glob = np.array([[f_eq(r, vv, *cargs) for vv in v] for r in r_glob])
        feq_int = np.array([exact_integral(t, degree, v, feq_glob[i], a, b) for i in range(nr_glob)])
        def ref_int(arr):
            out = np.empty(arr.shape[:3])
            for idx in np.ndindex(*arr.shape[:3]):
                out[idx] = exact_integral(t, degree, v, arr[idx], a, b)
            return out
        ref_f, ref_g = ref_int(f_glob), ref_int(g_glob)
        scale = max(1.0, np.abs(ref_f).max(), np.abs(feq_int).max())
        tol = 5e-12 * scale
        tag0 = 'ncells=%d deg=%d uniform=%s' % (ncells, degree, uniform)
        for fi, df in enumerate(finders):
            for dtype in (float, complex):
                for ((r0, r1), (z0, z1)) in blocks:
                    tag = '%s finder#%d %s block r[%d:%d] z[%d:%d]' % (tag0, fi, dtype.__name__, r0, r1, z0, z1)
                    loc = np.ascontiguousarray(f_glob[r0:r1, z0:z1])
                    locg = np.ascontiguousarray(g_glob[r0:r1, z0:z1])
                    grid = StubGrid(loc, (0, 2, 1, 3), (r0, z0, 0, 0))
                    def fresh():
                        # the density grid is re-used every time step: it holds the
                        # leftovers of the previous Poisson solve (FFT => complex)
                        d = rng.standard_normal(loc.shape[:3]).astype(dtype)
                        if dtype is complex:
                            d = d + 1j * rng.standard_normal(loc.shape[:3])
                        return d
                    # total density
                    rho = StubGrid(fresh(), (0, 2, 1), (r0, z0, 0))
                    df.getRho(grid, rho)
                    check(rho.getAllData().dtype == dtype, tag + ': dtype changed')
                    check(np.abs(rho.getAllData() - ref_f[r0:r1, z0:z1]).max() <= tol, tag + ': getRho != exact integral of interpolant (err %.3e)' % np.abs(rho.getAllData() - ref_f[r0:r1, z0:z1]).max())
                    # perturbed density
                    rhop = StubGrid(fresh(), (0, 2, 1), (r0, z0, 0))
                    df.getPerturbedRho(grid, rhop)
                    refp = ref_f[r0:r1, z0:z1] - feq_int[r0:r1, None, None]
                    err = np.abs(rhop.getAllData() - refp).max()
                    check(err <= tol, tag + ': getPerturbedRho != exact integral minus equilibrium (err %.3e)' % err)
                    # the input must not be modified
                    check(np.array_equal(loc, f_glob[r0:r1, z0:z1]), tag + ': distribution modified')
                    # equilibrium -> zero
                    eq_loc = np.repeat(np.repeat(feq_glob[r0:r1, None, None, :], z1-z0, 1), nth, 2).copy()
                    rho0 = StubGrid(fresh(), (0, 2, 1), (r0, z0, 0))
                    df.getPerturbedRho(StubGrid(eq_loc, (0, 2, 1, 3), (r0, z0, 0, 0)), rho0)
                    check(np.abs(rho0.getAllData()).max() <= tol, tag + ': perturbed density of the equilibrium is not 0 (%.3e)' % np.abs(rho0.getAllData()).max())
                    # linearity
                    rl = StubGrid(fresh(), (0, 2, 1), (r0, z0, 0))
                    df.getRho(StubGrid(2.5*loc - 0.75*locg, (0, 2, 1, 3), (r0, z0, 0, 0)), rl)
                    check(np.abs(rl.getAllData() - (2.5*ref_f - 0.75*ref_g)[r0:r1, z0:z1]).max() <= 4*tol, tag + ': not linear')
                    if bitwise:
                        q = np.array(df._quad_coeffs, dtype=float)
                        for pert in (False, True):
                            want = fresh(); got = StubGrid(fresh(), (0, 2, 1), (r0, z0, 0))
                            original_kernel(want, feq_glob[r0:r1], loc, q, pert)
                            (df.getPerturbedRho if pert else df.getRho)(grid, got)
                            check(np.array_equal(want, got.getAllData()), tag + ': not bit-identical to upstream accumulation (perturbed=%s)' % pert)
        # quadrature weights must be the same for both finders and stay so
        check(np.array_equal(finders[0]._quad_coeffs, finders[1]._quad_coeffs), tag0 + ': two finders on the same spline disagree on weights')
        wref = np.array([exact_integral(t, degree, v, e, a, b) for e in np.eye(nv)])
        check(np.abs(np.asarray(finders[0]._quad_coeffs) - wref).max() <= 1e-12*(b-a), tag0 + ': weights != integrals of cardinal splines')
    if FAIL:
        print('%d violation(s)' % len(FAIL)); sys.exit(1)
    print('property C16 holds on all cases'); sys.exit(0)

run(bitwise=False)
