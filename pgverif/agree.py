"""Engine E: sibling / dispatch / argument-role agreement (DESIGN 4.4)."""
from __future__ import annotations

import ast
import re

from .core import src, AnalysisError, parent


def bind_call(call: ast.Call, formals: list[str]):
    """-> dict formal -> actual node (positional then keyword); None if arity does not fit"""
    out = {}
    if len(call.args) > len(formals):
        return None
    for f, a in zip(formals, call.args):
        if isinstance(a, ast.Starred):
            return None
        out[f] = a
    for k in call.keywords:
        if k.arg is None or k.arg not in formals or k.arg in out:
            return None
        out[k.arg] = k.value
    return out


def check_roles(chk, rel, func, call: ast.Call, formals: list[str], table: dict, const_recv: str | None = None):
    """every actual whose role is known binds the formal of that role.
    `table`: normalised actual source -> formal name; actuals `<const_recv>.X` bind formal X
    (case-insensitive)."""
    b = bind_call(call, formals)
    name = src(call.func)
    if b is None:
        chk.ob("E2-arity", call, f"{name}(...)", False, f"argument list does not fit the signature ({len(call.args)} "
               f"positional for {len(formals)} parameters)", file=rel, func=func)
        return
    missing = [f for f in formals if f not in b]
    n = 0
    for f, a in b.items():
        s = src(a)
        want = None
        if const_recv and s.startswith(const_recv + "."):
            want = s[len(const_recv) + 1:]
            ok = want.lower() == f.lower()
        elif s in table:
            want = table[s]
            ok = want == f
        else:
            continue
        n += 1
        chk.ob("E2-argument-role", a, f"{name}: {f} <- {s}", ok,
               f"actual `{s}` has role `{want}` and binds parameter `{f}`" +
               ("" if ok else " - arguments are in the wrong position"), file=rel, func=func)
    return n, missing


def _stem(name):
    for p in ("cu_", "nu_"):
        if name.startswith(p):
            return p, name[len(p):]
    return None, name


def check_wrapper_dispatch(chk, mod, wrapper: str, general: str):
    """`if cubic_uniform_splines: general(args..., cu_X, cu_Y) else: general(args..., nu_X, nu_Y)`:
    both arms call the same general routine with identical arguments except a matched cu_/nu_ pair,
    and the forwarded arguments bind the general routine's formals of the same name."""
    rel = mod.rel
    fn = mod.func(wrapper)
    g = mod.func(general)
    chk.functions.add(f"{rel}:{wrapper}")
    ifs = [n for n in fn.body if isinstance(n, ast.If)]
    if len(ifs) != 1:
        raise AnalysisError(f"dispatch wrapper {wrapper} is not a single if/else")
    node = ifs[0]
    okt = isinstance(node.test, ast.Name) and node.test.id in [a.arg for a in fn.args.args]
    calls = []
    for arm in (node.body, node.orelse):
        cs = [s.value for s in arm if isinstance(s, ast.Expr) and isinstance(s.value, ast.Call)]
        if len(cs) != 1 or len(arm) != 1:
            chk.ob("E1-dispatch", node, wrapper, False, "an arm of the dispatch is not a single call", file=rel, func=wrapper)
            return
        calls.append(cs[0])
    a, b = calls
    gformals = [x.arg for x in g.args.args]
    same_callee = src(a.func) == src(b.func) == general
    ok = okt and same_callee and len(a.args) == len(b.args) == len(gformals) and not a.keywords and not b.keywords
    detail = []
    if ok:
        for k, (x, y) in enumerate(zip(a.args, b.args)):
            sx, sy = src(x), src(y)
            f = gformals[k]
            if sx == sy:
                if isinstance(x, ast.Name) and x.id != f:
                    ok = False
                    detail.append(f"`{sx}` is forwarded to parameter `{f}`")
                continue
            px, stx = _stem(sx)
            py, sty = _stem(sy)
            if not (px == "cu_" and py == "nu_" and stx == sty and f == stx):
                ok = False
                detail.append(f"arms differ at parameter `{f}`: `{sx}` vs `{sy}` (expected the cu_/nu_ pair of `{f}`)")
    else:
        detail.append(f"test ok={okt}, same callee={same_callee}, arities {len(a.args)}/{len(b.args)}/{len(gformals)}")
    chk.ob("E1-dispatch", node, f"{wrapper} -> {general}", ok,
           "both families get the same arguments in the same order; the evaluator pair is matched cu_/nu_ of one stem; "
           "the fast path is taken iff the basis is cubic uniform" if ok else "; ".join(detail), file=rel, func=wrapper)


def dispatch_sites(fn: ast.FunctionDef):
    """`if <x>.cubic_uniform: cu_f(args) else: nu_f(args)` sites in a function"""
    out = []
    for n in ast.walk(fn):
        if isinstance(n, ast.If) and re.search(r"cubic_uniform", src(n.test)) and len(n.body) == 1 and len(n.orelse) == 1:
            def call_of(st):
                v = getattr(st, "value", None)
                return v if isinstance(v, ast.Call) else None
            ca, cb = call_of(n.body[0]), call_of(n.orelse[0])
            if ca is not None and cb is not None and isinstance(ca.func, ast.Name) and isinstance(cb.func, ast.Name):
                out.append((n, ca, cb))
    return out


def check_dispatch_site(chk, rel, func, node, ca, cb, sigs):
    pa, sa = _stem(ca.func.id)
    pb, sb = _stem(cb.func.id)
    ok = pa == "cu_" and pb == "nu_" and sa == sb
    why = []
    if not ok:
        why.append(f"arms call `{ca.func.id}` / `{cb.func.id}`: not the cu_/nu_ pair of one routine on the (fast, general) arms")
    # same statement shape (both assign to the same target or both are expression statements)
    ta = src(node.body[0].targets[0]) if isinstance(node.body[0], ast.Assign) else None
    tb = src(node.orelse[0].targets[0]) if isinstance(node.orelse[0], ast.Assign) else None
    if ta != tb:
        ok = False
        why.append(f"results go to different targets `{ta}` / `{tb}`")
    if [src(x) for x in ca.args] != [src(x) for x in cb.args] or \
            [(k.arg, src(k.value)) for k in ca.keywords] != [(k.arg, src(k.value)) for k in cb.keywords]:
        ok = False
        why.append("argument lists differ between the two families")
    fa, fb = sigs.get(ca.func.id), sigs.get(cb.func.id)
    if fa is not None and fb is not None:
        # signatures agree (names, order, defaults)
        if [x[0] for x in fa] != [x[0] for x in fb] or [x[1] for x in fa] != [x[1] for x in fb]:
            ok = False
            why.append(f"signatures of the pair differ: {fa} vs {fb}")
    chk.ob("E1-dispatch", node, f"{ca.func.id}/{cb.func.id}", ok,
           "matched cu_/nu_ pair, identical arguments, agreeing signatures" if ok else "; ".join(why),
           file=rel, func=func)


def signature(fn: ast.FunctionDef):
    args = fn.args.args
    nd = len(fn.args.defaults)
    out = []
    for i, a in enumerate(args):
        d = None
        if i >= len(args) - nd:
            d = src(fn.args.defaults[i - (len(args) - nd)])
        out.append((a.arg, d))
    return out
