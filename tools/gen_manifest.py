#!/venv/bin/python
"""Regenerates /verif/MANIFEST.json from the table below (claimed = a props/Cxx.py module exists
and is listed in CLAIMS)."""
import json
import os
import sys

ROOT = os.path.dirname(os.path.dirname(os.path.abspath(__file__)))

TRUST = ("Trusted base: CPython ast parser, the pgverif resolver/engines (their unresolved sets and instance "
         "floors are printed in the evidence), library contracts of numpy/mpi4py/h5py/scipy listed in DESIGN.md "
         "section 3; sympy (from the repository's own environment) as the polynomial normaliser where used. "
         "Caller preconditions taken from the property texts (distinct non-overlapping buffers, 1<=p<=n, "
         "rank-uniform documented arguments).")

CLAIMS = {
    "C01": dict(
        text="Field-location flow (abstract interpretation over buffer names) through LayoutHandler.transpose and all "
             "callees for buf in {None, given} x route lengths 1..7 (result shown 2-periodic in the length) x all branch "
             "outcomes: the field ends in `dest`, no stale read or clobber, `source` is never written when a spare "
             "buffer is given, layout book-keeping advances with the data, copy extents match the data's layout; "
             "symbolic shape-list agreement of buffer sizing / packer / unpacker; communicator and axis agreement; "
             "axis-role discipline after the 0<->axis[0] reordering; permutation-word typing of every np.transpose. "
             "These are necessary structural conditions of 'the global field is unchanged'; element-level index "
             "arithmetic beyond the permutation typing, and dtype coverage, are not decided.",
        technique="abstract interpretation over buffer/layout names + symbolic shape lists + free-group permutation typing (AST)",
        design="5/C01, 4.3"),
    "C02": dict(
        text="Layout.__init__: the block table is computed in integer arithmetic only; its symbolic form normalises to 0 at rank "
             "0 and to n at rank p and is a recognised balanced form floor(n/p)k + floor((n mod p)k/p); starts, ends, lengths and "
             "shape are slices/differences of that one table; max_block_shape = ceil(n/p). Grid accessors: layout-axis vs "
             "dimension sort inference on every parameter and subscript, coordinate slices cut the table of the dimension "
             "carried by the axis, no read of an undefined attribute. Advertised buffer sizes cover the views of the "
             "transposes (shape-list agreement shared with C01/C03) and Grid allocates all buffers with that size. The "
             "arithmetic fact 'lengths differ by at most one' is decided only through the recognised form.",
        technique="symbolic reading of Layout.__init__ into sympy expressions compared in an n = q*p + r normal form + axis/dimension sort inference + undefined-attribute and derived-state lints",
        design="5/C02"),
    "C03": dict(
        text="Same field-location flow for LayoutSwapper.transpose (same-group, scatter, gather, multi-step; with and "
             "without buffer), current-manager typestate at every exit, index-ownership typing of all 6 getAxes call "
             "sites (each returned axis only indexes tables/communicators of the layout it was computed for; the "
             "scattered argument is the more distributed layout under the enclosing guard), Allgather geometry "
             "(uniform padded counts, unpack with the sender's true block shape, placement by the source partition, "
             "Allgather not Gather), scatter slice, buffer sizing, permutation typing. The communicator-matching "
             "heuristic of __init__ and element-level placement are not decided.",
        technique="abstract interpretation over buffer/layout/manager names + forward substitution of gather/scatter arms into symbolic segment/shape values + index-ownership typing",
        design="5/C03, 4.3"),
    "C04": dict(
        text="Exhaustive typestate enumeration of a model extracted from the AST of Grid's methods on every run: all "
             "states reachable under all sequences of setLayout/overwrite/save/free/restore from both constructors are "
             "compared with the single-array specification (index permutation, visible field and layout, view "
             "coherence, save protection, refusals before mutation), with LayoutManager.transpose replaced by its "
             "contract, which is discharged in the same run by the C01/C03 flow analysis; plus buffer allocation "
             "agreement and the driver's save/restore protocol. Data values are not modelled.",
        technique="typestate extraction from the AST + exhaustive enumeration of the finite abstract state space",
        design="5/C04, 4.3"),
    "C05": dict(
        text="Index-space and window typing (abstract interpretation with tags local/global index, layout axis/dimension, "
             "Local/Global/Prefix window per array axis) of every table look-up, slice selection and kernel argument of the "
             "grid-level operators (flux-surface, v-parallel and poloidal advection, parallel gradient, density integration, "
             "per-mode solver, initialisers), with table signatures derived from the constructors and index requirements of "
             "per-slice routines derived from their own look-ups; plus the driver layout typestate (every grid is in the "
             "layout its callee asserts at each operator call; restore returns to the saved layout; the loop body is "
             "layout-invariant). Decides the necessary condition 'each local slice uses the parameters of its own global "
             "coordinates'; equality of parallel and serial numerical results is not decided.",
        technique="index-space/window type inference over the AST + layout typestate over the driver's call sequence",
        design="5/C05, 4.2"),
    "C07": dict(
        text="For each of the 10 evaluators (both families) and every derivative-flag combination (32 cases) the returned value is "
             "extracted by symbolic forward substitution and equals the contraction of the coefficient window [span-degree, span] with "
             "the value/derivative basis routine applied to knots, degree, point and span (cell size) of the same dimension; the "
             "uniform cubic basis equals the cardinal cubic B-spline pieces, sums to 1, has non-negative Bernstein coefficients, its "
             "derivative routine is d/dx of it and sums to 0; uniform span search incl. the right end point; fast/general dispatch "
             "agreement (matched pairs, identical arguments, agreeing signatures, 6 sites + collocation matrix); periodic wrap of unit "
             "coefficient vectors; evaluators never write into the coefficient array. The Cox-de Boor recursion and the binary span "
             "search (data-dependent loops) and 'one ulp inside' behaviour are not decided.",
        technique="symbolic forward substitution with sum normal forms + polynomial identities (sympy) + dispatch/signature agreement + alias lint",
        design="5/C07"),
    "C08": dict(
        text="Narrow structural claim: collocation matrix built from one basis; factorisation and solve selected as a pair by dtype "
             "equality and fed with each other's factors; periodic solves followed by the coefficient wrap; in 2-D each sweep uses the "
             "tools of its own dimension and both wraps cover the full extent of the other dimension, in the right order. The defining "
             "identity S(x_i)=u_i, polynomial reproduction and conditioning are numerical and are not decided.",
        technique="region typestate analysis of the 2-D interpolant (abstract buffers with labelled axes and symbolic cut points) + structural pairing/ordering rules + symbolic band-storage comparison",
        design="5/C08"),
    "C09": dict(
        text="Narrow mechanism claim: weights = transposed solve, with the interpolation factorisation, of the stored basis integrals "
             "(periodic: integrals of the wrapped copies folded onto the first p entries of a copy); stored integrals are never "
             "mutated; uniform-cubic interior integrals are dx and the auxiliary construction of the boundary integrals is translation "
             "invariant (symbolic). Correctness of _build_integrals for non-uniform periodic spaces and 1-2 cell uniform cubic spaces "
             "(the defects quoted in the property) is numerical and is NOT claimed.",
        technique="rules on syntactically specialised methods (by periodicity/family) + alias/mutation and memo-key lints + symbolic translation-invariance and bound comparison (sympy)",
        design="5/C09"),
    "C10": dict(
        text="Element-wise model of FluxSurfaceAdvection._getLagrangePts compared with the stated geometry (b_z, theta shift per "
             "cell, foot displacement -v b_z dt, stencil cells centred on the foot, theta shifts, node distances, first "
             "barycentric weights with an exact on-node case); sibling agreement of b_z and pitch with ParallelGradient and "
             "fieldline; table writer/reader agreement of the two kernels by symbolic forward substitution; dispatch, argument "
             "roles, interpolate-before-evaluate, no mutation of the per-(r,v) tables; index-space typing of the tables and of "
             "gridStep. The algebraic identities (constants, linearity, shift commutation) are consequences and are not "
             "decided separately.",
        technique="element-wise numpy-to-formula normal forms (sympy) + symbolic forward substitution + index-space typing",
        design="5/C10"),
    "C13": dict(
        text="Finite-difference moment system, field-line angle table, equality of the three index regimes and tiling of [0,nz), "
             "pairing of shift/coefficient/angle column and target row in the scatter-add, single scaling by b_z(r_i)/dz, sibling "
             "agreement of b_z and pitch with the flux-surface advection, no mutation of the precomputed tables, and index-space "
             "typing of the per-radius tables and of the grid-level caller. Convergence order is not decided.",
        technique="def-use flow model of the gradient methods compared as sympy normal forms + element-wise normal forms + alias/mutation and cache-key lints + index-space typing",
        design="5/C13"),
    "C11": dict(
        text="Formula conformance by symbolic forward substitution: per boundary mode the kernel's assignment equals "
             "ITE(foot outside, fill, S(foot)) resp. S(periodically shifted foot); feet normalise to v_node - c*dt; mode "
             "code table agrees between constructor and kernel; dispatch and argument roles; interpolate-before-evaluate; "
             "index-space typing of the grid-level loops (gradient table and radius of the line being advanced). "
             "Interpolation accuracy is not decided.",
        technique="symbolic forward substitution to normal forms (sympy as normaliser) + index-space typing",
        design="5/C11, 4.5"),
    "C12": dict(
        text="Formula conformance by symbolic forward substitution of both poloidal kernels: predictor, Heun corrector with "
             "the out-of-domain zero, boundary fill (null / f_eq at inner radius / f_eq at the foot), implicit fixed-point map "
             "with clipping and halved factor, convergence measure and loop test, compared as rational functions and "
             "conditionals (truth table over canonicalised comparisons) with the specification written from the property "
             "statement; dispatch and 33-argument role agreement at the call sites. Termination, accuracy order and "
             "rigid-rotation exactness are not decided.",
        technique="symbolic forward substitution to normal forms (sympy as normaliser) + call-site role agreement",
        design="5/C12, 4.5"),
    "C14": dict(
        text="Element-wise model of the finite-element assembly: each quadrature integrand of DiffEqSolver.__init__ is parsed "
             "into a polynomial over {weights, half-width, A..E, phi, phi', psi, psi', r} and compared with the weak form of "
             "A phi'' + B phi' + C phi - m^2 D phi = E rho in cylindrical measure (integration by parts of the A term, derivative "
             "on the trial/column function on the upper and the mirrored diagonal); operator composition; mode numbers squared "
             "after the boundary tables; Dirichlet coefficients reset inside every per-mode loop before the solve; per-mode "
             "operator with the global mode index; right-hand side, evaluation; pure-Neumann refusal before assembly; index-space "
             "typing of the per-mode tables. Quadrature exactness, the sparse solve and evaluation accuracy are not decided.",
        technique="integrand polynomial normal forms (sympy) + structural def-use/ordering rules + index-space typing",
        design="5/C14"),
    "C15": dict(
        text="fft/ifft pairing along theta in place on the asserted layouts; mode numbers in the transform's output order for "
             "even and odd counts; quasi-neutrality coefficient functions compared as rational functions of r with the equation "
             "of the property; boundary and m=0/chi convention; per-mode book-keeping; index spaces of the mode tables; the "
             "driver's layout typestate and the spectral typestate (real/modes) of rho and phi along the pipeline. Realness, "
             "zero potential at equilibrium and the fixed point are numerical and not decided.",
        technique="rational-function normal forms (sympy) + typestate over the driver's call sequence + index-space typing",
        design="5/C15"),
    "C16": dict(
        text="The density kernels' assignment is extracted as sum_l w_l (f[i,j,k,l] - f_eq[i,l]) (resp. without f_eq) and feq_vector "
             "as f_eq(r_i, v_j); the equilibrium table is [global r, global v] and is looked up with the global radial indices of "
             "the local block; all kernel arguments indexed by one loop variable cover the same index range; weights come from "
             "the interpolator of the v spline (= last axis of the asserted layout); the weight computation does not mutate the "
             "basis' stored integrals. Exactness on the spline space (C09's numerical part) is not decided.",
        technique="symbolic forward substitution (sum normal form) + index-space typing + alias/mutation lint",
        design="5/C16"),
    "C17": dict(
        text="Engine C on the four diagnostic constructors (local weights are the [start:end) windows of the global trapezoid weights "
             "on the axes carrying r and v; the C-order fill of the (r,v) outer product distinguishes the two axis orders); trapezoid "
             "weights, r Jacobian, dq dz (and v^2/2) and the four integrands as normal forms agreeing across the sibling classes; "
             "rows/ops/arrays/column order of DiagnosticCollector with sqrt only after reduction; neutral elements, ownership latch and "
             "global-to-local index conversion of Grid.getMin/getMax. The slot<->step relation and analytic volume factors are not decided.",
        technique="abstract interpretation of the weight constructors over region-wise vectors/windows/outer products + symbolic integrands + producer/consumer table agreement + purity lints",
        design="5/C17"),
    "C18": dict(
        text="Writer/reader agreement of the checkpoint format (dataset path, Layout attribute, hyperslab by the layout's starts/ends on "
             "write and on both read paths, layout guard), the file-name family (fixed-width time: format, glob, parser, lexicographic max "
             "= latest, 'latest' only when no time is requested), constants round trip (property setters commute - 2 known findings -, "
             "defaults applied after the file, dependency-ordered deferral), zero-divisor dataflow and restart book-keeping of the driver. "
             "Bit-exact HDF5 round trip and equality of split and unsplit runs are not decided; collective matching of the HDF5 calls "
             "is C06.",
        technique="abstract file-name templates with format specs + classification of selection/request/printer expressions + modular normal form of save conditions + setter write-set commutation + reaching-definition lint",
        design="5/C18"),
    "C19": dict(
        text="Compile-fail witness: the repository's own compiler front end (pyccel -t; thorough: the documented make for Fortran and "
             "C) accepts the five kernels of the working tree on a scratch copy; every library call site of a kernel fits its signature; "
             "numba/pythran copies define the consumer-imported names (1 known finding) with identical parameter lists and export "
             "arities; each variant body is AST-identical to the reference after normalisation or is proved against the same "
             "specification formula as the reference (engine F, helpers inlined); no kernel index relies on negative wrap-around. "
             "Numerical equality of compiled and interpreted results is inherently dynamic and is not decided.",
        technique="compiler front end as type checker + canonical-form/variant equivalence ladder + symbolic specification conformance + index analysis for Python/compiled divergences",
        design="5/C19"),
    "C20": dict(
        text="Narrow structural claim: per process-grid direction the dimensions under the bounding min() equal the dimensions the "
             "standard layouts distribute along it; set-up call sites; the failure test after the divisor search is the negated loop "
             "bound; the second extent is the exact quotient by a divisor; candidates are accepted only within both bounds. "
             "Termination, optimality and exactness of the error condition over the whole input space are not decided.",
        technique="producer/consumer set agreement + divisor-scan recogniser on a local normal form + path-condition collection + state-preserving-path (non-termination) and memoised-result lints",
        design="5/C20"),
    "C06": dict(
        text="Static SPMD collective matching: every collective call site (35 today) and every call chain to it is "
             "shown to be control dependent only on rank-uniform conditions, or to lie in a region whose alternatives "
             "issue identical collective sequences (op, communicator, root, reduction op); loop trip conditions and "
             "roots are uniform; parameters influencing such guards are uniform at all call sites (interprocedural); "
             "the hash-ordered choice in the route search is compensated by a total-order tie-break. This decides the "
             "statically visible necessary conditions of 'same sequence on all ranks for all schedules'; MPI runtime "
             "behaviour and the plotter GUI protocol are not covered.",
        technique="rank-variation label dataflow + balanced-arm trace comparison over the AST (custom SPMD lint)",
        design="5/C06, 4.1"),
}

NOT_YET = "no sound static rule built for this property yet in this framework (fail-closed: not claimed)"

NA = {}

# reworks of the third round (DESIGN.md section 5)
ROUND3 = {'C01': 'all G-rules are three-valued and work on resolved expressions (the block-size variable is found by its role, temporaries are written out before the symbolic product comparison, arguments are bound by parameter name); new G1-unpacker-offset (received block r sits at r x padded block length in the receive buffer), G1 buffer-size independence diagnosis, G2-no-shared-mutation on everything a Layout hands out, G3-axis-index-space (axis[1] indexes source tables only, axis[2] destination tables only), D1-distinct-buffers (no array parameter bound to another one). A private behaviour-preserving `normal_view` of each function (early return -> else, `x = f(x)` renamed) feeds the permutation engine.',
          'C02': '`Layout.__init__` is read symbolically (`SplitModel`: entries are sympy expressions in n, p, k; zip/enumerate/range headers, divmod, np.diff, slices, padding forms) and compared in a normal form with n = q p + r: VIOLATED only for a clearly different value (floor-free polynomial difference, difference when p divides n, min/max remainder distribution), otherwise UNDECIDED; G4-layout-derived-state follows aliases and helpers; accessors C-sort rules accept the zip form.',
          'C03': "gather and scatter arms are read by forward substitution into symbolic values (`SymArm`: buffer segments, shape/slice lists with overrides, pieces of np.split, views, transposes, the rank-loop index as a symbol) and compared with the specification (counts, communicator, trip count, chunk offset/extent, view with the sender's true shape, placement) independently of temporaries, helpers, slicing idiom, hoisting or arm order; recognised wrong forms include the own-block shortcut and explicit MPI counts with MPI.DOUBLE.", 'C04': 'allocation agreement three-valued (list and comprehension forms, `[x]*n` aliasing diagnosed); the typestate model understands conditional expressions, buffer comprehensions, whole-view reshapes and np.copyto, and turns a store of an unrecognised value or an uninterpretable method into UNDECIDED instead of a destroyed buffer.',
          'C05': 'inherited and template methods are resolved through the class chain; `gridStep` delegating to `gridStepKeepGradient` is followed; the z-regime tiling of the parallel gradient (shared with C13) is part of this property; engine-derived verdicts are UNDECIDED when the engine found no tag.',
          'C06': "B4 is a guard analysis of every store into the route map inside the loop of the unordered choice (HOLDS when each store is reached only under 'strictly shorter' or 'equally long and candidate < stored', both directions stored); the SPMD engine tracks the PRESENCE of a local (`buf is None`) apart from its content, does not let a rank-dependent early return taint values assigned later, requires a guard to be uniform only if its alternatives issue different flat collective sequences (calls expanded through callee summaries), and treats loops over literal tables as uniform.", 'C07': 'entry points are read through a syntactic `Specialiser` (own-method calls inlined, locals bound to attribute chains replaced, branches on given boolean facts taken, guard clauses as if/else); dispatch sites are recognised as statement, conditional expression or selected callable; E2-evaluation-point (a fold/clamp of the evaluation point before the kernel is VIOLATED); the uniform span search is decided by engine F on the returned pair; scratch arrays carry their allocated length.',
          'C08': '2-D `compute_interpolant` is decided by a region typestate analysis: every array is an abstract buffer with axes labelled x1/x2, index ranges cut at symbolic points (0, p, n, n+p) ordered by a linear argument, block states stale/data/solved-x1/solved-x2/final/misplaced, transfer functions for slices, transposition, copies, row/column loops and the two 1-D solves, run on the four periodic/clamped combinations; band storage and column rules are compared symbolically; H1-collocation-accumulate, H5-work-dtype and a shared-factors rule (table keyed without a constructor parameter the value depends on) added.',
          'C09': 'rules run on `get_quadrature_coefficients` / `_build_integrals` specialised by (cubic_uniform, periodic); the periodic fold is classified (bounds symbolic, copy vs view, order); Q3 rules state the repaired forms (integrals reduced at both ends; one formula for all unwrapped functions) and diagnose the pre-fix forms; Q3-integrals-not-memoised (a memo table keyed on a summary of the break points).',
          'C10': "`_getLagrangePts` is flattened (with-blocks, static helpers, integer constants) before the element-wise model; each quantity is compared with the formula applied to the code's own upstream values (one wrong definition, one violation); stencil centring decided symbolically by parity; `round`, `astype(int)`, `.size` modelled; the table writer's loop variables are taken from the written cell.", 'C11': 'feet decided with the element-wise model (HOLDS for nodes - c dt, the pre-fold with `%`/np.mod into [vMin, vMax) diagnosed); the truth-table comparison knows the exit conditions of the shift loops, so a merged boundary loop is proved equal; interpolate-before-evaluate structural; G5-cache-key.',
          'C12': 'formula comparison by layered case analysis with atom merging and unified shape symbols; mismatches are matched against named wrong variants (drift divided by the node radius, dt*B0, equilibrium at the foot, cells never written in this call); F1-convergence-reset, F1-sweep-range, E2-work-array-storage (the eight work arrays are distinct storage), E2-arity with local tuples unpacked; F1-iteration-bounded (known finding).',
          'C13': 'rules work on a small flow model of the three methods (locals by def-use, loops as row/stencil frames, stores into the result and the angle table with their frames) compared as sympy normal forms: finite-difference system incl. forward/backward steps as functions of n, theta table in loop or vectorised form, tiling of [0, nz) for any number of row loops, one obligation per accumulation (row, weight, angle column, radius index, clearing), total scaling = b_z(i)/dz however it is folded.',
          'C14': 'methods are read through flat views (helpers the reference tree does not have written back, class hierarchy and callable arguments followed) with local names expanded by reaching definitions; assembly indexing is semantic (list entry L lands on offset k or -k given the diags range); weak form decided at operator level over block coefficient vectors; F4-quadrature-order (2n-1 >= requested degree); solve and evaluation structural with named wrong forms.',
          'C15': "transform pair resolved through imports (nested-loop, one-statement and reshaped-rows forms); coefficient lambdas compared symbolically with the electron branch taken from the test's polarity; m=0 operator per configuration over block coefficient vectors; F5-equilibrium-cancellation (the equilibrium must go through the same quadrature as f); spectral-state typestate of the driver follows local functions.", 'C16': 'hoisted kernel views are written back before extraction; E3-equilibrium-same-quadrature; E2-output-storage; feq/weights roles three-valued with local temporaries resolved.',
          'C17': "the four diagnostic constructors are read by an abstract interpreter over region-wise vectors in global and local frames ('engine W': [start:end) windows, outer products, shape lists, reshape/.flat fills, helper functions and tuple returns), one run per axis order; integrands symbolic with f = a + ib; collector rules structural (rows, class/layout/argument of each row, op and result array, sqrt after the sums, column order); extrema by path classification; E7-query-purity; G2-coordinates-read-only.", 'C18': "file names are abstract templates (literal text plus fields with format specs; str.format, f-strings, %-formatting, join, zfill) compared between writer, loader and restart, zero padding stated with its width assumption; the latest-checkpoint expression is classified (largest name vs mtime/min/unsorted); explicit-time detection classified (presence test vs truth value); `__str__` classified (source of attributes, filters, entry template, frame); save conditions in a modular normal form 'v + off = a (mod M)' shifted by the position of the increment, a run-local counter diagnosed; with-blocks spliced and local functions written back on a work copy.", 'C19': 'K1 is an index analysis (elements of int[:] arguments are array data; `%` or a while-wrap HOLDS; upper-end-only corrections, never-reduced differences, variable negative offsets VIOLATED); variant bodies decided through a ladder (AST-identical, identical in a canonical form that undoes hoisting/early returns/accumulators/loop forms, engine F against the specification, same statement skeleton with expressions compared pairwise, else UNDECIDED); V2-export-types; V5 also on the reference kernels; the build witness is VIOLATED only on a pyccel source diagnosis.',
          'C20': 'rules run on a local normal form (tuple assignments split, constant locals written back, integer comparisons canonicalised) independent of local names: bounds extracted from the call however written, generic divisor-scan recogniser judged against the specification bound min(mpi_size, max_proc1), path conditions collected at the acceptance, N3 with constant tests filtered and the monotonicity discharge, N4 first so that its verdict survives an unrecognised search.'}

# rules added after the second round of independently written breaking changes (DESIGN.md section 5)
ADDED = {'C01': 'G2-no-shared-mutation: the transposes only read the cached route map/layout tables (no `.pop()`, store or in-place update through an alias).',
         'C02': "G4-layout-derived-state: every attribute of Grid computed from `self._layout` is refreshed by every method that rebinds `self._layout`; G4-bufsize-handler-block: in LayoutHandler.__init__ the exchange block of every connected pair starts from that pair's own local shape.", 'C03': "A1-communicator-identity: getAxes/_compatibleLayout match the handlers' communicators as objects, not by size; G2-no-shared-mutation as in C01; gather/scatter/constructor geometry as structural templates.", 'C04': "re-decides the handler's element-placement contract (G1–G3, P1 of C01) and G4-layout-derived-state, since 'layout changes never alter the field' rests on them.", 'C05': 'C-cache-distinct / C-cache-index-space: the per-z potential splines of PoloidalAdvection are distinct objects and are written (gridStep) and read (gridStep_SplinesUnchanged) in one index space; E2-gradient-out-param: ParallelGradient.parallel_gradient leaves its result in the array the caller hands in.',
         'C06': "B5-gatherv-geometry: the root's receive buffer has exactly the sum of the gathered counts, displacements are their exclusive prefix sums, every member reports the size of the array it then sends; a kept receive buffer re-allocated under the wrong comparison is diagnosed.", 'C07': "accumulation onto a never-initialised cell is the cell's initial content plus the sum (reported as a difference from the specification).", 'C08': 'uniform auxiliary knot vectors recognised through `linspace`, `a + dx*arange(n)` forms; origin and spacing compared symbolically.',
         'C10': 'G5-cache-key on every method of FluxSurfaceAdvection; `round`, `ceil`, `len`, `.size` in the element-wise model (periodic reduction of the displacement is reported against the formula).',
         'C11': 'G5-cache-key on VParallelAdvection; E2-gradient-out-param (shared with C05).',
         'C12': 'G5-cache-key; C-cache-* of C05; the fixed-point iteration is executed symbolically with all predictor-phase locals in scope.',
         'C13': 'G5-cache-key; theta table and accumulation statement as structural templates with piecewise diagnoses.',
         'C14': 'F4-weak-form-operator: the assembled theta-independent operator, as a signed sum of the extracted block integrands, equals the weak form (a block stored with the opposite sign is a convention, decided at operator level); F4-mode-power: coefficient of the k2 block is −m², counting the squaring in the constructor; F5-mode-numbers (shared with C15); F5-m0-convention (shared with C15); F4-output-complete: no path of the z loop skips the store into phi.',
         'C15': 'F5-m0-convention on coefficient vectors over the assembled blocks, per assignment and per value of chi (handles `stiffnessMatrix - chi*block` forms); F4-mode-power at the three operator sites incl. QuasiNeutralitySolver.solveEquation; F4-output-complete.',
         'C16': 'E2-output-storage: the kernels write the whole storage of the density grid (`.real`/`.imag`/sliced views are diagnosed).',
         'C17': 'K2-loop-variable-after-loop (Python keeps the last value taken, compiled loops the first not taken); K1 extended to single-step periodic corrections of a subtracted index; V5-inputs-not-written: arrays the reference declares `Final` are not written by a numba/pythran copy, also not through a view or inside copy-only helper functions.',
         'C20': "N1-call-site: the process count is the size of the communicator the layouts are built on; N3-no-stuck-iteration: no iteration path of a search loop reaches the back edge with the loop-carried state unchanged (the one such path of today's code is discharged by the monotonicity argument, which is accepted only while the statements carrying it are recognised); N4-pure-search: no in-place change of a memoised result, no global state."}


def _round_notes():
    try:
        return json.load(open(os.path.join(ROOT, "tools", "round_notes.json")))
    except (OSError, ValueError):
        return {}


def main():
    RN = _round_notes()
    props = [json.loads(l) for l in open(os.path.join(ROOT, "properties.jsonl"))]
    checks = []
    na = []
    for p in props:
        pid = p["id"]
        if pid in CLAIMS and os.path.exists(os.path.join(ROOT, "pgverif", "props", f"{pid}.py")):
            c = CLAIMS[pid]
            checks.append({
                "property_id": pid,
                "quick_cmd": f"/venv/bin/python -m pgverif check {pid} --tier quick",
                "thorough_cmd": f"/venv/bin/python -m pgverif check {pid} --tier thorough",
                "thorough_note": "quick tier, then the checker's self-test for this property: nine behaviour-preserving rewrites of the "
                                 "working tree must stay silent and every recorded breaking change of the property must be reported",
                "evidence_file": f"/verif/evidence/{pid}.json",
                "replay_cmd_template": f"/venv/bin/python -m pgverif check {pid} --tier quick  # replay file {{path}} names the obligation",
                "engine": "pgverif",
                "level_claimed": {"category": "other", "text": c["text"] + (" Also decided: " + ADDED[pid] if pid in ADDED else "") + (" Round 3: " + ROUND3[pid] if pid in ROUND3 else "") + (" " + RN[pid]["r45"] + " " + RN[pid]["audit"] + " " + RN[pid].get("r89", "") if pid in RN else ""),
                                  "design_ref": c["design"]},
                "level_note": TRUST + " " + c.get("note", ""),
                "technique": c["technique"],
            })
        else:
            na.append({"property_id": pid, "reason": NA.get(pid, NOT_YET)})
    man = {
        "version": 1,
        "setup_cmd": "/venv/bin/python -m pgverif selfcheck",
        "hooks": {"guard": "PYGYRO_VERIF", "enable": "no hooks are needed: the checks only read /repo's sources",
                  "baseline_off_cmd": "cd /repo && /venv/bin/python -m pytest -ra -q -p no:cacheprovider --timeout=900 --continue-on-collection-errors",
                  "source_commits": [], "add_only": True},
        "engines": [{"name": "pgverif", "path": "/verif/pgverif", "serves_properties": [c["property_id"] for c in checks],
                     "kind_free_text": "repository-specific static analysers over Python ast (stdlib), sympy as normaliser"}],
        "checks": checks,
        "notes": "All checks are static: nothing in /repo is imported or executed. Exit 0 = all obligations hold "
                 "(known findings printed), 1 = unlisted violation, 2 = ANALYSIS-ERROR (never a silent pass).",
        "not_applicable": na,
    }
    json.dump(man, open(os.path.join(ROOT, "MANIFEST.json"), "w"), indent=1)
    print(f"MANIFEST: {len(checks)} claimed, {len(na)} not claimed")


if __name__ == "__main__":
    main()
