"""C05 - results do not depend on the process decomposition.

The statically visible necessary condition (second sentence of the property): every
operator applies to each local slice the parameters of that slice's own global
coordinates.  Engine C types every table look-up and slice selection of the grid-level
operators; the driver typestate checks that each grid is in the layout its callee
requires.  The operator sections are reused by C10, C11, C13, C14, C15, C16.
"""
from __future__ import annotations

import ast

from ..core import src, AnalysisError, parent
from .. import units as U
from .. import ispace as I
from ..ispace import Ctx, IS, G, L, arr, OTHER, eta_grid_tag, layout_param, grid_param, dist_dims, tname
from .. import agree


def orders(chk):
    return I.load_layout_tables(chk)


def class_chain(chk, rel, cls):
    """the class and its base classes defined in the same module, most derived first"""
    mod = chk.mod(rel)
    out, seen = [], set()
    todo = [cls]
    while todo:
        c = todo.pop(0)
        if c in seen or not mod.has(c):
            continue
        seen.add(c)
        node = mod.cls(c)
        out.append(node)
        todo += [b.id for b in node.bases if isinstance(b, ast.Name)]
    return out


def method_table(chk, rel, cls):
    """{method name: (defining class name, FunctionDef)} as seen from an instance of `cls` (overrides win)"""
    out = {}
    for node in class_chain(chk, rel, cls):
        for st in node.body:
            if isinstance(st, ast.FunctionDef):
                out.setdefault(st.name, (node.name, st))
    return out


def resolve_method(chk, rel, cls, name):
    """(qualified name of the definition, FunctionDef) of `cls.name`, inherited definitions included"""
    t = method_table(chk, rel, cls)
    if name not in t:
        raise AnalysisError(f"anchor vanished: {rel}:{cls}.{name} (not defined in the class nor in a base class of the module)")
    owner, fn = t[name]
    chk.functions.add(f"{rel}:{owner}.{name}")
    chk.units.add(rel)
    return f"{owner}.{name}", fn


# ------------------------------------------------------------------ operators
def parallel_gradient(chk):
    """ParallelGradient: tables built in __init__, looked up in parallel_gradient(phi_r, i, der)"""
    env = {"eta_grid": eta_grid_tag(), "layout": layout_param(), "constants": ("constants",), "order": OTHER, "spline": OTHER}
    attrs, _ = I.ctor_attrs(chk, U.ADV, "ParallelGradient", env)
    summ, a = I.summary_of(chk, U.ADV, "ParallelGradient", "parallel_gradient", dict(attrs), Ctx(dist_dims={0}))
    return attrs, summ


def flux_surface(chk):
    env = {"eta_grid": eta_grid_tag(), "layout": layout_param(), "constants": ("constants",), "dt": OTHER,
           "splines": OTHER, "zDegree": OTHER}
    attrs, _ = I.ctor_attrs(chk, U.ADV, "FluxSurfaceAdvection", env)
    summ, _ = I.summary_of(chk, U.ADV, "FluxSurfaceAdvection", "step", dict(attrs), Ctx(dist_dims={0, 3}))
    req = summ["req"]
    ok = req.get("cIdx") == ("lidx", 3) and req.get("rIdx") == ("lidx", 0)
    if not ok and (req.get("cIdx") is None or req.get("rIdx") is None):
        ok = None        # the look-ups of step were not followed: nothing is known about the roles
    chk.ob("C-table-roles", chk.func(U.ADV, "FluxSurfaceAdvection.step"), "step(f, cIdx, rIdx)", ok,
           "the shift/coefficient tables are [local r, local v, stencil]; cIdx is the local v index, rIdx the local r index"
           if ok else f"unexpected index requirements of step: { {k: tname(v) for k, v in req.items()} } "
           f"(tables: { {k: tname(v) for k, v in attrs.items() if I.is_arr(v)} })", file=U.ADV, func="FluxSurfaceAdvection.step")
    fn = chk.func(U.ADV, "FluxSurfaceAdvection.gridStep")
    amb = I.ambient_from_asserts(fn)
    o = amb.get("grid")
    if o is None:
        raise AnalysisError("C05: FluxSurfaceAdvection.gridStep no longer asserts its layout")
    ctx = Ctx(dist_dims=dist_dims(o, 2))
    I.run_method(chk, U.ADV, "FluxSurfaceAdvection", "gridStep", {"grid": grid_param(o, 2)}, ctx, dict(attrs), {"step": summ})
    return attrs, summ, o


def v_parallel(chk, pg_summ):
    O = orders(chk)
    o_grid, o_phi = O["v_parallel"], O["v_parallel_1d"]
    ctx = Ctx(dist_dims=dist_dims(o_grid, 2))
    # table allocated by the driver
    dfn = chk.func(U.DRIVER, "main")
    pgv = None
    for n in ast.walk(dfn):
        if isinstance(n, ast.Assign) and isinstance(n.targets[0], ast.Name) and n.targets[0].id == "parGradVals":
            a = IS(chk, U.DRIVER, "main", dfn, {"distribFunc": grid_param(o_grid, 2), "constants": ("constants",)}, ctx, {})
            pgv = a.ev(n.value)
            okw = (pgv[1] == (L(0), G(2), G(1))) if I.is_arr(pgv) and all(w is not None and w[0] in ("G", "L") for w in pgv[1]) else None
            chk.ob("C-table-roles", n, "parGradVals = np.empty([...])", okw,
                   "parallel-gradient table is [local r, global z, global theta]" if okw else
                   f"unexpected table signature {tname(pgv)}", file=U.DRIVER, func="main")
    if pgv is None:
        raise AnalysisError("C05: allocation of parGradVals not found in fullSimulation.main")
    step_summ = {"params": ["f", "dt", "c", "r"], "req": {}}
    analyses = {}
    for m in ("gridStep", "gridStepKeepGradient"):
        fn = chk.func(U.ADV, f"VParallelAdvection.{m}")
        env = {"grid": grid_param(o_grid, 2), "phi": grid_param(o_phi, 1), "parGradVals": pgv,
               "parGrad": ("obj", "ParallelGradient"), "dt": OTHER}
        a = IS(chk, U.ADV, f"VParallelAdvection.{m}", fn, env, ctx, {}, {"step": step_summ})
        a.obj_summaries = {("ParallelGradient", "parallel_gradient"): pg_summ}
        chk.functions.add(f"{U.ADV}:VParallelAdvection.{m}")
        a.run()
        analyses[m] = a
    radius_argument(chk, analyses)
    gradient_out_param(chk)
    return pgv


def gradient_out_param(chk):
    """gridStep fills parGradVals[i] through parallel_gradient's output argument and gridStepKeepGradient reads the table later:
    the array handed in must end up holding the very value the function returns"""
    gs = chk.func(U.ADV, "VParallelAdvection.gridStep")
    pgf = chk.func(U.ADV, "ParallelGradient.parallel_gradient")
    params = [a.arg for a in pgf.args.args if a.arg != "self"]
    calls = [c for c in ast.walk(gs) if isinstance(c, ast.Call) and isinstance(c.func, ast.Attribute) and c.func.attr == "parallel_gradient"]
    if len(calls) != 1:
        raise AnalysisError("C05/C11: the parallel_gradient call of VParallelAdvection.gridStep not found")
    b = agree.bind_call(calls[0], params) or {}
    out = [p_ for p_, a in b.items() if isinstance(a, ast.Subscript) and src(a.value) == "parGradVals"]
    if len(out) != 1:
        chk.ob("E2-gradient-out-param", calls[0], "parGradVals[i] handed to parallel_gradient as output array", None,
               "no argument of the call is a row block of parGradVals", file=U.ADV, func="VParallelAdvection.gridStep")
        return
    o = out[0]
    rets = [r for r in ast.walk(pgf) if isinstance(r, ast.Return) and r.value is not None]
    rebinds = [n for n in ast.walk(pgf) if isinstance(n, ast.Assign) and any(isinstance(t, ast.Name) and t.id == o for t in n.targets)]
    bad = [r for r in rets if not (isinstance(r.value, ast.Name) and r.value.id == o)]
    ok = not bad and not rebinds
    why = (f"`{o}` is only updated in place and is what the function returns: the table row read by gridStepKeepGradient is the gradient "
           "used by gridStep") if ok else \
        (f"`{src(bad[0])}` returns a value that is not the output array `{o}`: the table row keeps a different (unscaled/partial) value, "
         "so gridStepKeepGradient advects with another speed than gridStep" if bad else
         f"`{src(rebinds[0])}` rebinds `{o}`: later updates no longer reach the caller's table row")
    chk.ob("E2-gradient-out-param", bad[0] if bad else (rebinds[0] if rebinds else pgf), f"parallel_gradient leaves its result in `{o}`", ok, why,
           file=U.ADV, func="ParallelGradient.parallel_gradient")


class _Mute:
    functions = set()

    def ob(self, *a, **k):
        pass


def radius_argument(chk, analyses):
    """the `r` handed to VParallelAdvection.step is the coordinate of the line's own radius"""
    for m, a in analyses.items():
        fn = a.fn
        n = 0
        for c in ast.walk(fn):
            if isinstance(c, ast.Call) and isinstance(c.func, ast.Attribute) and c.func.attr == "step" and src(c.func.value) == "self":
                b = agree.bind_call(c, ["f", "dt", "c", "r"]) or {}
                r = b.get("r")
                t = a.node_tags.get(id(r)) if r is not None else None
                ok = t == ("coord", 0)
                n += 1
                chk.ob("C-coordinate-role", c, f"step(..., r={src(r) if r is not None else '?'}) in {m}", ok if t not in (None, OTHER) else None,
                       "the radius handed to the boundary rule is the r coordinate of the line being advanced" if ok else
                       f"the value handed to the step as radius is {tname(t) if t else 'unknown'}", file=U.ADV, func=f"VParallelAdvection.{m}")
        if n == 0:
            # the advection loop may live in a sibling grid-level method that this one calls with the grid it received
            # (e.g. gridStep = "all gradients first" + gridStepKeepGradient): the sibling's own obligation covers it
            deleg = [c for c in ast.walk(fn) if isinstance(c, ast.Call) and isinstance(c.func, ast.Attribute)
                     and src(c.func.value) == "self" and c.func.attr in analyses and c.func.attr != m
                     and any(isinstance(x, ast.Name) and x.id == "grid" for x in list(c.args) + [k.value for k in c.keywords])]
            if deleg:
                callee = analyses[deleg[0].func.attr].fn
                formals = [x.arg for x in callee.args.args if x.arg != "self"]
                b = agree.bind_call(deleg[0], formals) or {}
                same = set(b) == set(formals) and all(isinstance(v, ast.Name) and v.id == f for f, v in b.items())
                chk.ob("C-coordinate-role", deleg[0], f"{m} advects through self.{deleg[0].func.attr}(grid, ...)", True if same else None,
                       f"the lines are advanced by `{deleg[0].func.attr}` on the same grid, table and time step; its own step call is typed"
                       if same else f"`{src(deleg[0])}` does not hand its own grid/table/time step on under the same names: cannot decide",
                       file=U.ADV, func=f"VParallelAdvection.{m}")
                continue
            raise AnalysisError(f"C05: no self.step call in VParallelAdvection.{m}")


def poloidal(chk):
    env = {"eta_vals": eta_grid_tag(), "splines": OTHER, "constants": ("constants",), "nulEdge": OTHER,
           "explicitTrap": OTHER, "tol": OTHER}
    attrs, _ = I.ctor_attrs(chk, U.ADV, "PoloidalAdvection", env)
    cache_tags = {}
    # the per-plane potential splines are distinct objects (a cache written by gridStep and read again later)
    init = chk.func(U.ADV, "PoloidalAdvection.__init__")
    ps = [n for n in ast.walk(init) if isinstance(n, ast.Assign) and src(n.targets[0]) == "self._phiSplines"]
    okc, bad = False, None
    if ps:
        v = ps[0].value
        if isinstance(v, ast.ListComp) and isinstance(v.elt, ast.Call) and src(v.elt.func) == "Spline2D":
            okc = True
        elif isinstance(v, ast.BinOp) and isinstance(v.op, ast.Mult):
            bad = (f"`{src(v)[:70]}` repeats ONE spline object for every z plane: the plane interpolated last overwrites all "
                   "others, so a later gridStep_SplinesUnchanged advects every plane with the last plane's potential")
    chk.pat("C-cache-distinct", ps[0] if ps else init, "self._phiSplines = [Spline2D(...) for each z plane]", okc,
            "one spline object per z plane: the potential splines computed by gridStep survive until gridStep_SplinesUnchanged", bad,
            file=U.ADV, func="PoloidalAdvection.__init__")
    for m in ("gridStep", "gridStep_SplinesUnchanged"):
        fn = chk.func(U.ADV, f"PoloidalAdvection.{m}")
        amb = I.ambient_from_asserts(fn)
        o = amb.get("grid")
        if o is None:
            raise AnalysisError(f"C05: PoloidalAdvection.{m} no longer asserts its layout")
        env2 = {"grid": grid_param(o, 2), "dt": OTHER}
        if m == "gridStep":
            op = amb.get("phi")
            rel_ok = True if op == o[1:] else (False if op is not None else None)
            chk.ob("C-layout-relation", fn, "phi layout = grid layout[1:]", rel_ok,
                   "the potential is required in the grid's layout without v" if rel_ok else
                   (f"the potential is required in layout {op}, which is not the grid's layout {o} without its first dimension: slice j of "
                    "phi is not the plane of slice (i, j) of the grid" if op is not None else
                    "relation between the layouts of grid and phi is no longer asserted"), file=U.ADV, func=f"PoloidalAdvection.{m}")
            env2["phi"] = grid_param(op or o[1:], 1)
        ctx = Ctx(dist_dims=dist_dims(o, 2))
        an = I.run_method(chk, U.ADV, "PoloidalAdvection", m, env2, ctx, dict(attrs),
                          {"step": {"params": ["f", "dt", "phi", "v"], "req": {}}})
        for n_ in ast.walk(fn):
            if isinstance(n_, ast.Subscript) and src(n_.value) == "self._phiSplines":
                cache_tags.setdefault(m, []).append((n_, an.node_tags.get(id(n_.slice))))
        # the v handed to step is the coordinate of the slice's own v; the potential spline is the one of the slice's own z plane
        nstep = 0
        for c in ast.walk(fn):
            if not (isinstance(c, ast.Call) and isinstance(c.func, ast.Attribute) and c.func.attr == "step" and src(c.func.value) == "self"):
                continue
            nstep += 1
            b = agree.bind_call(c, ["f", "dt", "phi", "v"]) or {}
            vt = an.node_tags.get(id(b["v"])) if "v" in b else None
            problems, bad = [], []
            if vt == ("coord", 3):
                pass
            elif isinstance(vt, tuple) and vt[0] == "coord":
                bad.append(f"the velocity handed to step is {tname(vt)}, not the v coordinate of the slice")
            else:
                problems.append(f"velocity argument `{src(b['v']) if 'v' in b else '?'}` is {tname(vt) if vt else 'not typed'}")
            f_, ph = b.get("f"), b.get("phi")
            zpos = list(o).index(2) if 2 in o else None
            zsel = f_.args[zpos] if isinstance(f_, ast.Call) and isinstance(f_.func, ast.Attribute) and f_.func.attr == "get2DSlice" \
                and src(f_.func.value) == "grid" and zpos is not None and zpos < len(f_.args) else None
            if not (isinstance(ph, ast.Subscript) and src(ph.value) == "self._phiSplines") or zsel is None:
                problems.append(f"slice `{src(f_) if f_ is not None else '?'}` / potential `{src(ph) if ph is not None else '?'}` not recognised")
            else:
                pt, zt = an.node_tags.get(id(ph.slice)), an.node_tags.get(id(zsel))
                if not (isinstance(pt, tuple) and pt[0] in ("lidx", "gidx")) or not (isinstance(zt, tuple) and zt[0] in ("lidx", "gidx")):
                    problems.append(f"index spaces of `{src(ph)}` ({tname(pt) if pt else '?'}) and of the z selector `{src(zsel)}` "
                                    f"({tname(zt) if zt else '?'}) not determined")
                elif pt[1] != 2:
                    bad.append(f"the potential spline is selected by `{src(ph.slice)}`, an index along {I.DIMNAMES.get(pt[1], pt[1])}, while the "
                               f"slice is the z plane `{src(zsel)}`: planes are advected with the potential of another plane")
                elif src(ph.slice) != src(zsel) and _binding_loop(c, ph.slice) is not _binding_loop(c, zsel):
                    problems.append(f"`{src(ph.slice)}` and `{src(zsel)}` are not bound by the same loop: same plane not established")
            okc = False if bad else (None if problems else True)
            chk.ob("C-coordinate-role", c, f"step(slice(i, j), dt, phiSplines[j], v) in {m}", okc,
                   "the velocity is the slice's own v coordinate and the potential spline is the one of the slice's own z plane"
                   if okc else "; ".join(bad + problems), file=U.ADV, func=f"PoloidalAdvection.{m}")
        if nstep == 0:
            chk.ob("C-coordinate-role", fn, f"self.step(...) in {m}", None, "no call of self.step found (idiom changed)", file=U.ADV,
                   func=f"PoloidalAdvection.{m}")
    # writer (gridStep) and reader (gridStep_SplinesUnchanged) of the cache use the same index space
    tags = {(m, I.tname(t) if t else "?") for m, lst in cache_tags.items() for _, t in lst}
    kinds = {t for _, t in tags}
    node = cache_tags.get("gridStep_SplinesUnchanged", [(None, None)])[0][0] or chk.func(U.ADV, "PoloidalAdvection.gridStep")
    if len(cache_tags) == 2 and "?" not in kinds and "('other',)" not in kinds:
        ok = len(kinds) == 1
        chk.ob("C-cache-index-space", node, "self._phiSplines[...] in gridStep / gridStep_SplinesUnchanged", ok,
               f"the cache is written and read with {sorted(kinds)[0]}" if ok else
               f"the cache is indexed inconsistently: {sorted(tags)} - after gridStep, gridStep_SplinesUnchanged reads the splines of other "
               "z planes whenever z is distributed", file=U.ADV, func="PoloidalAdvection.gridStep_SplinesUnchanged")
    else:
        chk.ob("C-cache-index-space", node, "self._phiSplines[...] in gridStep / gridStep_SplinesUnchanged", None,
               f"index spaces of the cache subscripts not determined: {sorted(tags)}", file=U.ADV,
               func="PoloidalAdvection.gridStep_SplinesUnchanged")
    return attrs


def _binding_loop(at, expr):
    """innermost loop around `at` whose target binds a name of `expr` (None when there is none)"""
    names = {n.id for n in ast.walk(expr) if isinstance(n, ast.Name)}
    p_ = parent(at)
    while p_ is not None and not isinstance(p_, (ast.FunctionDef, ast.ClassDef)):
        if isinstance(p_, ast.For) and names & {n.id for n in ast.walk(p_.target) if isinstance(n, ast.Name)}:
            return p_
        p_ = parent(p_)
    return None


def range_slices_as_index(fn):
    """private copy of `fn` in which `A[R.start:R.stop]`, with R a local bound once to `<grid>.getGlobalIdxVals(k)` (the contiguous
    range of global indices of the local block), is written `A[R]`: selecting with the bounds of a unit-step range selects the
    same rows as indexing with the range itself, which is the form engine C types"""
    import copy
    defs = {}
    for n in ast.walk(fn):
        if isinstance(n, ast.Name) and isinstance(n.ctx, ast.Store):
            defs[n.id] = defs.get(n.id, 0) + 1
    ranges = {st.targets[0].id for st in ast.walk(fn) if isinstance(st, ast.Assign) and len(st.targets) == 1 and isinstance(st.targets[0], ast.Name)
              and defs.get(st.targets[0].id) == 1 and isinstance(st.value, ast.Call) and isinstance(st.value.func, ast.Attribute)
              and st.value.func.attr == "getGlobalIdxVals"}

    def hit(n):
        return isinstance(n, ast.Subscript) and isinstance(n.slice, ast.Slice) and n.slice.step is None \
            and isinstance(n.slice.lower, ast.Attribute) and isinstance(n.slice.upper, ast.Attribute) \
            and n.slice.lower.attr == "start" and n.slice.upper.attr == "stop" and isinstance(n.slice.lower.value, ast.Name) \
            and isinstance(n.slice.upper.value, ast.Name) and n.slice.lower.value.id == n.slice.upper.value.id and n.slice.lower.value.id in ranges
    if not any(hit(n) for n in ast.walk(fn)):
        return fn
    par = parent(fn)
    new = copy.deepcopy(fn, {id(par): par} if par is not None else {})
    for n in ast.walk(new):
        if hit(n):
            n.slice = ast.copy_location(ast.Name(id=n.slice.lower.value.id, ctx=ast.Load()), n.slice)
    for n in ast.walk(new):
        for ch in ast.iter_child_nodes(n):
            ch._parent = n
    new._parent = par
    return new


def density(chk):
    env = {"eta_grid": eta_grid_tag(), "constants": ("constants",), "degree": OTHER, "bspline": OTHER}
    attrs, _ = I.ctor_attrs(chk, U.POISSON, "DensityFinder", env)
    fe = attrs.get("_fEq")
    ok = (fe[1] == (G(0), G(3))) if I.is_arr(fe) else None
    chk.ob("C-table-roles", chk.func(U.POISSON, "DensityFinder.__init__"), "self._fEq", ok,
           "equilibrium table is [global r, global v]" if ok else f"unexpected table {tname(fe)}", file=U.POISSON,
           func="DensityFinder.__init__")
    res = {}
    for m in ("getPerturbedRho", "getRho"):
        fn = chk.func(U.POISSON, f"DensityFinder.{m}")
        fn = range_slices_as_index(fn)
        amb = I.ambient_from_asserts(fn)
        og, orho = amb.get("grid"), amb.get("rho")
        if og is None or orho is None:
            raise AnalysisError(f"C05: DensityFinder.{m} no longer asserts the layouts of grid and rho")
        ctx = Ctx(dist_dims=dist_dims(og, 2))
        a = IS(chk, U.POISSON, f"DensityFinder.{m}", fn, {"grid": grid_param(og, 2), "rho": grid_param(orho, 2)}, ctx, dict(attrs))
        chk.functions.add(f"{U.POISSON}:DensityFinder.{m}")
        a.run()
        # kernel call: co-indexed axes must cover the same index ranges
        kname = "get_perturbed_rho" if m == "getPerturbedRho" else "get_rho"
        calls = [c for c in ast.walk(fn) if isinstance(c, ast.Call) and isinstance(c.func, ast.Name) and c.func.id == kname]
        if len(calls) != 1:
            raise AnalysisError(f"C05: kernel call {kname} not found in DensityFinder.{m}")
        c = calls[0]
        kfn = chk.func(U.PTOOLS, kname)
        formals = [x.arg for x in kfn.args.args]
        b = agree.bind_call(c, formals)
        tags = {f: a.ev(v) for f, v in (b or {}).items()}
        co = coindexed_axes(kfn)
        for lv, uses in co.items():
            wins = []
            for (an, ax) in uses:
                t = tags.get(an)
                if I.is_arr(t) and ax < len(t[1]):
                    wins.append((an, ax, t[1][ax]))
            known = [(an, ax, w) for an, ax, w in wins if w is not None and w[0] in ("G", "L", "P")]
            bad = None
            for x in known[1:]:
                w0, w1 = known[0][2], x[2]
                if w0 == w1:
                    continue
                if w0[1] == w1[1] and {w0[0], w1[0]} == {"G", "L"} and not ctx.distributed(w0[1]):
                    continue
                bad = (known[0], x)
            stenc = [(an, ax, w) for an, ax, w in wins if w is not None and w[0] in ("S",)]
            if known:
                chk.ob("C-coindexed-axes", c, f"{kname}: loop index `{lv}` over " + ", ".join(f"{an}[{ax}]" for an, ax, _ in wins),
                       False if bad else (None if stenc and len(known) >= 1 and any(w[0] == "S" for _, _, w in wins) else True),
                       ("all arrays indexed by this loop variable cover the same index range: " +
                        ", ".join(f"{an}[{ax}]={I.wname(w)}" for an, ax, w in wins)) if not bad else
                       f"`{bad[0][0]}` axis {bad[0][1]} is {I.wname(bad[0][2])} but `{bad[1][0]}` axis {bad[1][1]} is {I.wname(bad[1][2])}: "
                       "row i of one array does not belong to row i of the other", file=U.POISSON, func=f"DensityFinder.{m}")
        res[m] = tags
    return attrs, res


def coindexed_axes(kfn: ast.FunctionDef):
    """{loop var: [(array param, axis), ...]} from subscripts `A[i, j, ...]` with bare loop variables"""
    params = {a.arg for a in kfn.args.args}
    loopvars = set()
    for n in ast.walk(kfn):
        if isinstance(n, ast.For) and isinstance(n.target, ast.Name):
            loopvars.add(n.target.id)
    out = {}
    for n in ast.walk(kfn):
        if isinstance(n, ast.Subscript) and isinstance(n.value, ast.Name) and n.value.id in params:
            items = n.slice.elts if isinstance(n.slice, ast.Tuple) else [n.slice]
            for k, it in enumerate(items):
                if isinstance(it, ast.Name) and it.id in loopvars:
                    if (n.value.id, k) not in out.setdefault(it.id, []):
                        out[it.id].append((n.value.id, k))
    return out


def solver(chk):
    """DiffEqSolver / QuasiNeutralitySolver: global-mode tables indexed by the global mode index"""
    O = orders(chk)
    o_ms = O["mode_solve"]
    o_v2 = O["v_parallel_2d"]
    ctx = Ctx(dist_dims=dist_dims(o_ms, 2))
    env = {"degree": OTHER, "rspline": OTHER, "nr": ("size", G(0)), "nTheta": ("size", G(1)),
           "lNeumannIdx": OTHER, "uNeumannIdx": OTHER}
    attrs, _ = I.ctor_attrs(chk, U.POISSON, "DiffEqSolver", env)
    for k in ("_mVals", "_coeff_range", "_stiffness_range"):
        t = attrs.get(k)
        ok = (t[1][0] == G(1)) if I.is_arr(t) and t[1] and t[1][0] is not None and t[1][0][0] in ("G", "L") else None
        chk.ob("C-table-roles", chk.func(U.POISSON, "DiffEqSolver.__init__"), f"self.{k}", ok,
               "per-mode table covers all poloidal modes (global mode index)" if ok else f"unexpected table {tname(t)}",
               file=U.POISSON, func="DiffEqSolver.__init__")
    sm, _ = I.summary_of(chk, U.POISSON, "DiffEqSolver", "_solveMode", dict(attrs), ctx,
                         {"phi": grid_param(o_ms, 2), "rho": grid_param(o_ms, 2)})
    ok = sm["req"].get("i") == ("lidx", 1) and sm["req"].get("I") == ("gidx", 1)
    if not ok and (sm["req"].get("i") is None or sm["req"].get("I") is None):
        ok = None
    chk.ob("C-table-roles", chk.func(U.POISSON, "DiffEqSolver._solveMode"), "_solveMode(phi, rho, stiffnessMatrix, i, I)", ok,
           "i selects the local data slice, I looks up the global-mode tables" if ok else
           f"unexpected index requirements { {k: tname(v) for k, v in sm['req'].items()} }", file=U.POISSON, func="DiffEqSolver._solveMode")
    smf, _ = I.summary_of(chk, U.POISSON, "DiffEqSolver", "_solveModeFunc", dict(attrs), ctx, {"phi": grid_param(o_ms, 2), "rho": OTHER})
    for cls, m in (("DiffEqSolver", "solveEquation"), ("DiffEqSolver", "solveEquationForFunction"),
                   ("QuasiNeutralitySolver", "solveEquation")):
        # an inherited definition is analysed as the derived class runs it: template methods it calls resolve to the overrides
        owner_q, fn = resolve_method(chk, U.POISSON, cls, m)
        summ = {"_solveMode": sm, "_solveModeFunc": smf}
        a = IS(chk, U.POISSON, f"{cls}.{m}", fn, {"phi": grid_param(o_ms, 2), "rho": grid_param(o_ms, 2) if m != "solveEquationForFunction" else OTHER},
               ctx, dict(attrs), summ)
        a.methods = {k: v[1] for k, v in method_table(chk, U.POISSON, cls).items() if k not in summ and v[1] is not fn}
        chk.functions.add(f"{U.POISSON}:{cls}.{m}")
        a.run()
    for m in ("getModes", "findPotential"):
        fn = chk.func(U.POISSON, f"DiffEqSolver.{m}")
        amb = I.ambient_from_asserts(fn)
        nm = "rho" if m == "getModes" else "phi"
        o = amb.get(nm)
        if o is None:
            raise AnalysisError(f"C05: DiffEqSolver.{m} no longer asserts its layout")
        I.run_method(chk, U.POISSON, "DiffEqSolver", m, {nm: grid_param(o, 2)}, Ctx(dist_dims=dist_dims(o, 2)), {})
    return attrs


def initialisers(chk):
    O = orders(chk)
    want = {"r": 0, "rVec": 0, "theta": 1, "z": 2, "zVec": 2, "vPar": 3}
    for fname, lname, kname in (("initialise_flux_surface", "flux_surface", "init_f_flux"),
                                ("initialise_poloidal", "poloidal", "init_f_pol"),
                                ("initialise_v_parallel", "v_parallel", "init_f_vpar")):
        o = O[lname]
        fn = chk.func(U.INITIALISER, fname)
        ctx = Ctx(dist_dims=dist_dims(o, 2))
        a = IS(chk, U.INITIALISER, fname, fn, {"grid": grid_param(o, 2), "constants": ("constants",)}, ctx, {})
        a.run()
        calls = [c for c in ast.walk(fn) if isinstance(c, ast.Call) and isinstance(c.func, ast.Name) and c.func.id == kname]
        if len(calls) != 1:
            raise AnalysisError(f"C05: kernel call {kname} not found in {fname}")
        c = calls[0]
        kfn = chk.func(U.INITF, kname)
        formals = [x.arg for x in kfn.args.args]
        b = agree.bind_call(c, formals) or {}
        # bind loop variables as in the loops
        a2 = IS(_Mute(), U.INITIALISER, fname, fn, {"grid": grid_param(o, 2), "constants": ("constants",)}, ctx, {})
        tags = eval_at_call(a2, fn, c, b)
        for f, t in tags.items():
            if f in want:
                d = None
                if isinstance(t, tuple) and t[0] == "coord":
                    d = t[1]
                elif I.is_arr(t) and t[2] is not None and t[2][0] == "coord":
                    d = t[2][1]
                chk.ob("C-coordinate-role", c, f"{kname}: {f} <- {src(b[f])}", d == want[f] if d is not None else None,
                       f"parameter `{f}` receives the {I.DIMNAMES[want[f]]} coordinate(s) of the slice" if d == want[f] else
                       f"parameter `{f}` receives {tname(t)}", file=U.INITIALISER, func=fname)
        # surface axes = last two dims of the layout, in the kernel's (first, second) loop order
        agree.check_roles(chk, U.INITIALISER, fname, c, formals, {}, const_recv="constants")
        co = coindexed_axes(kfn)


def eval_at_call(a: IS, fn, call, bound):
    """tags of the actuals of `call`, with loop variables bound as at the call"""
    res = {}

    def walk(stmts):
        for st in stmts:
            if isinstance(st, ast.For):
                it = a.ev(st.iter)
                tags = it[1] if isinstance(it, tuple) and it[0] == "iter" else OTHER
                a.bind_loop(st.target, tags)
                walk(st.body)
            elif isinstance(st, ast.Assign):
                v = a.ev(st.value)
                for t in st.targets:
                    a.assign(t, v, st)
            elif isinstance(st, ast.If):
                walk(st.body)
                walk(st.orelse)
            if any(n is call for n in ast.walk(st)) and not isinstance(st, (ast.For, ast.If)):
                for f, v in bound.items():
                    res[f] = a.ev(v)
    walk(fn.body)
    return res


# ------------------------------------------------------------------ driver typestate
OPERATOR_REQUIREMENTS = None


def callee_requirements(chk):
    """layout each grid-taking operator requires, read from its asserts"""
    req = {}
    O = orders(chk)
    for rel, q, params in (
            (U.ADV, "FluxSurfaceAdvection.gridStep", ["grid"]),
            (U.ADV, "PoloidalAdvection.gridStep", ["grid", "phi"]),
            (U.ADV, "PoloidalAdvection.gridStep_SplinesUnchanged", ["grid"]),
            (U.POISSON, "DensityFinder.getPerturbedRho", ["grid", "rho"]),
            (U.POISSON, "DensityFinder.getRho", ["grid", "rho"]),
            (U.POISSON, "DiffEqSolver.getModes", ["rho"]),
            (U.POISSON, "DiffEqSolver.findPotential", ["phi"])):
        amb = I.ambient_from_asserts(chk.func(rel, q))
        req[q.split(".")[-1]] = {p: amb.get(p) for p in params}
    for q in ("DiffEqSolver.solveEquation", "QuasiNeutralitySolver.solveEquation"):
        amb = I.ambient_from_asserts(resolve_method(chk, U.POISSON, *q.split("."))[1])
        req.setdefault("solveEquation", {})["rho[-1]"] = amb.get("rho[-1]")
    return req


def driver_typestate(chk):
    """walk fullSimulation.main: current layout of distribFunc / phi / rho at every operator call"""
    O = orders(chk)
    fn = chk.func(U.DRIVER, "main")
    req = callee_requirements(chk)
    GRIDS = ("distribFunc", "phi", "rho")
    state0 = {}
    events = []

    def order_of(g, name):
        nd = 4 if g == "distribFunc" else 3
        return O.get((name, nd))

    def call_events(st, state):
        calls = [c for c in ast.walk(st) if isinstance(c, ast.Call)]
        calls.sort(key=lambda c: (c.end_lineno, c.end_col_offset))
        for c in calls:
            f = c.func
            if isinstance(f, ast.Attribute) and isinstance(f.value, ast.Name) and f.value.id in GRIDS:
                g = f.value.id
                if f.attr == "setLayout" and c.args and isinstance(c.args[0], ast.Constant):
                    state[g] = {"cur": c.args[0].value, "saved": state.get(g, {}).get("saved")}
                    events.append(("setLayout", g, c.args[0].value, c))
                    known = order_of(g, c.args[0].value) is not None
                    chk.ob("S-known-layout", c, src(c), known, "layout name is one of the layouts the grid's manager was built with"
                           if known else "layout name is not in the literal layout dictionaries", file=U.DRIVER, func="main", nontrivial=False)
                elif f.attr == "saveGridValues":
                    state[g] = {"cur": state[g]["cur"], "saved": state[g]["cur"]}
                    events.append(("save", g, state[g]["cur"], c))
                elif f.attr == "restoreGridValues":
                    sv = state[g].get("saved")
                    chk.ob("S-restore-layout", c, src(c), sv is not None, f"restore brings `{g}` back to layout `{sv}`",
                           file=U.DRIVER, func="main")
                    state[g] = {"cur": sv, "saved": None}
                    events.append(("restore", g, sv, c))
                elif f.attr == "freeGridSave":
                    state[g] = {"cur": state[g]["cur"], "saved": None}
                elif f.attr == "writeH5Dataset":
                    events.append(("write", g, state[g]["cur"], c))
            # grid construction
            if isinstance(f, ast.Name) and f.id in ("setupCylindricalGrid", "setupFromFile"):
                lay = [k.value.value for k in c.keywords if k.arg == "layout" and isinstance(k.value, ast.Constant)]
                if lay:
                    state["distribFunc"] = {"cur": lay[0], "saved": None}
            if isinstance(f, ast.Name) and f.id == "Grid":
                stn = c
                while not isinstance(stn, ast.stmt):
                    stn = parent(stn)
                if isinstance(stn, ast.Assign) and isinstance(stn.targets[0], ast.Name) and len(c.args) >= 4 \
                        and isinstance(c.args[3], ast.Constant):
                    state[stn.targets[0].id] = {"cur": c.args[3].value, "saved": None}
            # operator calls taking grids
            if isinstance(f, ast.Attribute) and any(isinstance(a, ast.Name) and a.id in GRIDS for a in c.args):
                m = f.attr
                if m in req or m in ("gridStep", "gridStepKeepGradient", "collect"):
                    recv = src(f.value)
                    check_operator_call(chk, c, recv, m, state, req, order_of)
                    events.append(("op", recv + "." + m, {g: state.get(g, {}).get("cur") for g in GRIDS}, c))

    def run_block(stmts, state):
        for st in stmts:
            if isinstance(st, ast.If):
                call_events(ast.Expr(value=st.test), state)
                s1 = {k: dict(v) for k, v in state.items()}
                s2 = {k: dict(v) for k, v in state.items()}
                run_block(st.body, s1)
                run_block(st.orelse, s2)
                for g in set(s1) | set(s2):
                    if s1.get(g) != s2.get(g):
                        chk.ob("S-branch-agreement", st, f"if {src(st.test)[:60]}", False,
                               f"`{g}` is in layout {s1.get(g)} after one arm and {s2.get(g)} after the other", file=U.DRIVER, func="main")
                state.clear()
                state.update(s1)
            elif isinstance(st, (ast.While, ast.For)):
                before = {k: dict(v) for k, v in state.items()}
                run_block(st.body, state)
                # loop invariant: layouts at the end of the body equal those at its start
                for g in GRIDS:
                    ok = before.get(g) == state.get(g)
                    chk.ob("S-loop-invariant", st, f"time loop: layout of {g}", ok,
                           f"`{g}` is in the same layout ({state.get(g, {}).get('cur')}) at the start and at the end of an iteration"
                           if ok else f"`{g}` starts an iteration in {before.get(g)} but ends it in {state.get(g)}",
                           file=U.DRIVER, func="main")
            elif isinstance(st, (ast.FunctionDef, ast.ClassDef)):
                continue
            else:
                call_events(st, state)

    run_block(fn.body, state0)
    chk.extra["driver_events"] = len(events)
    return events


def check_operator_call(chk, c, recv, m, state, req, order_of):
    args = [a.id for a in c.args if isinstance(a, ast.Name) and a.id in ("distribFunc", "phi", "rho")]
    label = f"{recv}.{m}({', '.join(args)})"
    cls_of = {"fluxAdv": "FluxSurfaceAdvection", "vParAdv": "VParallelAdvection", "polAdv": "PoloidalAdvection",
              "density": "DensityFinder", "QNSolver": "QuasiNeutralitySolver", "diagnostics": "DiagnosticCollector"}
    cls = cls_of.get(recv)
    if cls is None:
        chk.ob("S-operator-layout", c, label, None, f"receiver `{recv}` is not one of the known operator objects", file=U.DRIVER, func="main")
        return
    wanted = {}
    if cls == "FluxSurfaceAdvection":
        wanted = {0: req["gridStep"].get("grid")} if False else {0: I.ambient_from_asserts(chk.func(U.ADV, "FluxSurfaceAdvection.gridStep")).get("grid")}
    elif cls == "PoloidalAdvection":
        amb = I.ambient_from_asserts(chk.func(U.ADV, f"PoloidalAdvection.{m}"))
        wanted = {0: amb.get("grid")}
        if m == "gridStep":
            wanted[1] = amb.get("phi")
    elif cls == "VParallelAdvection":
        O = I.LAYOUT_ORDERS
        wanted = {0: O["v_parallel"]}
        if m == "gridStep":
            wanted[1] = O["v_parallel_1d"]
            # phi must be in a layout whose z is NOT distributed: the gradient is taken along the whole z line
            g = c.args[1].id if len(c.args) > 1 and isinstance(c.args[1], ast.Name) else None
            if g:
                cur = state.get(g, {}).get("cur")
                nd = I.LAYOUT_NDIST.get(cur)
                og = order_of(g, cur)
                zfree = (2 not in og[:nd]) if og is not None and nd is not None else None
                chk.ob("S-operator-layout", c, label + " [z lines complete]", zfree,
                       f"the potential is in layout `{cur}` = {og}, distributed along {[I.DIMNAMES.get(d, d) for d in og[:nd]]}: every process "
                       "holds complete z lines" if zfree else
                       (f"the potential is in layout `{cur}` = {og}, in which z is distributed: the parallel gradient needs the whole periodic z "
                        "line of each (r, theta)" if zfree is False else f"layout `{cur}` of the potential is not one of the known layouts"),
                       file=U.DRIVER, func="main")
    elif cls == "DensityFinder":
        amb = I.ambient_from_asserts(chk.func(U.POISSON, f"DensityFinder.{m}"))
        wanted = {0: amb.get("grid"), 1: amb.get("rho")}
    elif cls == "QuasiNeutralitySolver":
        if m in ("getModes", "findPotential"):
            amb = I.ambient_from_asserts(chk.func(U.POISSON, f"DiffEqSolver.{m}"))
            wanted = {0: amb.get("rho" if m == "getModes" else "phi")}
        elif m == "solveEquation":
            last = I.ambient_from_asserts(resolve_method(chk, U.POISSON, "QuasiNeutralitySolver", "solveEquation")[1]).get("rho[-1]")
            for k, a in enumerate(c.args):
                if isinstance(a, ast.Name) and a.id in state:
                    o = order_of(a.id, state[a.id]["cur"])
                    ok = (o[-1] == last) if o is not None and last is not None else None
                    chk.ob("S-operator-layout", c, label + f" [{a.id}]", ok,
                           f"`{a.id}` is in layout `{state[a.id]['cur']}` whose last (contiguous) dimension is r" if ok else
                           (f"`{a.id}` is in layout `{state[a.id]['cur']}` = {o}, the solver needs r last" if ok is False else
                            f"layout of `{a.id}` ({state[a.id]['cur']} = {o}) or the solver's requirement on the last dimension ({last}) not "
                            "determined"), file=U.DRIVER, func="main")
            # both grids in the same layout: the solver loops over rho's modes and writes phi's slices
            if len(c.args) >= 2 and all(isinstance(a, ast.Name) and a.id in state for a in c.args[:2]):
                same = state[c.args[0].id]["cur"] == state[c.args[1].id]["cur"]
                chk.ob("S-operator-layout", c, label + " [same layout]", same,
                       "phi and rho are in the same layout" if same else
                       f"phi is in `{state[c.args[0].id]['cur']}` but rho in `{state[c.args[1].id]['cur']}`", file=U.DRIVER, func="main")
            return
    elif cls == "DiagnosticCollector":
        # collect(f, phi, t): norms were built for 'v_parallel' / 'v_parallel_2d'
        dfn = chk.func(U.DIAG, "DiagnosticCollector.__init__")
        names = [a.value for n in ast.walk(dfn) if isinstance(n, ast.Call) and isinstance(n.func, ast.Attribute)
                 and n.func.attr == "getLayout" for a in n.args if isinstance(a, ast.Constant)]
        want_f = {x for x in names if x in ("v_parallel", "flux_surface", "poloidal")}
        want_p = {x for x in names if x not in want_f}
        for k, (a, want) in enumerate(zip(c.args[:2], (want_f, want_p))):
            if isinstance(a, ast.Name) and a.id in state:
                cur = state[a.id]["cur"]
                ok = want == {cur}
                chk.ob("S-operator-layout", c, label + f" [{a.id}]", ok,
                       f"`{a.id}` is in `{cur}`, the layout its diagnostics were built for" if ok else
                       f"`{a.id}` is in `{cur}` but its diagnostics were built for {sorted(want)}", file=U.DRIVER, func="main")
        return
    for k, o_want in wanted.items():
        if k >= len(c.args) or not isinstance(c.args[k], ast.Name) or c.args[k].id not in state:
            continue
        g = c.args[k].id
        cur = state[g]["cur"]
        o = order_of(g, cur)
        ok = o is not None and o_want is not None and tuple(o) == tuple(o_want)
        chk.ob("S-operator-layout", c, label + f" [{g}]", ok if o_want is not None else None,
               f"`{g}` is in layout `{cur}` = {o}, as the operator requires" if ok else
               f"`{g}` is in layout `{cur}` = {o} but the operator requires {o_want}", file=U.DRIVER, func="main")


def run(chk):
    chk.explanation = (
        "Index-space and window typing (engine C) of every table look-up, slice selection and kernel argument of the "
        "grid-level operators (flux-surface, v-parallel, poloidal advection, parallel gradient, density, per-mode solver, "
        "initialisers): local vs global index, layout axis vs dimension, local block vs global table, co-indexed kernel "
        "axes; plus the driver layout typestate: at each of the operator calls of fullSimulation.main every grid is in the "
        "layout its callee requires, restore returns to the saved layout, the loop body is layout-invariant. This is the "
        "statically visible necessary condition 'each slice uses the parameters of its own global coordinates'; numerical "
        "equality of parallel and serial runs is not decided.")
    chk.assumptions += ["standard layouts and their distributed axes are those of the literal dictionaries in setups.py/fullSimulation.py",
                        "the same dimension is partitioned identically in every layout group that distributes it over the same process count"]
    chk.in_file(U.ADV)
    pg_attrs, pg_summ = parallel_gradient(chk)
    flux_surface(chk)
    v_parallel(chk, pg_summ)
    poloidal(chk)
    density(chk)
    solver(chk)
    initialisers(chk)
    driver_typestate(chk)
    from .C14 import per_mode
    try:
        per_mode(chk)
    except AnalysisError as e:
        # the per-mode rules (C14) cannot follow the solver: undecided here, the other sections keep their verdicts
        chk.ob("F4-mode-solve", chk.mod(U.POISSON).tree, "per-mode solver rules (C14.per_mode)", None, f"not analysable: {e}",
               file=U.POISSON, func="DiffEqSolver")
    # the z stencil of the parallel gradient wraps periodically over ALL z rows whatever block the caller owns: the three index
    # regimes tile [0, nz) (shared with C13)
    from .C13 import regimes as _regimes
    _regimes(chk)
    chk.floor("C-window", 30)
    chk.floor("C-sort", 6)
    chk.floor("S-operator-layout", 25)
    chk.floor("C-slice-param", 4)
