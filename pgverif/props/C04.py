"""C04 - Grid layout changes and save/restore behave like a single global array.

The bodies of Grid.__init__/setLayout/saveGridValues/freeGridSave/restoreGridValues are
read from the AST on every run and interpreted as guarded transformers over a small
abstract state (which physical buffer is data/scratch/save, the flags, the layout names,
which buffer and layout the view `_f` refers to, and for every buffer whether it holds the
current field / the saved snapshot).  All states reachable under all method sequences are
enumerated and compared with the specification 'one undistributed array + optional saved
copy'.  LayoutManager.transpose is represented by its contract (C01/C03).
"""
from __future__ import annotations

import ast

from ..core import src, AnalysisError, parent, qual
from .. import units as U
from ..resolve import inline_locals, expand

LAYOUTS = ("A", "B", "C")


class Undef:
    def __repr__(self):
        return "<undefined>"


UNDEF = Undef()


class Refused(Exception):
    pass


class _Return(Exception):
    """control flow of the interpreted method: `return`"""


class ModelError(Exception):
    """the method does something the model cannot interpret"""


class AttrErr(Exception):
    pass


class GridModel:
    """abstract Grid object: attrs + buffer contents"""

    def __init__(self):
        self.a = {}
        # contents[b] = dict(cur=bool, saved=bool, layout=name|None)
        self.contents = []
        self.nbuf = 0
        self.events = []
        self.alloc = []       # allocation expression of every buffer

    def new_buffer(self, how):
        self.contents.append(dict(cur=False, saved=False, layout=None))
        self.alloc.append(how)
        self.nbuf = len(self.contents)
        return ("buf", self.nbuf - 1)

    def key(self):
        def norm(v):
            return repr(v)
        return (tuple(sorted((k, norm(v)) for k, v in self.a.items())),
                tuple((c["cur"], c["saved"], c["layout"]) for c in self.contents))

    def clone(self):
        g = GridModel()
        g.a = {k: (list(v) if isinstance(v, list) else v) for k, v in self.a.items()}
        g.contents = [dict(c) for c in self.contents]
        g.nbuf = self.nbuf
        g.alloc = list(self.alloc)
        return g


def _guards(node, fn):
    from ..core import guards_of
    return guards_of(node)


class Exec:
    def __init__(self, cls: ast.ClassDef, chk, rel):
        self.cls, self.chk, self.rel = cls, chk, rel
        self.methods = {}
        for m in cls.body:
            if isinstance(m, ast.FunctionDef):
                self.methods.setdefault(m.name, m)
        self.class_text = "\n".join(src(m) for m in self.methods.values()).replace(" ", "")
        self.properties = {m.name: m for m in cls.body if isinstance(m, ast.FunctionDef) and
                           any(src(d) in ("property", "functools.cached_property", "cached_property") for d in m.decorator_list)}
        self.class_level = {t.id for st in cls.body if isinstance(st, (ast.Assign, ast.AnnAssign))
                            for t in (st.targets if isinstance(st, ast.Assign) else [st.target]) if isinstance(t, ast.Name)}
        self.foreign_bases = [src(b) for b in cls.bases if src(b) != "object"]

    def refuses_without(self, m, flag, before=None, depth=2):
        """does the method refuse (assert / raise), in its top-level statements (those before line `before`), when `self.<flag>` is
        false?  Recognised: `assert <test with self.flag>`; `if not self.flag [or ...]: ... raise`; a call of a method of the class that does"""
        for st in m.body:
            if before is not None and getattr(st, "lineno", 0) >= before:
                break
            if isinstance(st, ast.Assert) and flag in src(st.test):
                return True
            if isinstance(st, ast.If) and st.body and isinstance(st.body[-1], ast.Raise):
                t = st.test
                alts = t.values if isinstance(t, ast.BoolOp) and isinstance(t.op, ast.Or) else [t]
                if any(isinstance(x, ast.UnaryOp) and isinstance(x.op, ast.Not) and src(x.operand) == f"self.{flag}" for x in alts):
                    return True
            if depth > 0 and isinstance(st, ast.Expr) and isinstance(st.value, ast.Call) and isinstance(st.value.func, ast.Attribute) \
                    and isinstance(st.value.func.value, ast.Name) and st.value.func.value.id == "self" \
                    and st.value.func.attr in self.methods and st.value.func.attr != m.name \
                    and self.refuses_without(self.methods[st.value.func.attr], flag, None, depth - 1):
                return True
        return False

    def role_needed(self, L, I, g):
        """is `self.L[self.I]` evaluated by a method on a path the flags of this state allow?  (an index beyond the collection is
        harmless while the only uses are behind `assert self.hasSaveMemory`).  True / False / None: not established (the method calls
        other methods or raises before the use: whether they refuse the call in this state was not recognised)"""
        needle = f"self.{L}[self.{I}]"
        verdict = False
        for m in self.methods.values():
            if m.name == "__init__" or needle not in src(m).replace(" ", ""):
                continue
            uses = [n for n in ast.walk(m) if isinstance(n, ast.Subscript) and src(n).replace(" ", "") == needle]
            first = min([getattr(n, "lineno", 0) for n in uses] or [0])
            guarded = any(isinstance(st, ast.Assert) and "hasSaveMemory" in src(st.test) for st in m.body) or \
                all(any("hasSaveMemory" in src(t) for t, pol, kind in _guards(n, m)) for n in uses) or \
                self.refuses_without(m, "hasSaveMemory", first)
            if g.a.get("hasSaveMemory") is True:
                return True
            if not guarded:
                # ASSUMPTION of `evaluated without save memory`: nothing before the use refuses the call.  A call of another method of
                # the grid, a raise or an assert before the use that was not recognised as such a refusal leaves it open
                early = [x for st in m.body if getattr(st, "lineno", 0) < first for x in ast.walk(st)]
                if any(isinstance(x, (ast.Raise, ast.Assert)) or
                       (isinstance(x, ast.Call) and isinstance(x.func, ast.Attribute) and isinstance(x.func.value, ast.Name)
                        and x.func.value.id == "self" and x.func.attr in self.methods) for x in early):
                    verdict = None
                    continue
                return True
        return verdict

    def current_layout(self, g):
        """what the public `currentLayout` property answers in this state"""
        m = self.methods.get("currentLayout")
        rets = [n for n in ast.walk(m) if isinstance(n, ast.Return) and n.value is not None] if m is not None else []
        if len(rets) == 1:
            try:
                return self.ev(rets[0].value, g, {})
            except (AttrErr, ModelError):
                return None
        return g.a.get("_current_layout_name")

    def data_buffer(self, g):
        """(expression, buffer) that setLayout hands to the layout manager as the source of the next layout change"""
        m = self.methods.get("setLayout")
        if m is None:
            return None
        calls = [c for c in ast.walk(m) if isinstance(c, ast.Call) and isinstance(c.func, ast.Attribute) and c.func.attr == "transpose"
                 and src(c.func.value) == "self._layout_manager"]
        srcs = set()
        for c in calls:
            e = c.args[0] if c.args else next((k.value for k in c.keywords if k.arg == "source"), None)
            if e is not None:
                srcs.add(src(e))
        if len(srcs) != 1:
            return None
        e = ast.parse(next(iter(srcs)), mode="eval").body
        try:
            v = self.ev(e, g, {})
        except (AttrErr, ModelError):
            return None
        if isinstance(v, tuple) and v and v[0] == "buf":
            return (src(e), v[1])
        return None

    # ---------------------------------------------------------------- expressions
    def ev(self, e, g: GridModel, loc):
        if isinstance(e, ast.Constant):
            return e.value
        if isinstance(e, ast.Name):
            if e.id in loc:
                return loc[e.id]
            if e.id in ("True", "False"):
                return e.id == "True"
            return ("opaque", e.id)
        if isinstance(e, ast.Attribute):
            if isinstance(e.value, ast.Name) and e.value.id == "self":
                if e.attr not in g.a:
                    # a read-only property of the grid answers from the attributes it reads: its getter is evaluated in this state
                    getter = self.properties.get(e.attr)
                    if getter is not None:
                        body = [s_ for s_ in getter.body if not (isinstance(s_, ast.Expr) and isinstance(s_.value, ast.Constant))]
                        if len(body) == 1 and isinstance(body[0], ast.Return) and body[0].value is not None:
                            return self.ev(body[0].value, g, {})
                        raise ModelError(f"property `{e.attr}` of the grid is not a single `return <expression>`")
                    if e.attr in self.class_level or self.foreign_bases:
                        # ASSUMPTION of `read but undefined`: every definition of the attribute was looked at
                        raise ModelError(f"`self.{e.attr}` is defined at class level / in a base class of another module: not modelled")
                    raise AttrErr(e.attr)
                v = g.a[e.attr]
                if v is UNDEF:
                    raise AttrErr(e.attr)
                return v
            base = self.ev(e.value, g, loc)
            if isinstance(base, tuple) and base and base[0] == "layout":
                if e.attr == "name":
                    return base[1]
                return ("lattr", base[1], e.attr)
            if isinstance(base, tuple) and base and base[0] == "view" and e.attr in ("dtype",):
                return ("opaque", "dtype")
            if isinstance(base, tuple) and base and base[0] == "view" and e.attr in ("size", "shape"):
                # the view covers exactly the local block of the layout it was shaped for
                return ("lattr", base[2], e.attr)
            return ("opaque", src(e))
        if isinstance(e, ast.Subscript):
            base = self.ev(e.value, g, loc)
            if isinstance(base, (list, tuple)) and base and all(isinstance(x, tuple) and x and x[0] == "buf" for x in base) \
                    and not isinstance(e.slice, ast.Slice):
                # a collection of the grid's buffers, subscripted by a role index
                i = self.ev(e.slice, g, loc)
                if not isinstance(i, int) or isinstance(i, bool):
                    raise ModelError(f"buffer index `{src(e.slice)}` is not a concrete index")
                if not (-len(base) <= i < len(base)):
                    raise AttrErr(f"{src(e.value).replace('self.', '')}[{i}] (only {len(base)} buffers)")
                return base[i]
            if isinstance(base, tuple) and base and base[0] in ("buf", "view", "prefix"):
                # slicing: [:n] keeps the buffer; remember an explicit extent
                if isinstance(e.slice, ast.Slice) and e.slice.upper is not None and e.slice.lower is None:
                    up = self.ev(e.slice.upper, g, loc)
                    if base[0] == "buf":
                        return ("prefix", base[1], up)
                return base
            if isinstance(base, list):
                i = self.ev(e.slice, g, loc)
                if isinstance(i, int):
                    return base[i]
            return ("opaque", src(e))
        if isinstance(e, ast.IfExp):
            t_ = self.ev(e.test, g, loc)
            if isinstance(t_, bool):
                return self.ev(e.body if t_ else e.orelse, g, loc)
            return ("opaque", src(e))
        if isinstance(e, ast.ListComp) and len(e.generators) == 1 and not e.generators[0].ifs and \
                isinstance(e.generators[0].iter, ast.Call) and src(e.generators[0].iter.func) == "range" and len(e.generators[0].iter.args) == 1:
            n_ = self.ev(e.generators[0].iter.args[0], g, loc)
            if isinstance(n_, int) and not isinstance(n_, bool) and 0 <= n_ <= 8:
                return [self.ev(e.elt, g, loc) for _ in range(n_)]
            raise ModelError(f"number of buffers `{src(e.generators[0].iter.args[0])}` is not concrete")
        if isinstance(e, ast.Call):
            f = e.func
            name = f.attr if isinstance(f, ast.Attribute) else f.id if isinstance(f, ast.Name) else ""
            if name == "getLayout" and e.args:
                return ("layout", self.ev(e.args[0], g, loc))
            if name == "split" and e.args:
                b = self.ev(e.args[0], g, loc)
                ext = self.ev(e.args[1], g, loc) if len(e.args) > 1 else None
                if isinstance(b, tuple) and b[0] == "buf":
                    first = ("prefix", b[1], ext[0] if isinstance(ext, list) and ext else ext)
                    return [first, ("buf", b[1])]
                return ("opaque", src(e))
            if name == "reshape":
                b = self.ev(f.value, g, loc)
                shp = self.ev(e.args[0], g, loc) if e.args else None
                if isinstance(b, tuple) and b[0] == "prefix":
                    ext = b[2]
                    lay_ext = ext[1] if isinstance(ext, tuple) and ext[0] == "lattr" and ext[2] == "size" else None
                    lay_shp = shp[1] if isinstance(shp, tuple) and shp[0] == "lattr" and shp[2] == "shape" else None
                    if lay_ext is None or lay_shp is None or lay_ext != lay_shp:
                        raise ModelError(f"view `{src(e)[:70]}` is not (first <layout>.size elements).reshape(<same layout>.shape)")
                    return ("view", b[1], lay_shp)
                if isinstance(b, tuple) and b[0] == "view":
                    # the whole view in another shape: still all the data of that layout
                    return b
                return ("opaque", src(e))
            if name in ("ravel",):
                b = self.ev(f.value, g, loc)
                if isinstance(b, tuple) and b[0] == "view":
                    return b
                return ("opaque", src(e))
            if name == "flatten" or name == "copy":
                b = self.ev(f.value, g, loc)
                if isinstance(b, tuple) and b[0] == "view":
                    return ("copyof", b[1], b[2])
                return ("opaque", src(e))
            if name == "pop" and isinstance(f, ast.Attribute) and src(f.value) == "kwargs":
                k = self.ev(e.args[0], g, loc)
                return loc.get("kw:" + str(k), self.ev(e.args[1], g, loc) if len(e.args) > 1 else ("opaque", k))
            if name in ("empty", "zeros", "ones", "empty_like", "zeros_like", "full"):
                return g.new_buffer(src(e))
            if name in ("Get_rank", "Get_size", "len"):
                return ("opaque", name)
            return ("opaque", src(e))
        if isinstance(e, ast.List):
            return [self.ev(x, g, loc) for x in e.elts]
        if isinstance(e, ast.Tuple):
            return tuple(self.ev(x, g, loc) for x in e.elts)
        if isinstance(e, ast.BoolOp):
            if isinstance(e.op, ast.And):
                for v in e.values:
                    r = self.ev(v, g, loc)
                    if r is False:
                        return False
                    if r is not True:
                        raise ModelError(f"condition `{src(v)}` is not a concrete flag")
                return True
            for v in e.values:
                r = self.ev(v, g, loc)
                if r is True:
                    return True
                if r is not False:
                    raise ModelError(f"condition `{src(v)}` is not a concrete flag")
            return False
        if isinstance(e, ast.UnaryOp) and isinstance(e.op, ast.Not):
            r = self.ev(e.operand, g, loc)
            if isinstance(r, bool):
                return not r
            raise ModelError(f"condition `{src(e)}` is not a concrete flag")
        if isinstance(e, ast.Compare) and len(e.ops) == 1:
            a, b = self.ev(e.left, g, loc), self.ev(e.comparators[0], g, loc)

            def unknown(v):
                # ASSUMPTION of a decided comparison: both values are known to the model (a name of a layout, a flag, a number, None, a
                # buffer); two values the model does not follow are not `equal` because they are written the same way
                if isinstance(v, tuple) and v and v[0] in ("opaque", "lattr"):
                    return True
                return isinstance(v, (tuple, list)) and any(unknown(x) for x in v)
            if unknown(a) or unknown(b):
                return ("opaque", src(e))
            if isinstance(e.ops[0], ast.Eq):
                return a == b
            if isinstance(e.ops[0], ast.NotEq):
                return a != b
            if isinstance(e.ops[0], (ast.Is, ast.IsNot)):
                r = (a is None) if b is None else (a == b)
                return r if isinstance(e.ops[0], ast.Is) else not r
            return ("opaque", src(e))
        return ("opaque", src(e))

    # ---------------------------------------------------------------- statements
    def run(self, mname, g: GridModel, args: dict, depth=0):
        m = self.methods[mname]
        loc = dict(args)
        # optional parameters the call does not give take their defaults
        params = [a.arg for a in m.args.args]
        for p_, d in zip(params[len(params) - len(m.args.defaults):], m.args.defaults):
            if p_ not in loc:
                loc[p_] = self.ev(d, g, {})
        for a, d in zip(m.args.kwonlyargs, m.args.kw_defaults):
            if a.arg not in loc and d is not None:
                loc[a.arg] = self.ev(d, g, {})
        try:
            self.block(m.body, g, loc)
        except _Return:
            pass

    def block(self, stmts, g, loc):
        for st in stmts:
            self.stmt(st, g, loc)

    def stmt(self, st, g, loc):
        if isinstance(st, ast.Expr) and isinstance(st.value, ast.Constant):
            return
        if isinstance(st, ast.Assert):
            r = self.ev(st.test, g, loc)
            if r is False:
                raise Refused(src(st.test))
            if r is not True:
                raise ModelError(f"assert `{src(st.test)}` is not a concrete flag")
            return
        if isinstance(st, ast.If):
            r = self.ev(st.test, g, loc)
            if r is True:
                self.block(st.body, g, loc)
            elif r is False:
                self.block(st.orelse, g, loc)
            else:
                raise ModelError(f"branch `{src(st.test)}` is not a concrete flag")
            return
        if isinstance(st, ast.Assign):
            val = self.ev(st.value, g, loc)
            for t in st.targets:
                self.assign(t, val, st, g, loc)
            return
        if isinstance(st, ast.Expr) and isinstance(st.value, ast.Call):
            c = st.value
            f = c.func
            is_mgr = isinstance(f, ast.Attribute) and f.attr == "transpose" and (
                src(f.value) == "self._layout_manager" or
                (isinstance(f.value, ast.Name) and f.value.id in loc and loc[f.value.id] == g.a.get("_layout_manager") and loc[f.value.id] is not None))
            if is_mgr:
                if any(isinstance(a, ast.Starred) for a in c.args) or any(k.arg is None for k in c.keywords):
                    raise ModelError(f"call `{src(st)[:60]}`: star-arguments are not modelled")
                args = [self.ev(a, g, loc) for a in c.args]
                kw = {k.arg: self.ev(k.value, g, loc) for k in c.keywords}
                names = ["source", "dest", "source_name", "dest_name", "buf"]
                b = dict(zip(names, args))
                b.update(kw)
                self.transpose(g, b, st)
                return
            if src(f) in ("np.copyto", "numpy.copyto") and len(c.args) == 2 and all(k.arg == "casting" for k in c.keywords):
                # np.copyto(dst, src) is the store dst[...] = src
                tgt = self.ev(c.args[0], g, loc)
                if isinstance(tgt, tuple) and tgt and tgt[0] in ("prefix", "buf", "view"):
                    self.store(g, tgt, self.ev(c.args[1], g, loc), st)
                    return
                raise ModelError(f"store target not modelled: `{src(c.args[0])[:60]}`")
            if isinstance(f, ast.Attribute) and isinstance(f.value, ast.Name) and f.value.id == "self" and f.attr in self.methods \
                    and f.attr != "__init__":
                # another method of the grid: its body is interpreted in place
                callee = self.methods[f.attr]
                params = [a.arg for a in callee.args.args if a.arg != "self"]
                if any(isinstance(a, ast.Starred) for a in c.args) or len(c.args) > len(params) or callee.args.vararg or callee.args.kwarg:
                    raise ModelError(f"call `{src(st)[:60]}` of a method of the grid not modelled")
                bound = {p_: self.ev(a, g, loc) for p_, a in zip(params, c.args)}
                kwonly = {a.arg: d for a, d in zip(callee.args.kwonlyargs, callee.args.kw_defaults)}
                for k in c.keywords:
                    if k.arg is None or (k.arg not in params and k.arg not in kwonly) or k.arg in bound:
                        raise ModelError(f"call `{src(st)[:60]}` of a method of the grid not modelled")
                    bound[k.arg] = self.ev(k.value, g, loc)
                for p_, d in kwonly.items():
                    if p_ not in bound and d is None:
                        raise ModelError(f"call `{src(st)[:60]}`: keyword-only argument `{p_}` missing")
                dflt = dict(zip(params[len(params) - len(callee.args.defaults):], callee.args.defaults))
                for p_ in params:
                    if p_ not in bound:
                        if p_ not in dflt:
                            raise ModelError(f"call `{src(st)[:60]}`: argument `{p_}` missing")
                        bound[p_] = self.ev(dflt[p_], g, {})
                self._depth = getattr(self, "_depth", 0) + 1
                try:
                    if self._depth > 4:
                        raise ModelError(f"call `{src(st)[:60]}`: methods of the grid call one another too deeply")
                    self.run(f.attr, g, bound)
                finally:
                    self._depth -= 1
                return
            if isinstance(f, ast.Attribute) and f.attr in ("append", "extend") and isinstance(f.value, ast.Attribute) \
                    and isinstance(f.value.value, ast.Name) and f.value.value.id == "self" and isinstance(g.a.get(f.value.attr), list) \
                    and len(c.args) == 1 and not c.keywords:
                # the collection of buffers grows (the optional save buffer added after the two working buffers)
                v = self.ev(c.args[0], g, loc)
                more = [v] if f.attr == "append" else v
                if not isinstance(more, list):
                    raise ModelError(f"`{src(st)[:60]}`: what is added to self.{f.value.attr} is not read")
                g.a[f.value.attr] = list(g.a[f.value.attr]) + list(more)
                return
            # any other call that is handed a buffer of the grid (or the view) may write it: not modelled
            touched = [x for x in list(c.args) + [k.value for k in c.keywords] + ([f.value] if isinstance(f, ast.Attribute) else [])
                       if any(isinstance(n, ast.Attribute) and src(n) in ("self._my_data", "self._f") for n in ast.walk(x))]

            def is_buffer(v):
                if isinstance(v, tuple) and v and v[0] in ("buf", "view", "prefix", "copyof"):
                    return True
                return isinstance(v, (list, tuple)) and any(is_buffer(x) for x in v)
            for x in list(c.args) + [k.value for k in c.keywords] + ([f.value] if isinstance(f, ast.Attribute) else []):
                # (also through a local name or another attribute that holds one of the buffers)
                try:
                    if is_buffer(self.ev(x.value if isinstance(x, ast.Starred) else x, g, loc)):
                        touched.append(x)
                except (AttrErr, ModelError):
                    pass
            if touched:
                raise ModelError(f"call `{src(st)[:70]}` receives a buffer of the grid: its effect on the buffer is not modelled")
            return
        if isinstance(st, ast.Pass):
            return
        if isinstance(st, ast.Return):
            raise _Return()
        if isinstance(st, ast.Raise):
            raise Refused(src(st)[:60])          # the operation is refused with an exception
        raise ModelError(f"statement kind not modelled: `{src(st)[:60]}`")

    def assign(self, t, val, st, g, loc):
        if isinstance(t, ast.Name):
            loc[t.id] = val
        elif isinstance(t, ast.Attribute) and isinstance(t.value, ast.Name) and t.value.id == "self":
            g.a[t.attr] = list(val) if isinstance(val, list) else val
        elif isinstance(t, ast.Tuple):
            if not (isinstance(val, tuple) and len(val) == len(t.elts)):
                raise ModelError(f"tuple assignment not modelled: `{src(st)[:60]}`")
            for e, v in zip(t.elts, val):
                self.assign(e, v, st, g, loc)
        elif isinstance(t, ast.Subscript):
            if isinstance(t.value, ast.Attribute) and isinstance(t.value.value, ast.Name) and t.value.value.id == "self" \
                    and isinstance(g.a.get(t.value.attr), list) and isinstance(val, tuple) and val and val[0] == "buf":
                # a buffer reference stored into the collection of buffers (the roles are exchanged by exchanging list entries)
                i = self.ev(t.slice, g, loc)
                lst = list(g.a[t.value.attr])
                if not isinstance(i, int) or isinstance(i, bool) or not (-len(lst) <= i < len(lst)):
                    raise ModelError(f"buffer index `{src(t.slice)}` is not a concrete valid index")
                lst[i] = val
                g.a[t.value.attr] = lst
                return
            tgt = self.ev(t, g, loc)
            if isinstance(tgt, tuple) and tgt[0] in ("prefix", "buf", "view"):
                self.store(g, tgt, val, st)
            else:
                raise ModelError(f"store target not modelled: `{src(t)[:60]}`")
        else:
            raise ModelError(f"assignment target not modelled: `{src(t)[:60]}`")

    def store(self, g, tgt, val, st):
        b = tgt[1]
        if isinstance(val, tuple) and val[0] in ("copyof", "view"):
            srcb, lay = val[1], val[2]
            ext_ok = True
            if tgt[0] == "prefix":
                e = tgt[2]
                ext_ok = isinstance(e, tuple) and e[0] == "lattr" and e[2] == "size" and e[1] == lay
            c = g.contents[srcb]
            if ext_ok and c["layout"] == lay:
                g.contents[b] = dict(cur=c["cur"], saved=c["saved"], layout=lay)
            else:
                g.contents[b] = dict(cur=False, saved=False, layout=None)
                g.events.append(("partial-copy", src(st)[:80]))
        elif isinstance(val, tuple) and val and val[0] in ("prefix", "buf"):
            # the leading elements of another buffer of the grid: a copy of its contents when the extent is that of the layout it holds
            srcb = val[1]
            c = g.contents[srcb]
            ext = val[2] if val[0] == "prefix" else None
            text = tgt[2] if tgt[0] == "prefix" else None
            whole = ext is None and text is None

            def covers(e_):
                return e_ is None or (isinstance(e_, tuple) and e_[0] == "lattr" and e_[2] == "size" and e_[1] == c["layout"])
            if srcb == b:
                return
            if whole or (covers(ext) and covers(text)):
                g.contents[b] = dict(cur=c["cur"], saved=c["saved"], layout=c["layout"])
            else:
                g.contents[b] = dict(cur=False, saved=False, layout=None)
                e_ = ext if not covers(ext) else text
                if isinstance(e_, tuple) and e_[0] == "lattr" and e_[2] == "size" and c["layout"] is not None:
                    g.events.append(("partial-copy", f"`{src(st)[:90]}` copies the first size({e_[1]}) elements - the local block size of layout `{e_[1]}` - "
                                     f"of a buffer that holds the field in layout `{c['layout']}`: on a rank whose block is larger in `{c['layout']}` than "
                                     f"in `{e_[1]}` (extents not divisible by the process counts) the tail of the field is not copied and stale values remain"))
                elif c["layout"] is not None and (c["cur"] or c["saved"]):
                    g.events.append(("partial-copy", f"`{src(st)[:90]}`: the number of elements copied is not the size of the layout the source "
                                     f"buffer holds (`{c['layout']}`)"))
        elif isinstance(val, tuple) and val and val[0] == "opaque":
            raise ModelError(f"value stored into a buffer of the grid is not recognised: `{src(st)[:70]}`")
        else:
            g.contents[b] = dict(cur=False, saved=False, layout=None)

    def transpose(self, g, b, st):
        s_, d_, sn, dn, buf = b.get("source"), b.get("dest"), b.get("source_name"), b.get("dest_name"), b.get("buf")
        if not (isinstance(s_, tuple) and s_[0] == "buf" and isinstance(d_, tuple) and d_[0] == "buf"):
            raise ModelError("transpose is not called with whole buffers of _my_data")
        if not (isinstance(sn, str) and isinstance(dn, str)):
            raise ModelError("the layout names handed to transpose are not known to the model")
        if s_[1] == d_[1] or (isinstance(buf, tuple) and buf[0] == "buf" and buf[1] in (s_[1], d_[1])):
            g.events.append(("aliasing", "transpose called with overlapping buffers"))
            for i in {s_[1], d_[1]}:
                g.contents[i] = dict(cur=False, saved=False, layout=None)
            return
        c = g.contents[s_[1]]
        # contract (C01/C03): field source(in layout sn) -> dest (layout dn); source kept iff buf given; buf clobbered
        if c["layout"] == sn:
            same = (sn == dn)
            g.contents[d_[1]] = dict(cur=c["cur"], saved=c["saved"] and same, layout=dn)
        else:
            g.contents[d_[1]] = dict(cur=False, saved=False, layout=None)
            g.events.append(("wrong-source-layout", f"transpose told the data is in `{sn}` but it is in `{c['layout']}`"))
        if isinstance(buf, tuple) and buf[0] == "buf":
            g.contents[buf[1]] = dict(cur=False, saved=False, layout=None)
        elif buf is None:
            g.contents[s_[1]] = dict(cur=False, saved=False, layout=None)
        else:
            raise ModelError("buf argument of transpose is neither a buffer of _my_data nor absent")


# --------------------------------------------------------------------------
def roles(ex, g):
    """the expressions through which the methods reach the grid's buffers, with the buffer each denotes in this state:
    `self.X` (an attribute bound to a buffer) and `self.L[self.I]` (a collection of buffers subscripted by an index attribute, where the
    class is written that way).  [(text, buffer number)]"""
    out = []
    text = ex.class_text
    for k, v in sorted(g.a.items()):
        if isinstance(v, tuple) and v and v[0] == "buf":
            out.append((f"self.{k}", v[1]))
    lists = [k for k, v in g.a.items() if isinstance(v, list) and v and all(isinstance(x, tuple) and x and x[0] == "buf" for x in v)]
    ints = [k for k, v in g.a.items() if isinstance(v, int) and not isinstance(v, bool)]
    for L in sorted(lists):
        for I in sorted(ints):
            if f"self.{L}[self.{I}]" in text:
                i = g.a[I]
                if -len(g.a[L]) <= i < len(g.a[L]):
                    out.append((f"self.{L}[self.{I}]", g.a[L][i][1]))
                else:
                    need = ex.role_needed(L, I, g)
                    if need is None:
                        raise AnalysisError(f"C04: `self.{L}[self.{I}]` lies outside the collection in a state of the grid, and whether a method "
                                            "evaluates it there (or refuses the call first) could not be established")
                    if need:
                        out.append((f"self.{L}[self.{I}]", None))
    return out


def check_state(g: GridModel, spec, has_save, ex=None):
    """invariants after every operation -> list of (rule, msg)"""
    bad = []
    a = g.a
    rl = roles(ex, g) if ex is not None else []
    broken = [t for t, b in rl if b is None]
    if broken:
        return [("T1-index-permutation", f"`{broken[0]}` does not denote one of the grid's buffers")]
    # ASSUMPTION: two role expressions of the SAME kind (two entries `self.L[self.I]` of the collection, or - in a class without such a
    # collection - two attributes) are different roles; an attribute that additionally names one of the collection's buffers is a
    # convenience alias of that role, not a second role
    indexed = [(t, b) for t, b in rl if "[" in t]
    for group in ([indexed] if indexed else [[(t, b) for t, b in rl if "[" not in t]]):
        seen = {}
        for t, b in group:
            if b in seen:
                bad.append(("T1-index-permutation", f"`{seen[b]}` and `{t}` denote the same buffer: the data, scratch and save roles must be "
                            "played by distinct buffers"))
                return bad
            seen[b] = t
    f = a.get("_f")
    lay = a.get("_layout")
    cur = ex.current_layout(g) if ex is not None else a.get("_current_layout_name")
    if not (isinstance(f, tuple) and f[0] == "view"):
        # ASSUMPTION of every T-rule: the methods were interpreted completely by the model (anything it cannot read raises ModelError -> T0
        # undecided); LayoutManager.transpose is its contract
        bad.append(("T3-view-coherence", f"_f is not a view of a data buffer: {f!r}"))
        return bad
    src_buf = ex.data_buffer(g) if ex is not None else None
    if src_buf is not None and f[1] != src_buf[1]:
        bad.append(("T3-view-coherence", f"_f views buffer {f[1]} but the next layout change reads the field from `{src_buf[0]}` = buffer {src_buf[1]}"))
    if not (isinstance(lay, tuple) and lay[0] == "layout" and lay[1] == cur and f[2] == cur):
        bad.append(("T3-view-coherence", f"_f is shaped for layout `{f[2]}`, _layout is `{lay}`, currentLayout is `{cur}`"))
    c = g.contents[f[1]]
    if not (c["cur"] and c["layout"] == f[2]):
        bad.append(("T2-visible-field", f"the buffer visible through the grid does not hold the current field in the "
                    f"current layout (holds cur={c['cur']} layout={c['layout']}, view layout {f[2]})"))
    if cur != spec["layout"]:
        bad.append(("T2-visible-field", f"currentLayout is `{cur}` but the operations put the array in `{spec['layout']}`"))
    if has_save and spec["saved"] is not None:
        holders = [i for i, sc in enumerate(g.contents) if sc["saved"] and sc["layout"] == spec["saved"] and i != f[1]]
        if not holders:
            sv = [(i, sc["saved"], sc["layout"]) for i, sc in enumerate(g.contents) if i != f[1]]
            bad.append(("T4-save-protected", "a save is held but no buffer other than the visible one contains the saved snapshot any more "
                        f"(other buffers (number, saved, layout): {sv}, expected layout {spec['saved']})"))
        if "notSaved" in a and a["notSaved"] is not False:
            bad.append(("T4-save-protected", "a save is held but notSaved is not False"))
    if has_save and spec["saved"] is None and "notSaved" in a and a["notSaved"] is not True:
        bad.append(("T4-save-protected", "no save is held but notSaved is not True"))
    return bad


def explore(chk, ex: Exec, has_save: bool, only=None):
    rel = U.GRID
    g0 = GridModel()
    init_args = {"eta_grid": ("opaque", "eta"), "bsplines": ("opaque", "b"), "layouts": ("opaque", "mgr"),
                 "chosenLayout": "A", "comm": ("opaque", "comm"), "kwargs": ("opaque", "kwargs"),
                 "kw:allocateSaveMemory": has_save, "kw:dtype": ("opaque", "dtype")}
    # __init__: interpret only the statements that touch the modelled attributes
    init = ex.methods["__init__"]
    g0.a["_layout_manager"] = ("opaque", "mgr")
    try:
        run_init(ex, init, g0, init_args)
    except (ModelError, AttrErr) as e:
        raise AnalysisError(f"C04: Grid.__init__ not interpretable by the typestate model: {e}")
    fview = g0.a.get("_f")
    if isinstance(fview, tuple) and fview[0] == "view":
        g0.contents[fview[1]] = dict(cur=True, saved=False, layout=fview[2])
    spec0 = {"layout": "A", "saved": None}
    ops = [("setLayout", L) for L in LAYOUTS] + [("write", None), ("saveGridValues", None),
                                                  ("freeGridSave", None), ("restoreGridValues", None)]
    seen = {}
    todo = [(g0, spec0, ())]
    transitions = 0
    bad0 = check_state(g0, spec0, has_save, ex)
    for rule, msg in bad0:
        if only is None or rule in only:
            chk.ob(rule, init, "Grid.__init__", False, msg, file=rel, func="Grid.__init__")
    results = {}     # (rule, method) -> list of (ok, msg, history)

    def note(rule, method, ok, msg, hist):
        results.setdefault((rule, method), []).append((ok, msg, hist))

    while todo:
        g, spec, hist = todo.pop(0)          # breadth first: the histories reported are the shortest
        k = (g.key(), tuple(sorted(spec.items(), key=str)))
        if k in seen:
            continue
        seen[k] = hist
        for op, arg in ops:
            g2 = g.clone()
            g2.events = []
            spec2 = dict(spec)
            h2 = hist + ((op, arg),)
            # what the specification says
            should_refuse = False
            if op == "setLayout":
                spec2["layout"] = arg
            elif op == "saveGridValues":
                if not has_save or spec["saved"] is not None:
                    should_refuse = True
                else:
                    spec2["saved"] = spec["layout"]
            elif op == "freeGridSave":
                if not has_save or spec["saved"] is None:
                    should_refuse = True
                else:
                    spec2["saved"] = None
            elif op == "restoreGridValues":
                if not has_save or spec["saved"] is None:
                    should_refuse = True
                else:
                    spec2["layout"] = spec["saved"]
                    spec2["saved"] = None
            transitions += 1
            try:
                if op == "write":
                    f = g2.a["_f"]
                    for i, c in enumerate(g2.contents):
                        c["cur"] = False
                    g2.contents[f[1]] = dict(cur=True, saved=False, layout=f[2])
                else:
                    pre_saved = [dict(c) for c in g2.contents]
                    ex.run(op, g2, {"new_layout": arg} if op == "setLayout" else {})
                    if op == "freeGridSave":
                        for c in g2.contents:
                            c["saved"] = False
                    if op == "saveGridValues":
                        # everything equal to the new snapshot is 'saved'; older snapshots are not
                        sv = g2.a.get("_saveIdx")
                        for i, c in enumerate(g2.contents):
                            c["saved"] = bool(c["cur"] and c["layout"] == spec2["saved"])
                    if op == "restoreGridValues":
                        # the snapshot becomes the current field
                        for c in g2.contents:
                            c["cur"] = c["saved"]
                            c["saved"] = False
                refused = False
            except Refused as r:
                refused = True
            except AttrErr as e:
                # ASSUMPTION (checked in Exec.ev): the attribute is neither a property, nor defined at class level, nor inherited from a class the
                # model does not see
                note("T6-attribute-defined", op, False, f"self.{e} is read but undefined in this state "
                     f"({'with' if has_save else 'without'} save memory)", h2)
                continue
            except ModelError as e:
                raise AnalysisError(f"C04: Grid.{op} not interpretable by the typestate model: {e}")
            meth = op if op != "write" else "getAllData"
            if should_refuse != refused and op != "write":
                note("T5-refusals", op, False,
                     (f"{op} is accepted although it must be refused" if should_refuse else f"{op} is refused although it is allowed")
                     + f" ({'with' if has_save else 'without'} save memory, saved={'yes' if spec['saved'] else 'no'})", h2)
                if should_refuse:
                    continue
            else:
                if op != "write":
                    note("T5-refusals", op, True, "refused exactly when the specification refuses", h2)
            if refused:
                # state must be unchanged by a refused call (asserts dominate mutations)
                if g2.key() != g.key():
                    note("T5-refusal-before-mutation", op, False, f"{op} mutated the grid before refusing", h2)
                else:
                    note("T5-refusal-before-mutation", op, True, "refusing assert precedes every mutation", h2)
                continue
            for ev in g2.events:
                note("T7-copy-extent" if ev[0] == "partial-copy" else "T7-transpose-call", op, False, f"{ev[0]}: {ev[1]}", h2)
            bad = check_state(g2, spec2, has_save, ex)
            rules = {"T1-index-permutation", "T2-visible-field", "T3-view-coherence", "T4-save-protected"}
            for rule, msg in bad:
                note(rule, meth if rule != "T2-visible-field" or op != "write" else op, False, msg, h2)
                rules.discard(rule)
            for rule in rules:
                note(rule, meth, True, "holds in every reachable state", h2)
            if not bad:
                todo.append((g2, spec2, h2))
    return results, len(seen), transitions


def run_init(ex: Exec, init, g, args):
    """interpret the constructor: every statement the model can read is applied; a statement it cannot read is skipped when nothing the
    typestate methods use depends on it (else the model is not applicable: ModelError)"""
    loc = dict(args)
    skipped = []
    for st in init.body:
        trial = g.clone()
        tloc = dict(loc)
        try:
            ex.stmt(st, trial, tloc)
        except Refused:
            raise ModelError("assert failed in __init__")
        except (ModelError, AttrErr) as e:
            skipped.append((st, str(e)))
            continue
        g.a, g.contents, g.nbuf, g.alloc = trial.a, trial.contents, trial.nbuf, trial.alloc
        loc.clear()
        loc.update(tloc)
    for k in ("_f", "_layout", "hasSaveMemory"):
        if k not in g.a:
            why = [w for st, w in skipped if f"self.{k}" in src(st)]
            raise ModelError(f"__init__ does not define self.{k}" + (f" in a way the model reads ({why[0]})" if why else ""))
    # attributes the typestate methods read must not come from a skipped statement
    used = set()
    for nm in ("setLayout", "saveGridValues", "freeGridSave", "restoreGridValues", "currentLayout"):
        m = ex.methods.get(nm)
        if m is not None:
            used |= {n.attr for n in ast.walk(m) if isinstance(n, ast.Attribute) and isinstance(n.value, ast.Name) and n.value.id == "self"}
    for st, w in skipped:
        defs = {t.attr for n in ast.walk(st) if isinstance(n, (ast.Assign, ast.AugAssign)) for t in (n.targets if isinstance(n, ast.Assign) else [n.target])
                for t in ast.walk(t) if isinstance(t, ast.Attribute) and isinstance(t.value, ast.Name) and t.value.id == "self"}
        lost = sorted((defs & used) - set(g.a))
        if lost:
            raise ModelError(f"`{src(st)[:60]}` defines self.{lost[0]}, which the typestate methods use, in a way the model does not read ({w})")


_ALLOCS = ("np.empty", "np.zeros", "numpy.empty", "numpy.zeros", "np.ones", "np.empty_like", "np.zeros_like")


def alloc_agreement(chk, mod):
    """all buffers of one grid have the same size and dtype (sibling agreement) and the size the layout manager advertises.  The
    buffers are the arrays the constructor allocates and keeps in attributes - as a list (`self._my_data = [...]`) or one by one
    (`self._data = np.empty(...)`): all allocation sites are compared with one another, whatever the container."""
    import re
    init = mod.func("Grid.__init__")
    env = inline_locals(init)
    rule = "T8-buffer-allocation-agreement"
    # names under which the constructor knows the layout manager
    mgr = {"self._layout_manager"}
    for a in ast.walk(init):
        if isinstance(a, ast.Assign) and src(a.targets[0]) == "self._layout_manager" and isinstance(a.value, ast.Name):
            mgr.add(a.value.id)

    def is_alloc(e):
        return isinstance(e, ast.Call) and src(e.func) in _ALLOCS and e.args

    def sig(e):
        if src(e.func).endswith("_like"):
            # size and element type are those of the prototype array
            return ("like " + src(e.args[0]), "like " + src(e.args[0]) if not any(k.arg == "dtype" for k in e.keywords) else
                    [src(k.value) for k in e.keywords if k.arg == "dtype"][0])
        size = src(e.args[0])
        dt = [src(k.value) for k in e.keywords if k.arg == "dtype"]
        dt = dt[0] if dt else (src(e.args[1]) if len(e.args) > 1 else "<default float>")
        return (size, dt)
    groups = []            # (statement, [signatures], unknown?) per attribute assignment that stores buffers
    for a in ast.walk(init):
        if not (isinstance(a, ast.Assign) and len(a.targets) == 1 and isinstance(a.targets[0], ast.Attribute)
                and isinstance(a.targets[0].value, ast.Name) and a.targets[0].value.id == "self"):
            continue
        v = expand(a.value, env) if isinstance(a.value, ast.Name) else a.value
        if isinstance(v, ast.BinOp) and isinstance(v.op, ast.Mult) and any(isinstance(x, ast.List) and any(is_alloc(expand(y, env)) for y in x.elts)
                                                                           for x in (v.left, v.right)):
            # ASSUMPTION: a list display containing an allocation call is multiplied by a number: every entry is the SAME array object
            chk.ob(rule, a, f"{src(a.targets[0])} = [...] * n", False,
                   f"`{src(a.value)[:70]}` repeats ONE array object: the rotating buffers alias each other, a layout change or a save overwrites "
                   "the data it reads", file=U.GRID, func="Grid.__init__")
            continue
        elts = None
        if isinstance(v, (ast.List, ast.Tuple)):
            elts = list(v.elts)
        elif isinstance(v, ast.ListComp) and len(v.generators) == 1 and not v.generators[0].ifs:
            elts = [v.elt]            # every buffer is the same expression by construction
        elif is_alloc(v):
            elts = [v]
        if elts is None:
            if src(a.targets[0]) == "self._my_data":
                chk.ob(rule, a, "self._my_data = ...", None, f"allocation `{src(a.value)[:60]}` not recognised", file=U.GRID, func="Grid.__init__")
            continue
        xs = [expand(el, env) for el in elts]
        if not any(is_alloc(x) for x in xs):
            continue
        groups.append((a, [sig(x) if is_alloc(x) else ("?", src(x)) for x in xs], any(not is_alloc(x) for x in xs)))
    # buffers added afterwards to a collection the constructor keeps (`self.X.append(np.empty(...))`, `self.X += [...]`): siblings of the
    # buffers the collection was created with
    for k_, (a, sigs_, unk) in enumerate(list(groups)):
        t_ = src(a.targets[0])
        for n in ast.walk(init):
            more = None
            if isinstance(n, ast.Call) and isinstance(n.func, ast.Attribute) and src(n.func.value) == t_ and n.func.attr in ("append", "extend", "insert") \
                    and n.args and not n.keywords:
                x = n.args[-1]
                more = [x] if n.func.attr in ("append", "insert") else (list(x.elts) if isinstance(x, (ast.List, ast.Tuple)) else [x])
                if n.func.attr == "extend" and not isinstance(x, (ast.List, ast.Tuple)):
                    unk = True
            elif isinstance(n, ast.AugAssign) and src(n.target) == t_:
                more = list(n.value.elts) if isinstance(n.op, ast.Add) and isinstance(n.value, (ast.List, ast.Tuple)) else [n.value]
                if not (isinstance(n.op, ast.Add) and isinstance(n.value, (ast.List, ast.Tuple))):
                    unk = True
            if more is None:
                continue
            for x in more:
                xx = expand(x, env)
                if is_alloc(xx):
                    sigs_.append(sig(xx))
                else:
                    unk = True
        groups[k_] = (a, sigs_, unk)
    if not groups:
        chk.ob(rule, init, "buffers allocated by Grid.__init__", None,
               "no allocation of the grid's buffers (np.empty/np.zeros stored in an attribute) found in Grid.__init__", file=U.GRID, func="Grid.__init__")
        return
    # buffers that are alternatives of one another (arms of an `if`) or siblings (several attributes): all must agree
    lists = [g_ for g_ in groups if isinstance(g_[0].value, (ast.List, ast.Tuple, ast.ListComp)) or
             isinstance(expand(g_[0].value, env) if isinstance(g_[0].value, ast.Name) else g_[0].value, (ast.List, ast.Tuple, ast.ListComp))]
    units = [[g_] for g_ in lists] if lists else [groups]
    for unit in units:
        sigs = [s_ for g_ in unit for s_ in g_[1]]
        unknown = any(g_[2] for g_ in unit)
        node = unit[0][0]
        what = (f"{src(node.targets[0])} = [...{len(sigs)} buffer expression(s)]" if len(unit) == 1 and lists else
                f"{', '.join(src(g_[0].targets[0]) for g_ in unit)}: {len(sigs)} buffer allocation(s)")
        ok, bad = None, None
        if not unknown:
            if len(set(sigs)) != 1:
                # ASSUMPTION: every buffer of the collection was read (display, comprehension, append/extend/+=); size and dtype texts have the
                # constructor's locals written out
                bad = (f"buffers differ in size or dtype: {sorted(set(sigs))} - after the roles are exchanged the field would live in an array of another "
                       "type/size (a float buffer drops the imaginary part of a complex field)")
            elif any(str(x).startswith("like ") for x in sigs[0]):
                pass          # taken from a prototype array: its own size and type are not followed (undecided)
            elif sigs[0][1] == "<default float>":
                bad = "the buffers are allocated without the grid's dtype: a complex grid is stored in float64 arrays"
            elif sigs[0][0] in {m + ".bufferSize" for m in mgr}:
                ok = True
            elif re.search(r"\.size$|max_block_size$|np\.prod\(.*shape\)$", sigs[0][0]):
                # ASSUMPTION: the size text ends in a LOCAL block size (.size / max_block_size / np.prod(...shape)) and is not wrapped in anything
                # else
                bad = (f"the buffers hold `{sigs[0][0]}` elements: the transposes need arrays of the manager's bufferSize (padded exchange blocks x "
                       "communicator size), which is larger than a local block for uneven distributions")
        chk.pat(rule, node, what, ok, "all rotating buffers are allocated with the manager's bufferSize and the grid's dtype", bad,
                file=U.GRID, func="Grid.__init__")


# --------------------------------------------------------------------------
def driver_protocol(chk):
    """C04-6: in the time loop a save is followed by exactly one restore/free before the next save"""
    mod = chk.mod(U.DRIVER)
    fn = chk.func(U.DRIVER, "main")
    CALLS = {"saveGridValues": "save", "restoreGridValues": "restore", "freeGridSave": "free"}

    def seq(stmts, states):
        # states: set of (saved: bool, error)
        for st in stmts:
            # what the statement (re)binds: assumptions made about tests that read these names no longer hold
            stored = {x.id for x in ast.walk(st) if isinstance(x, ast.Name) and isinstance(x.ctx, ast.Store)} if not isinstance(st, ast.If) else set()
            if not isinstance(st, (ast.If, ast.For, ast.While)):
                # a method call may change what the attributes of its receiver (and of its arguments) answer
                for c_ in ast.walk(st):
                    if isinstance(c_, ast.Call):
                        stored |= {x.id for y in ([c_.func.value] if isinstance(c_.func, ast.Attribute) else []) + list(c_.args) + [k.value for k in c_.keywords]
                                   for x in ast.walk(y) if isinstance(x, ast.Name)}
            if stored:
                states = {(sv, frozenset(a_ for a_ in (r or ()) if not (set(a_[2]) & stored)) or None) for sv, r in states}
            if isinstance(st, ast.If):
                # two tests with the same text on names that were not rebound in between have the same outcome on a path (a save
                # and its restore guarded by one flag): the outcome assumed at the first is kept for the second
                t = src(st.test)
                names = tuple(sorted({x.id for x in ast.walk(st.test) if isinstance(x, ast.Name)}))
                pure = not any(isinstance(x, ast.Call) for x in ast.walk(st.test))
                sa, sb = set(), set()
                for sv, r in states:
                    known = dict((a_[0], a_[1]) for a_ in (r or ()))
                    if pure and t in known:
                        (sa if known[t] else sb).add((sv, r))
                    elif pure:
                        sa.add((sv, frozenset(set(r or ()) | {(t, True, names)})))
                        sb.add((sv, frozenset(set(r or ()) | {(t, False, names)})))
                    else:
                        sa.add((sv, r))
                        sb.add((sv, r))
                a = seq(st.body, sa) if sa else set()
                b = seq(st.orelse, sb) if sb else set()
                states = a | b
            elif isinstance(st, (ast.While, ast.For)):
                inner = set(states)
                for _ in range(3):
                    inner |= seq(st.body, set(inner))
                bad = [x for x in seq(st.body, set(s for s in inner))]
                states = inner
            else:
                calls = [c for c in ast.walk(st) if isinstance(c, ast.Call) and isinstance(c.func, ast.Attribute)
                         and c.func.attr in CALLS]
                calls.sort(key=lambda c: (c.lineno, c.col_offset))
                for c in calls:
                    recv = src(c.func.value)
                    new = set()
                    for (sv, r) in states:
                        cur = dict(sv)
                        held = cur.get(recv, False)
                        k = CALLS[c.func.attr]
                        if k == "save":
                            chk.ob("T9-driver-save-protocol", c, src(c), not held,
                                   "saveGridValues is reached with no save held" if not held else
                                   "saveGridValues can be reached while a save is still held (would be refused at run time)",
                                   file=U.DRIVER, func="main")
                            cur[recv] = True
                        else:
                            chk.ob("T9-driver-save-protocol", c, src(c), held,
                                   f"{c.func.attr} is reached with a save held" if held else
                                   f"{c.func.attr} can be reached with no save held (would be refused at run time)",
                                   file=U.DRIVER, func="main")
                            cur[recv] = False
                        new.add((tuple(sorted(cur.items())), r))
                    states = new
        return states
    out = seq(fn.body, {((), None)})
    for sv, r in out:
        held = [k for k, v in sv if v]
        chk.ob("T9-driver-save-protocol", fn, "end of main", True, "protocol analysed to the end of main", file=U.DRIVER,
               func="main", nontrivial=False)


def typestate(chk, mod, cls, only=None):
    """`only`: report just these rules (another property that needs one invariant of the typestate model, e.g. C02: the Layout object
    the accessors read is the layout the grid says it is in)"""
    for m in ("__init__", "setLayout", "saveGridValues", "freeGridSave", "restoreGridValues", "getAllData"):
        chk.func(U.GRID, f"Grid.{m}")
    ex = Exec(cls, chk, U.GRID)
    tot_states = tot_trans = 0
    for has_save in (True, False):
        results, nstates, ntrans = explore(chk, ex, has_save, only=only)
        tot_states += nstates
        tot_trans += ntrans
        for (rule, method), lst in sorted(results.items()):
            if only is not None and rule not in only:
                continue
            bad = [x for x in lst if not x[0]]
            node = ex.methods.get(method)
            tag = "with save memory" if has_save else "without save memory"
            if bad:
                ok, msg, hist = min(bad, key=lambda x: len(x[2]))
                chk.ob(rule, node, f"Grid.{method} [{tag}]", False,
                       msg + "; shortest history: " + " -> ".join(f"{o}({a})" if a else o for o, a in hist),
                       file=U.GRID, func=f"Grid.{method}", facts={"violating_transitions": len(bad)})
            else:
                chk.ob(rule, node, f"Grid.{method} [{tag}]", True, lst[0][1] + f" ({len(lst)} transitions)",
                       file=U.GRID, func=f"Grid.{method}")
    chk.extra["states"] = tot_states
    chk.extra["transitions"] = tot_trans
    chk.extra["exhaustive"] = True


# ---------------------------------------------------------------------------------------------------------------------------------
# R: the stored routes (entries of LayoutManager's route table) are separate list objects
#
# `self._route_map[a][b]` is the list of steps setLayout / transpose walks from a to b.  The table is built by joining known routes:
# the joined route must be a NEW list.  An operation that lengthens a stored entry in place (`+=`, `.extend`, `operator.iconcat/iadd`,
# `functools.reduce(operator.iconcat, legs)` WITHOUT a fresh initialiser: the accumulator is the first leg itself) changes the route of
# another pair of layouts, and storing its result makes two pairs share one list.
ROUTE_TABLE = "self._route_map"
_INPLACE_METHODS = ("append", "extend", "insert", "pop", "remove", "clear", "sort", "reverse")
_GROWERS = ("iconcat", "iadd", "__iadd__", "__iconcat__")
_COPIERS = ("list", "sorted", "tuple", "deepcopy", "copy", "sum", "reversed")


def _table_keys(e, aliases=()):
    """[index expressions] from the route table down to `e` ([] = the table itself); None when `e` is not a read of the table"""
    keys = []
    while True:
        if isinstance(e, ast.Subscript) and not isinstance(e.slice, ast.Slice):
            keys.append(e.slice)
            e = e.value
        elif isinstance(e, ast.Call) and isinstance(e.func, ast.Attribute) and e.func.attr in ("get", "__getitem__") and len(e.args) == 1:
            keys.append(e.args[0])
            e = e.func.value
        else:
            break
    return list(reversed(keys)) if src(e) == ROUTE_TABLE or (isinstance(e, ast.Name) and e.id in aliases) else None


class _RouteFlow:
    """where does a value come from: a fresh list / a stored table entry / a stored entry that was lengthened in place"""

    def __init__(self, tree):
        import copy
        self.copy = copy
        self.methods = {}
        self.alias = {}
        for c in ast.walk(tree):
            if isinstance(c, ast.ClassDef):
                for st in c.body:
                    if isinstance(st, ast.FunctionDef):
                        self.methods.setdefault(st.name, []).append(st)
                        # local names that ARE the table: `routes = self._route_map` (bound once, by that assignment only)
                        al = set()
                        for a in ast.walk(st):
                            if isinstance(a, ast.Assign) and len(a.targets) == 1 and isinstance(a.targets[0], ast.Name) and src(a.value) == ROUTE_TABLE:
                                al.add(a.targets[0].id)
                        self.alias[id(st)] = {n for n in al if len(self.binds(st, n)) == 1 and not self.other_stores(st, n)}

    # -- substitution of the actual arguments of a followed helper, folding of (a, b, c)[k] and (a, b, c)[k:]
    def norm(self, e, env):
        flow = self

        class T(ast.NodeTransformer):
            def visit_Name(self, n):
                if isinstance(n.ctx, ast.Load) and n.id in env:
                    return flow.copy.deepcopy(env[n.id])
                return n

            def visit_Subscript(self, n):
                self.generic_visit(n)
                v = n.value
                if isinstance(v, (ast.Tuple, ast.List)) and not any(isinstance(x, ast.Starred) for x in v.elts):
                    s = n.slice
                    if isinstance(s, ast.Constant) and isinstance(s.value, int) and -len(v.elts) <= s.value < len(v.elts):
                        return v.elts[s.value]
                    if isinstance(s, ast.Slice) and s.step is None and all(
                            p is None or (isinstance(p, ast.Constant) and isinstance(p.value, int)) for p in (s.lower, s.upper)):
                        lo = s.lower.value if s.lower is not None else None
                        hi = s.upper.value if s.upper is not None else None
                        return ast.Tuple(elts=v.elts[lo:hi], ctx=ast.Load())
                return n
        return T().visit(self.copy.deepcopy(e)) if env else e

    def binds(self, fn, name):
        out = []
        for st in ast.walk(fn):
            if isinstance(st, ast.Assign) and any(isinstance(t, ast.Name) and t.id == name for t in st.targets):
                out.append(st.value)
            elif isinstance(st, ast.AnnAssign) and isinstance(st.target, ast.Name) and st.target.id == name and st.value is not None:
                out.append(st.value)
        return out

    def other_stores(self, fn, name):
        """the name is also bound by something that is not a plain assignment (loop / with / unpacking / walrus / parameter)"""
        for n in ast.walk(fn):
            if isinstance(n, ast.Name) and n.id == name and isinstance(n.ctx, ast.Store):
                p = parent(n)
                if not (isinstance(p, (ast.Assign, ast.AnnAssign, ast.AugAssign)) and (n in getattr(p, "targets", []) or getattr(p, "target", None) is n)):
                    return True
            if isinstance(n, ast.arg) and n.arg == name:
                return True
        return False

    def name_mutations(self, fn, name):
        out = []
        for n in ast.walk(fn):
            if isinstance(n, ast.AugAssign) and isinstance(n.target, ast.Name) and n.target.id == name:
                out.append(n)
            elif isinstance(n, ast.Call) and isinstance(n.func, ast.Attribute) and n.func.attr in ("extend", "append", "insert", "__iadd__") \
                    and isinstance(n.func.value, ast.Name) and n.func.value.id == name:
                out.append(n)
            elif isinstance(n, ast.Call) and isinstance(n.func, (ast.Attribute, ast.Name)) and \
                    (n.func.attr if isinstance(n.func, ast.Attribute) else n.func.id) in _GROWERS and n.args and \
                    isinstance(n.args[0], ast.Name) and n.args[0].id == name:
                out.append(n)
        return out

    def touches(self, e, fn, seen=()):
        for n in ast.walk(e):
            if isinstance(n, ast.Attribute) and src(n) == ROUTE_TABLE:
                return True
            if isinstance(n, ast.Name) and isinstance(n.ctx, ast.Load) and fn is not None and n.id not in seen:
                if any(self.touches(v, fn, seen + (n.id,)) for v in self.binds(fn, n.id)):
                    return True
            if isinstance(n, ast.Call) and isinstance(n.func, ast.Attribute) and isinstance(n.func.value, ast.Name) and n.func.value.id == "self":
                for m in self.methods.get(n.func.attr, []):
                    if any(isinstance(x, ast.Attribute) and src(x) == ROUTE_TABLE for x in ast.walk(m)):
                        return True
        return False

    def first_of(self, seq, fn, env, normed=False):
        """the expression of the FIRST element a sequence expression yields (None: not known)"""
        if not normed:
            seq = self.norm(seq, env)
        if isinstance(seq, (ast.Tuple, ast.List)):
            return seq.elts[0] if seq.elts and not isinstance(seq.elts[0], ast.Starred) else None
        if isinstance(seq, (ast.GeneratorExp, ast.ListComp)) and len(seq.generators) == 1 and not seq.generators[0].ifs:
            g = seq.generators[0]
            f = self.first_of(g.iter, fn, env, normed=True)
            if f is None:
                return None
            env2 = {}
            if isinstance(g.target, ast.Name):
                env2[g.target.id] = f
            elif isinstance(g.target, ast.Tuple) and isinstance(f, ast.Tuple) and len(f.elts) == len(g.target.elts) \
                    and all(isinstance(t, ast.Name) for t in g.target.elts):
                for t, x in zip(g.target.elts, f.elts):
                    env2[t.id] = x
            else:
                return None
            return self.norm(seq.elt, env2)
        if isinstance(seq, ast.Call) and isinstance(seq.func, ast.Name) and seq.func.id == "zip" and seq.args and not seq.keywords:
            fs = [self.first_of(a, fn, env, normed=True) for a in seq.args]
            return None if any(x is None for x in fs) else ast.Tuple(elts=fs, ctx=ast.Load())
        if isinstance(seq, ast.Call) and isinstance(seq.func, ast.Name) and seq.func.id in ("iter", "list", "tuple") and len(seq.args) == 1:
            return self.first_of(seq.args[0], fn, env, normed=True)
        if isinstance(seq, ast.Subscript) and isinstance(seq.slice, ast.Slice) and seq.slice.step is None and \
                (seq.slice.lower is None or (isinstance(seq.slice.lower, ast.Constant) and isinstance(seq.slice.lower.value, int)
                                             and seq.slice.lower.value >= 0)):
            k = seq.slice.lower.value if seq.slice.lower is not None else 0
            return ast.Subscript(value=seq.value, slice=ast.Constant(value=k), ctx=ast.Load())
        if isinstance(seq, ast.Name):
            b = self.binds(fn, seq.id) if fn is not None else []
            if len(b) == 1 and not self.other_stores(fn, seq.id) and not self.name_mutations(fn, seq.id):
                return self.first_of(b[0], fn, env)
            if not b:
                return ast.Subscript(value=seq, slice=ast.Constant(value=0), ctx=ast.Load())
        return None

    def origin(self, e, fn, env, depth=0, normed=False):
        """('fresh'|'unrelated', None) / ('entry', keys) / ('grown', keys, how) / ('unknown', reason)"""
        if not normed:
            e = self.norm(e, env)
        if isinstance(e, (ast.Constant, ast.List, ast.ListComp, ast.Tuple, ast.Dict, ast.Set, ast.JoinedStr, ast.BinOp, ast.DictComp, ast.SetComp)):
            return ("fresh", None)
        if isinstance(e, ast.Subscript) and isinstance(e.slice, ast.Slice):
            return ("fresh", None)
        if isinstance(e, ast.IfExp):
            return self.join([self.origin(e.body, fn, env, depth, True), self.origin(e.orelse, fn, env, depth, True)])
        keys = _table_keys(e, self.alias.get(id(fn), ()))
        if keys is not None:
            if len(keys) >= 2:
                return ("entry", [src(k) for k in keys])
            return ("unknown", f"`{src(e)}` is the table or one of its rows")
        if isinstance(e, ast.Call):
            f = e.func
            nm = f.attr if isinstance(f, ast.Attribute) else f.id if isinstance(f, ast.Name) else ""
            if nm in _COPIERS:
                return ("fresh", None)
            if nm == "reduce" and len(e.args) >= 2 and not e.keywords:
                op = e.args[0]
                opn = op.attr if isinstance(op, ast.Attribute) else op.id if isinstance(op, ast.Name) else ""
                if opn in _GROWERS:
                    if len(e.args) == 3:
                        o = self.origin(e.args[2], fn, env, depth, normed=True)
                        if o[0] == "entry":
                            return ("grown", o[1], f"`{src(e)}`: the initialiser of the in-place reduction is the stored entry itself")
                        return o if o[0] in ("fresh", "grown") else ("unknown", f"initialiser of `{src(e)}` not followed")
                    first = self.first_of(e.args[1], fn, env, normed=True)
                    if first is None:
                        return ("unknown", f"first element of the sequence reduced in place by `{src(e)}` not known") \
                            if self.touches(e.args[1], fn) else ("unrelated", None)
                    o = self.origin(first, fn, env, depth, normed=True)
                    if o[0] == "entry":
                        return ("grown", o[1], f"`{src(e)}` has no initialiser: the accumulator `{opn}` extends in place is the first element "
                                               f"of the sequence, the stored entry `{src(first)}`")
                    return o
                if opn in ("add", "concat", "__add__") or isinstance(op, ast.Lambda) and isinstance(op.body, ast.BinOp):
                    return ("fresh", None)
            if nm in _GROWERS and len(e.args) == 2 and not (isinstance(f, ast.Attribute) and nm.startswith("__")):
                o = self.origin(e.args[0], fn, env, depth, normed=True)
                if o[0] == "entry":
                    return ("grown", o[1], f"`{src(e)}` extends the stored entry `{src(e.args[0])}` in place and returns it")
                return o
            if isinstance(f, ast.Attribute) and isinstance(f.value, ast.Name) and f.value.id == "self" and nm in self.methods:
                ms = self.methods[nm]
                if len(ms) == 1 and depth < 3 and not any(isinstance(a, ast.Starred) for a in e.args) and all(k.arg for k in e.keywords):
                    m = ms[0]
                    a = m.args
                    params = [p.arg for p in a.posonlyargs + a.args][1:]
                    env2 = {}
                    for p, x in zip(params, e.args):
                        env2[p] = x
                    if len(e.args) > len(params):
                        if a.vararg is None:
                            return ("unknown", f"call `{src(e)}` does not fit the helper's parameters")
                        env2[a.vararg.arg] = ast.Tuple(elts=list(e.args[len(params):]), ctx=ast.Load())
                    elif a.vararg is not None:
                        env2[a.vararg.arg] = ast.Tuple(elts=[], ctx=ast.Load())
                    for k in e.keywords:
                        env2[k.arg] = k.value
                    rets = [r.value for r in ast.walk(m) if isinstance(r, ast.Return) and r.value is not None]
                    if not rets:
                        return ("unknown", f"helper `{nm}` returns nothing")
                    return self.join([self.origin(r, m, env2, depth + 1) for r in rets])
                if self.touches(e, fn):
                    return ("unknown", f"helper call `{src(e)}` not followed")
            if self.touches(e, fn):
                return ("unknown", f"`{src(e)}` receives stored routes and is not modelled")
            return ("unrelated", None)
        if isinstance(e, ast.Name) and fn is not None:
            b = self.binds(fn, e.id)
            if not b:
                return ("unknown", f"`{e.id}` is not bound by an assignment") if self.other_stores(fn, e.id) else ("unrelated", None)
            os_ = [self.origin(v, fn, env, depth) for v in b]
            o = self.join(os_)
            muts = self.name_mutations(fn, e.id)
            if muts and any(x[0] == "entry" for x in os_):
                ent = [x for x in os_ if x[0] == "entry"][0]
                if len(os_) == 1 and not self.other_stores(fn, e.id):
                    return ("grown", ent[1], f"`{e.id}` is the stored entry `{src(b[0])}` (no copy) and `{src(muts[0])}` extends it in place")
                return ("unknown", f"`{e.id}` may be a stored entry and is extended in place by `{src(muts[0])}`")
            if self.other_stores(fn, e.id) and o[0] in ("fresh", "unrelated"):
                return ("unknown", f"`{e.id}` is also bound by a loop / unpacking")
            return o
        if self.touches(e, fn):
            return ("unknown", f"`{src(e)}` not modelled")
        return ("unrelated", None)

    @staticmethod
    def join(os_):
        for kind in ("grown", "unknown", "entry"):
            for o in os_:
                if o[0] == kind:
                    if kind == "entry" and len({tuple(x[1]) for x in os_ if x[0] == "entry"}) > 1:
                        return ("unknown", "one of several stored entries")
                    if kind == "grown" and not all(x[0] == "grown" and x[1] == o[1] for x in os_):
                        return ("grown", None, o[2])
                    return o
        return ("fresh", None) if any(o[0] == "fresh" for o in os_) else ("unrelated", None)


def route_entries_separate(chk):
    mod = chk.mod(U.LAYOUT)
    flow = _RouteFlow(mod.tree)
    fns = [m for ms in flow.methods.values() for m in ms if any(isinstance(x, ast.Attribute) and src(x) == ROUTE_TABLE for x in ast.walk(m))]
    reported = set()
    for fn in fns:
        q = qual(fn)
        for st in ast.walk(fn):
            if not isinstance(st, ast.Assign):
                continue
            for t in st.targets:
                keys = _table_keys(t, flow.alias.get(id(fn), ())) if isinstance(t, ast.Subscript) else None
                if keys is None or len(keys) != 2:
                    continue
                tk = [src(k) for k in keys]
                o = flow.origin(st.value, fn, {})
                for n in ast.walk(st.value):
                    reported.add(id(n))
                cons = f"{src(t)} = {src(st.value)}"
                if o[0] in ("fresh", "unrelated"):
                    chk.ob("R1-route-entry-fresh", st, cons, True, "the stored route is a new list (no stored entry is extended in place or shared)",
                           file=U.LAYOUT, func=q)
                elif o[0] == "grown":
                    # AUDIT - VIOLATED is true when (A1) the extended object IS a stored entry: established by `origin` (a direct read of the
                    # table, or a name bound once to one, or the first element of the reduced sequence, whose first element is followed
                    # through zip / slices / the actual arguments of the helper); (A2) the operation extends in place (iconcat / iadd / += /
                    # extend on a list: entries are lists, `[]`-initialised by the builder); (A3) the entry extended is the entry of ANOTHER
                    # pair of layouts than the one stored: key expressions known on both sides and different (otherwise UNDECIDED).
                    known = {x.id for x in ast.walk(fn) if isinstance(x, ast.Name)}
                    if o[1] is not None and o[1] != tk and len(o[1]) == 2 and \
                            all(x.id in known for k in o[1] for x in ast.walk(ast.parse(k, mode='eval')) if isinstance(x, ast.Name)):
                        chk.ob("R1-route-entry-fresh", st, cons, False,
                               f"{o[2]}; so the stored route [{']['.join(o[1])}] is itself lengthened with the steps of the following leg(s) and "
                               f"the SAME list object becomes route [{']['.join(tk)}]: a later transpose/setLayout from {o[1][0]} to {o[1][1]} "
                               f"walks on to {tk[1]} (data ends in another layout than the one the Grid assumes). Join the legs into a new list "
                               f"(`a + b`, or reduce(..., legs, []))", file=U.LAYOUT, func=q)
                    else:
                        chk.ob("R1-route-entry-fresh", st, cons, None,
                               f"cannot decide: {o[2]}; which entry is extended is not known to differ from the entry stored", file=U.LAYOUT, func=q)
                elif o[0] == "entry":
                    if o[1] == tk:
                        chk.ob("R1-route-entry-fresh", st, cons, True, "the entry is stored back under its own key", file=U.LAYOUT, func=q)
                    else:
                        chk.ob("R1-route-entry-fresh", st, cons, None,
                               f"cannot decide: route [{']['.join(tk)}] becomes the same list object as the stored route [{']['.join(o[1])}] (no copy); "
                               "harmless only if neither is ever changed in place", file=U.LAYOUT, func=q)
                else:
                    chk.ob("R1-route-entry-fresh", st, cons, None, f"cannot decide: {o[1]}", file=U.LAYOUT, func=q)
        # in-place operations on stored entries
        for n in ast.walk(fn):
            if isinstance(n, ast.Call) and isinstance(n.func, ast.Attribute) and n.func.attr in _INPLACE_METHODS:
                o = flow.origin(n.func.value, fn, {})
                if o[0] != "entry":
                    continue
                if n.func.attr == "append" and len(n.args) == 1 and src(n.args[0]) == o[1][-1] and _table_keys(n.func.value) is not None:
                    chk.ob("R2-route-entry-in-place", n, src(n), True,
                           f"the direct route to {o[1][-1]} gets the single step {o[1][-1]} (its own key): initialisation of that entry", file=U.LAYOUT, func=q)
                else:
                    chk.ob("R2-route-entry-in-place", n, src(n), None,
                           f"cannot decide: the stored route [{']['.join(o[1])}] is changed in place; correct only if this entry is being (re)built "
                           "and no other pair of layouts shares the list", file=U.LAYOUT, func=q)
            elif isinstance(n, ast.AugAssign) and (_table_keys(n.target) is not None if isinstance(n.target, ast.Subscript) else
                                                   isinstance(n.target, ast.Name) and any(x[0] == "entry" for x in
                                                                                          [flow.origin(v, fn, {}) for v in flow.binds(fn, n.target.id)])):
                chk.ob("R2-route-entry-in-place", n, src(n), None,
                       "cannot decide: a stored route is extended in place; correct only if this entry is being (re)built and no other pair shares the list",
                       file=U.LAYOUT, func=q)
            elif isinstance(n, ast.Assign) and any(isinstance(t, ast.Subscript) and isinstance(t.slice, ast.Slice) and
                                                   flow.origin(t.value, fn, {})[0] == "entry" for t in n.targets):
                chk.ob("R2-route-entry-in-place", n, src(n), None,
                       "cannot decide: the content of a stored route is replaced in place (slice assignment); correct only if no other pair shares the list",
                       file=U.LAYOUT, func=q)
            elif isinstance(n, ast.Call) and id(n) not in reported:
                f = n.func
                nm = f.attr if isinstance(f, ast.Attribute) else f.id if isinstance(f, ast.Name) else ""
                if nm == "reduce" or nm in _GROWERS:
                    o = flow.origin(n, fn, {})
                    if o[0] == "grown":
                        chk.ob("R2-route-entry-in-place", n, src(n), None,
                               f"cannot decide here: {o[2]}; whether the lengthened entry is the one being built is decided where the result is stored",
                               file=U.LAYOUT, func=q)
                    elif o[0] == "unknown":
                        chk.ob("R2-route-entry-in-place", n, src(n), None, f"cannot decide: {o[1]}", file=U.LAYOUT, func=q)


def run(chk):
    chk.explanation = (
        "Typestate enumeration: the Grid methods' bodies are interpreted from the AST as guarded transformers over "
        "(buffer index permutation, notSaved/hasSaveMemory, layout names, the buffer+layout `_f` views, per-buffer "
        "content tags current/saved/garbage); LayoutManager.transpose is its contract. All states reachable under all "
        "sequences of setLayout(3 names)/overwrite/save/free/restore from both constructors (with/without save memory) "
        "are enumerated exhaustively and compared with the single-array specification; plus buffer allocation "
        "agreement and the driver's save/restore protocol. No data values are modelled (that is C01/C03's declined part).")
    chk.assumptions += ["LayoutManager.transpose satisfies its contract: field source->dest, source kept iff buf given, buf clobbered (C01/C03)",
                        "asserts are enabled"]
    mod = chk.mod(U.GRID)
    chk.in_file(U.GRID)
    cls = mod.cls("Grid")
    t_floor = 30
    try:
        typestate(chk, mod, cls)
    except AnalysisError as e:
        t_floor = 0          # the undecided obligation below says why the typestate rules did not run
        # the model cannot read a method: the typestate rules are undecided, the remaining rules still run
        chk.ob("T0-typestate-model", cls, "Grid.__init__/setLayout/saveGridValues/freeGridSave/restoreGridValues", None,
               f"cannot decide: {e}", file=U.GRID, func="Grid")
    alloc_agreement(chk, mod)
    # the bookkeeping of ONE grid (which block holds the data / is scratch / protects the save) is not kept in an object every Grid shares
    from .C01 import shared_container_aliasing, engine
    engine(chk, "T7-instance-owned-state", cls, "bookkeeping of one Grid kept in a container shared by all Grids", shared_container_aliasing,
           chk, mod, "Grid", "T7-instance-owned-state", U.GRID,
           "a setLayout / restoreGridValues of one Grid re-labels the blocks of every other Grid, whose view `_f` still points to the old "
           "block: its next layout change or save reads a stale block", file=U.GRID, func="Grid")
    driver_protocol(chk)
    # the contract of LayoutManager.transpose that the model relies on is discharged here as well
    from ..resolve import Program
    from .C01 import safe_flow_check
    from .C03 import manager_final
    prog = Program(chk.repo, [U.LAYOUT])
    chk.mod(U.LAYOUT)
    safe_flow_check(chk, prog, U.LAYOUT, "LayoutHandler")
    safe_flow_check(chk, prog, U.LAYOUT, "LayoutSwapper", extra_final=manager_final)
    from .C02 import derived_state
    derived_state(chk)
    # "layout changes never alter the field": the handler's element placement (same rules as C01)
    from .C01 import handler_contract
    handler_contract(chk, chk.mod(U.LAYOUT))
    route_entries_separate(chk)
    chk.floor("R1-route-entry-fresh", 2)
    if t_floor:
        chk.floor("T", t_floor)
    chk.floor("T9-driver-save-protocol", 3)
