import sys, os; sys.path.insert(0, os.getcwd())
import hashlib
import numpy as np
from scipy.interpolate import BSpline

import pygyro
assert os.path.realpath(pygyro.__file__).startswith(os.path.realpath(os.getcwd()) + os.sep), pygyro.__file__
from pygyro.splines.splines import make_knots, BSplines, Spline1D, Spline2D

EXPECTED_DIGEST = None  # filled in for the neutral variants (digest of all outputs on the clean tree)

rng = np.random.default_rng(20240607)
failures = []
digest = hashlib.sha256()


def record(arr):
    digest.update(np.ascontiguousarray(np.asarray(arr, dtype=float)).tobytes())


def check(label, got, ref, scale):
    got = np.asarray(got, dtype=float)
    ref = np.asarray(ref, dtype=float)
    record(got)
    err = np.max(np.abs(got - ref)) if got.size else 0.0
    if not np.isfinite(err) or err > 1e-9 * scale:
        failures.append("%s: max err %.3e (scale %.3e)" % (label, err, scale))


def make_breaks(kind, ncells):
    if kind == 'uniform':
        a = float(rng.uniform(-3, 3))
        return np.linspace(a, a + float(rng.uniform(0.5, 7.0)), ncells + 1)
    steps = rng.uniform(0.2, 1.5, ncells)
    return np.concatenate(([0.0], np.cumsum(steps))) - 1.3


def test_points(breaks, npts):
    a, b = breaks[0], breaks[-1]
    pts = [breaks,
           np.nextafter(breaks[1:], -np.inf),
           np.nextafter(breaks[:-1], np.inf),
           rng.uniform(a, b, npts)]
    x = np.concatenate(pts)
    return x[(x >= a) & (x <= b)]


def full_knots(breaks, degree, periodic):
    return make_knots(breaks, degree, periodic)


def used_knots(T, degree, uniform):
    # knot vector the evaluation path really uses: the uniform-cubic fast path
    # works on the uniform knot sequence continued beyond both end points
    if degree == 3 and uniform:
        ncells = len(T) - 2 * degree - 1
        dx = T[degree + 1] - T[degree]
        return T[degree] + dx * np.arange(-3, ncells + 4)
    return T


def ref_1d(T, degree, coeffs, x, der):
    s = BSpline(T, coeffs, degree, extrapolate=False)
    if der:
        s = s.derivative(der)
    a, b = T[degree], T[-degree - 1]
    y = s(np.clip(x, a, b))
    return y


def run_1d():
    for degree in range(1, 11):
        for periodic in (False, True):
            for kind in ('uniform', 'nonuniform'):
                ncells = int(rng.integers(max(degree, 2) + 1, 14))
                breaks = make_breaks(kind, ncells)
                T = full_knots(breaks, degree, periodic)
                basis = BSplines(T, degree, periodic, kind == 'uniform')
                assert basis.cubic_uniform == (degree == 3 and kind == 'uniform')
                T = used_knots(T, degree, kind == 'uniform')
                spl = Spline1D(basis)
                c = rng.standard_normal(basis.nbasis)
                spl.coeffs[:basis.nbasis] = c
                if periodic:
                    spl.coeffs[basis.nbasis:] = spl.coeffs[:degree]
                x = test_points(breaks, 25)
                h = np.min(np.diff(breaks))
                for der in (0, 1):
                    ref = ref_1d(T, degree, spl.coeffs, x, der)
                    if degree == 1 and der == 1:
                        # slope is discontinuous at knots: compare away from them only
                        keep = np.min(np.abs(x[:, None] - breaks[None, :]), axis=1) > 1e-9
                    else:
                        keep = np.ones(len(x), dtype=bool)
                    scale = (1.0 + np.max(np.abs(c))) * (1.0 if der == 0 else degree / h) * 10
                    lab = "1D p=%d per=%s %s der=%d" % (degree, periodic, kind, der)
                    yv = spl.eval(x, der)
                    check(lab + " eval(vec)", yv[keep], ref[keep], scale)
                    ys = np.array([spl.eval(float(xi), der) for xi in x])
                    check(lab + " eval(scalar)", ys[keep], ref[keep], scale)
                    out = np.full(len(x), np.nan)
                    spl.eval_vector(x, out, der)
                    check(lab + " eval_vector", out[keep], ref[keep], scale)
                if periodic and degree > 1:
                    a, b = breaks[0], breaks[-1]
                    for der in (0, 1):
                        check("1D periodic ends p=%d %s der=%d" % (degree, kind, der),
                              [spl.eval(a, der)], [spl.eval(b, der)], (1 + np.max(np.abs(c))) * degree / h * 10)
                # basis functions: positivity, partition of unity, derivative sum zero
                xs = test_points(breaks, 8)
                tot = np.zeros(len(xs))
                dtot = np.zeros(len(xs))
                for i in range(basis.nbasis):
                    bi = basis[i]
                    v = bi.eval(xs)
                    record(v)
                    if np.min(v) < -1e-13:
                        failures.append("negative basis p=%d i=%d" % (degree, i))
                    tot += v
                    dtot += bi.eval(xs, 1)
                check("sum basis p=%d per=%s %s" % (degree, periodic, kind), tot, np.ones(len(xs)), 1.0)
                if degree > 1:
                    check("sum dbasis p=%d per=%s %s" % (degree, periodic, kind), dtot, np.zeros(len(xs)), degree / h * 10)


def run_2d():
    for (p1, p2) in [(1, 2), (2, 3), (3, 3), (3, 5), (4, 3), (5, 1), (3, 3)]:
        for kind in ('uniform', 'nonuniform'):
            for per1, per2 in [(True, False), (False, True), (False, False)]:
                n1 = int(rng.integers(max(p1, 2) + 1, 9))
                n2 = int(rng.integers(max(p2, 2) + 1, 9))
                br1, br2 = make_breaks(kind, n1), make_breaks(kind, n2)
                T1, T2 = full_knots(br1, p1, per1), full_knots(br2, p2, per2)
                b1 = BSplines(T1, p1, per1, kind == 'uniform')
                b2 = BSplines(T2, p2, per2, kind == 'uniform')
                if b1.cubic_uniform != b2.cubic_uniform:
                    continue
                spl = Spline2D(b1, b2)
                T1 = used_knots(T1, p1, kind == 'uniform')
                T2 = used_knots(T2, p2, kind == 'uniform')
                c = rng.standard_normal((b1.nbasis, b2.nbasis))
                spl.coeffs[:b1.nbasis, :b2.nbasis] = c
                if per1:
                    spl.coeffs[b1.nbasis:, :] = spl.coeffs[:p1, :]
                if per2:
                    spl.coeffs[:, b2.nbasis:] = spl.coeffs[:, :p2]
                X = np.sort(test_points(br1, 6))
                Y = np.sort(test_points(br2, 9))
                h1, h2 = np.min(np.diff(br1)), np.min(np.diff(br2))
                for d1 in (0, 1):
                    for d2 in (0, 1):
                        if (p1 == 1 and d1) or (p2 == 1 and d2):
                            continue
                        # reference: tensor product of 1-D de Boor evaluations
                        tmp = np.array([ref_1d(T2, p2, spl.coeffs[i, :], Y, d2) for i in range(spl.coeffs.shape[0])])
                        ref = np.array([ref_1d(T1, p1, tmp[:, j], X, d1) for j in range(len(Y))]).T
                        scale = (1 + np.max(np.abs(c))) * (p1 / h1 if d1 else 1) * (p2 / h2 if d2 else 1) * 10
                        lab = "2D p=(%d,%d) per=(%s,%s) %s der=(%d,%d)" % (p1, p2, per1, per2, kind, d1, d2)
                        check(lab + " eval(grid)", spl.eval(X, Y, d1, d2), ref, scale)
                        out = np.full((len(X), len(Y)), np.nan)
                        spl.eval_vector(X, Y, out, d1, d2)
                        check(lab + " eval_vector", out, ref, scale)
                        sc = np.array([[spl.eval(float(xx), float(yy), d1, d2) for yy in Y] for xx in X])
                        check(lab + " eval(scalar)", sc, ref, scale)



def run_numpy_bool_flag():
    # the `uniform` flag computed with numpy (a numpy.bool_, as returned by np.all / np.allclose
    # reductions) instead of the literal True
    for periodic in (False, True):
        for (a, b, ncells) in [(0.0, 1.0, 8), (-2.0, 3.5, 11), (0.0, 30.0, 10), (5.0, 45.0, 16)]:
            breaks = np.linspace(a, b, ncells + 1)
            uniform = np.all(np.isclose(np.diff(breaks), breaks[1] - breaks[0]))
            assert uniform and not isinstance(uniform, bool)
            T = make_knots(breaks, 3, periodic)
            basis = BSplines(T, 3, periodic, uniform)
            assert basis.cubic_uniform
            Tu = used_knots(T, 3, True)
            spl = Spline1D(basis)
            c = rng.standard_normal(basis.nbasis)
            spl.coeffs[:basis.nbasis] = c
            if periodic:
                spl.coeffs[basis.nbasis:] = spl.coeffs[:3]
            x = test_points(breaks, 15)
            h = breaks[1] - breaks[0]
            for der in (0, 1):
                ref = ref_1d(Tu, 3, spl.coeffs, x, der)
                scale = (1 + np.max(np.abs(c))) * (3 / h if der else 1) * 10
                lab = "np.bool_ flag [%g,%g] n=%d per=%s der=%d" % (a, b, ncells, periodic, der)
                try:
                    check(lab + " eval(vec)", spl.eval(x, der), ref, scale)
                    out = np.full(len(x), np.nan)
                    spl.eval_vector(x, out, der)
                    check(lab + " eval_vector", out, ref, scale)
                    check(lab + " eval(scalar)", [spl.eval(float(xi), der) for xi in x], ref, scale)
                except Exception as e:
                    failures.append(lab + " raised %s: %s" % (type(e).__name__, e))
            # 2-D
            s2 = Spline2D(basis, basis)
            c2 = rng.standard_normal((basis.nbasis, basis.nbasis))
            s2.coeffs[:basis.nbasis, :basis.nbasis] = c2
            if periodic:
                s2.coeffs[basis.nbasis:, :] = s2.coeffs[:3, :]
                s2.coeffs[:, basis.nbasis:] = s2.coeffs[:, :3]
            X = x[::3]
            tmp = np.array([ref_1d(Tu, 3, s2.coeffs[i, :], X, 0) for i in range(s2.coeffs.shape[0])])
            ref = np.array([ref_1d(Tu, 3, tmp[:, j], X, 0) for j in range(len(X))]).T
            lab = "np.bool_ flag 2D [%g,%g] n=%d per=%s" % (a, b, ncells, periodic)
            try:
                check(lab + " eval(grid)", s2.eval(X, X), ref, (1 + np.max(np.abs(c2))) * 10)
                check(lab + " eval(scalar)", [[s2.eval(float(u), float(v)) for v in X] for u in X], ref,
                      (1 + np.max(np.abs(c2))) * 10)
            except Exception as e:
                failures.append(lab + " raised %s: %s" % (type(e).__name__, e))


EXTRA = [run_numpy_bool_flag]

if __name__ == '__main__':
    for f in [run_1d, run_2d] + EXTRA:
        try:
            f()
        except Exception as e:  # an entry point that cannot evaluate a point of the domain
            failures.append("%s raised %s: %s" % (f.__name__, type(e).__name__, e))
    hx = digest.hexdigest()
    print("output digest:", hx)
    if EXPECTED_DIGEST is not None and hx != EXPECTED_DIGEST:
        failures.append("outputs differ bitwise from the recorded clean-tree outputs")
    if failures:
        print("PROPERTY VIOLATED (%d failures)" % len(failures))
        for f in failures[:15]:
            print("  ", f)
        sys.exit(1)
    print("property holds")
    sys.exit(0)
