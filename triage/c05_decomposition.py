"""TRIAGE ONLY (not referenced by MANIFEST): shows against the real code, with a minimal single-rank
mpi4py stand-in emulating each rank in turn, that three operators give decomposition-dependent
results on the pinned tree (defects 6.2-6.4 of DESIGN.md), and that the fix: commits repair them.
usage: /venv/bin/python /verif/triage/c05_decomposition.py [repo_root]"""
import sys, types, itertools
import numpy as np
root = sys.argv[1] if len(sys.argv) > 1 else '/repo'
sys.path.insert(0, root)
class FakeComm:
    def __init__(self, rank=0, size=1): self._rank, self._size = rank, size
    def Get_rank(self): return self._rank
    def Get_size(self): return self._size
m = types.ModuleType('mpi4py'); M = types.ModuleType('mpi4py.MPI'); M.Comm = FakeComm; M.COMM_WORLD = FakeComm()
for n in ('DOUBLE', 'MIN', 'MAX', 'SUM'): setattr(M, n, n)
m.MPI = M; sys.modules['mpi4py'] = m; sys.modules['mpi4py.MPI'] = M
from pygyro import splines as spl
from pygyro.model.layout import LayoutHandler
from pygyro.model.grid import Grid
from pygyro.initialisation.constants import Constants
from pygyro.advection.advection import ParallelGradient, VParallelAdvection, FluxSurfaceAdvection

def space(c):
    dom = [[c.rMin, c.rMax], [0, 2*np.pi], [c.zMin, c.zMax], [c.vMin, c.vMax]]
    per = [False, True, True, False]
    nk = [n+1+d*(int(p)-1) for n, d, p in zip(c.npts, c.splineDegrees, per)]
    br = [np.linspace(*l, num=k) for l, k in zip(dom, nk)]
    kn = [spl.make_knots(b, d, p) for b, d, p in zip(br, c.splineDegrees, per)]
    bs = [spl.BSplines(k, d, p, True) for k, d, p in zip(kn, c.splineDegrees, per)]
    return [b.greville for b in bs], bs

class RConstants(Constants):
    def iota(self, r=None):
        return 0.8 + 0.05*np.asarray(r, dtype=float)      # rotational transform depending on r

def consts(cls, iota):
    c = cls(); c.npts = [10, 8, 8, 12]; c.iotaVal = iota; c.R0 = 20.0; c.zMax = 2*np.pi*c.R0
    return c
LF = {'flux_surface': [0, 3, 1, 2], 'v_parallel': [0, 2, 1, 3], 'poloidal': [3, 2, 1, 0]}

def ranks(nprocs):
    for co in itertools.product(*[range(n) for n in nprocs]):
        co = list(co)
        yield co, [FakeComm(c, n) for c, n in zip(co, nprocs)], FakeComm(co[0]*nprocs[1]+co[1], int(np.prod(nprocs)))

def vpar(c, nprocs, seed=1):
    eta, bs = space(c); nr, nq, nz, nv = [g.size for g in eta]
    rng = np.random.default_rng(seed); fg = 1+.5*rng.random((nr, nz, nq, nv)); pg = 5*rng.standard_normal((nr, nz, nq))
    out = np.full(fg.shape, np.nan)
    for co, comms, world in ranks(nprocs):
        hf = LayoutHandler(comms, co, LF, list(nprocs), eta)
        hp = LayoutHandler(comms[:1], co[:1], {'v_parallel_1d': [0, 2, 1]}, [nprocs[0]], eta[:3])
        f = Grid(eta, bs, hf, 'v_parallel', world); phi = Grid(eta[:3], bs[:3], hp, 'v_parallel_1d', world, dtype=np.complex128)
        lf = f.getLayout('v_parallel'); sf = tuple(slice(s, e) for s, e in zip(lf.starts, lf.ends)); f.getAllData()[:] = fg[sf]
        lp = phi.getLayout('v_parallel_1d'); sp = tuple(slice(s, e) for s, e in zip(lp.starts, lp.ends)); phi.getAllData()[:] = pg[sp]
        VParallelAdvection(eta, bs[3], c).gridStep(f, phi, ParallelGradient(bs[1], eta, lp, c), np.empty([lf.shape[0], nz, nq]), 2.0)
        out[sf] = f.getAllData()
    return out

def flux(c, nprocs, seed=2):
    eta, bs = space(c); nr, nq, nz, nv = [g.size for g in eta]
    rng = np.random.default_rng(seed); fg = 1+.5*rng.random((nr, nv, nq, nz))
    out = np.full(fg.shape, np.nan)
    for co, comms, world in ranks(nprocs):
        hf = LayoutHandler(comms, co, LF, list(nprocs), eta)
        f = Grid(eta, bs, hf, 'flux_surface', world)
        lf = f.getLayout('flux_surface'); sf = tuple(slice(s, e) for s, e in zip(lf.starts, lf.ends)); f.getAllData()[:] = fg[sf]
        FluxSurfaceAdvection(eta, f.get2DSpline(), lf, 1.0, c).gridStep(f)
        out[sf] = f.getAllData()
    return out

def rel(a, b): return np.abs(a-b).max()/np.abs(b).max()
bad = 0
for name, fn, c, grids in (
        ("6.3 v-parallel gridStep, z distributed", vpar, consts(Constants, 0.0), ([1, 2], [2, 2], [1, 4])),
        ("6.2 flux-surface gridStep, iota=0.8, r distributed", flux, consts(Constants, 0.8), ([2, 1], [5, 1], [1, 2])),
        ("6.4 parallel gradient, iota(r), r distributed", vpar, consts(RConstants, 0.8), ([2, 1], [5, 1]))):
    ref = fn(c, [1, 1])
    for g in grids:
        e = rel(fn(c, g), ref)
        print(f"{name}: process grid {g}: rel. diff to serial {e:.3e}")
        bad += e > 1e-12
print("DECOMPOSITION-DEPENDENT" if bad else "OK")
sys.exit(1 if bad else 0)
