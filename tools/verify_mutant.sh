#!/bin/bash
# usage: verify_mutant.sh <PID> <variant>   e.g. C01 a     -> one line of JSON on stdout
pid=$1; v=$2
out=${MUTROOT:-/tmp/mut/out}/$pid/$v
wt=/tmp/ver/${pid}_$v
rm -rf $wt; mkdir -p /tmp/ver
git -C /repo worktree add -q --detach $wt HEAD 2>/dev/null || { echo "{\"id\":\"$pid/$v\",\"error\":\"worktree\"}"; exit 0; }
demo=$out/demo.py; [ -f $demo ] || demo=$out/test_demo.py
cd $wt
timeout 900 /venv/bin/python $demo > $wt.clean.log 2>&1; clean=$?
patch=$out/patch.diff; [ -f $out/patch_ported.diff ] && patch=$out/patch_ported.diff
if git apply --whitespace=nowarn $patch 2>/dev/null; then applied=1; else applied=0; fi
mutrc=-1; tests="na"; caught=""
if [ $applied = 1 ]; then
  timeout 900 /venv/bin/python $demo > $wt.mut.log 2>&1; mutrc=$?
  tests=$(timeout 1500 /venv/bin/python -m pytest -q -p no:cacheprovider --timeout=900 --continue-on-collection-errors 2>&1 | tail -1 | tr -d '\n' | cut -c1-80)
  cd /verif
  for c in $(seq -w 1 20); do
    PGVERIF_REPO=$wt PGVERIF_EVIDENCE_DIR=$wt.ev /venv/bin/python -m pgverif check C$c > $wt.chk.C$c.log 2>&1; rc=$?
    [ $rc = 1 ] && caught="$caught C$c"
    [ $rc = 2 ] && caught="$caught C$c(err)"
  done
fi
cd /; git -C /repo worktree remove --force $wt 2>/dev/null; rm -rf $wt.ev
echo "{\"id\":\"$pid/$v\",\"patch\":\"$(basename $patch)\",\"applied\":$applied,\"demo_clean_rc\":$clean,\"demo_mut_rc\":$mutrc,\"tests\":\"$tests\",\"caught_by\":\"$caught\"}"
