"""C20 - process-grid selection (narrow claim: the structural clauses).

Every rule is three-valued.  HOLDS: the statements carrying the argument are found (up to the names of locals, tuple
assignments, hoisted loop invariants, helper functions written back in place, keyword arguments, `<`/`<=` with a
shifted integer bound).  VIOLATED: a recognised wrong form (wrong dimension under a bound, failure test that is not the
negated scan bound, process count of another communicator, extents replaced one without the other, a memoised table
changed in place, an iteration that changes nothing).  Anything else is UNDECIDED.

Round 4 (relational forms):
 - N1-call-site also compares the two READS of the grid sizes: the attribute handed to the search and the reads the grids of
   the layouts are computed from (backward slice of getLayoutHandler's eta_grids) must see the same object state: a store into
   the constants object between them is VIOLATED with both reads quoted.
 - N1-bounds: a bound written `min(npts[o[k]] for o in T)` is followed through T (module constant table -> compared with the
   standard layouts; `layouts.values()` of a parameter -> holds relationally for position k, and the call sites must hand the
   dictionary they give to getLayoutHandler).
 - N2 on a search written over a TABLE of candidates (`_Coll`: integers lo..hi, filtered by divisibility / admissibility, list
   comprehension or masked arange, slices `X[i+1:]`, `range(r1 + 1, ...)`): `for ... else: raise`, `if <table empty>: raise`,
   and `if quotient > bound: raise` on one pre-selected element (wrong unless that element is the largest candidate).

Round 5 (facts derived independently of the statement shape):
 - N1-result-of-search: every value compute_2d_process_grid hands back is followed (names, unpacked pairs, tuple()/list()) to a call
   of the search; a pair built otherwise (fallback in a handler of the search's error, early return) is judged by the conditions on
   the path to it: HOLDS when they bound every dimension the standard layouts distribute along the extent's direction, VIOLATED
   with the missing dimension quoted otherwise; a handler that raises again on every path holds.  The same for a handler around
   the call in the set-up functions.  The call of the search is found wherever it stands (try body, assignment, return).
 - caller + callee as the unit: the communicator query moved into compute_2d_process_grid (second parameter = communicator) and
   the bounds computed by the set-up function with a direct call of the search are both composed before comparing; the pair is
   followed from the call to getLayoutHandler through unpacking / indexing / packing (swapped order = VIOLATED).
 - normal form: a counter kept with another origin (read only as k + c) is replaced by the value it stands for, the odd read
   out staying visible; copies that only rename a value between the phases of a function are coalesced; optional parameters
   with a literal default that no caller passes are bound to it; `_cmp` reads `v + c <op> B`.
 - N2: several `return <same pair>` (early return inside the refinement = break); store checks are path-sensitive (a branch that
   leaves the iteration does not count); a refinement with no test of the quotient is decided by the one-bit invariant
   `candidate >= current + 1` on every path to the acceptance (so its quotient is not above the current, admissible one); a
   generator consumed by the first search and continued by the second is the candidates after the stop.
 - N2-early-exit: `if <condition on the count>: return <pair of 1 / count>` before the search is judged on its own and taken out.
 - N4-result-table: a hand-written table of earlier results: writer key == reader key, key holds every argument.
"""
from __future__ import annotations

import ast
import copy

from ..core import src, AnalysisError, parent, same_expr, increment_of
from .. import units as U
from .. import ispace as I
from .. import lints

GRID = "compute_2d_process_grid"
FROM_MAX = "compute_2d_process_grid_from_max"
SUBCOMM_CALLS = {"Split", "Split_type", "Create", "Create_group", "Create_cart", "Sub", "Create_graph"}


# ---------------------------------------------------------------------------------------------------------
# local normal form of the two small integer functions of process_grid.py (on a copy of the syntax tree)
# ---------------------------------------------------------------------------------------------------------
_PURE_CALLS = {"min", "max", "abs", "int", "len"}


def _blocks_of(node):
    """every statement list under node"""
    for n in ast.walk(node):
        for f in ("body", "orelse", "finalbody"):
            b = getattr(n, f, None)
            if isinstance(b, list) and b and isinstance(b[0], ast.stmt):
                yield b


def _root_name(e):
    while isinstance(e, (ast.Subscript, ast.Attribute)):
        e = e.value
    return e.id if isinstance(e, ast.Name) else None


def _pure(e):
    for n in ast.walk(e):
        if isinstance(n, ast.Call):
            if not (isinstance(n.func, ast.Name) and n.func.id in _PURE_CALLS) or n.keywords:
                return False
        elif isinstance(n, (ast.Lambda, ast.Await, ast.Yield, ast.YieldFrom, ast.NamedExpr, ast.ListComp, ast.GeneratorExp,
                            ast.SetComp, ast.DictComp, ast.Starred, ast.Attribute)):
            return False
    return True


def _written(fn):
    """names whose value, or the object they name, can change inside fn"""
    out = set()
    for n in ast.walk(fn):
        if isinstance(n, ast.Name) and isinstance(n.ctx, (ast.Store, ast.Del)):
            out.add(n.id)
        elif isinstance(n, (ast.Subscript, ast.Attribute)) and isinstance(n.ctx, (ast.Store, ast.Del)):
            r = _root_name(n)
            if r:
                out.add(r)
        elif isinstance(n, ast.Call) and isinstance(n.func, ast.Attribute) and n.func.attr in lints.MUTATING_METHODS:
            r = _root_name(n.func.value)
            if r:
                out.add(r)
    return out


def _split_tuple_assigns(fn):
    """`a, b = x, y` with no target read on the right is `a = x; b = y`"""
    for blk in list(_blocks_of(fn)):
        k = 0
        while k < len(blk):
            st = blk[k]
            if isinstance(st, ast.Assign) and len(st.targets) == 1 and isinstance(st.targets[0], ast.Tuple) \
                    and isinstance(st.value, ast.Tuple) and len(st.value.elts) == len(st.targets[0].elts) \
                    and all(isinstance(t, ast.Name) for t in st.targets[0].elts) \
                    and not any(isinstance(v, ast.Starred) for v in st.value.elts):
                tn = [t.id for t in st.targets[0].elts]
                read = {n.id for v in st.value.elts for n in ast.walk(v) if isinstance(n, ast.Name)}
                if len(set(tn)) == len(tn) and not (set(tn) & read):
                    new = [ast.copy_location(ast.Assign(targets=[t], value=v), st) for t, v in zip(st.targets[0].elts, st.value.elts)]
                    blk[k:k + 1] = new
                    k += len(new)
                    continue
            k += 1


class _Subst(ast.NodeTransformer):
    def __init__(self, name, expr):
        self.name, self.expr = name, expr

    def visit_Name(self, node):
        if node.id == self.name and isinstance(node.ctx, ast.Load):
            new = copy.deepcopy(self.expr)
            for x in ast.walk(new):
                ast.copy_location(x, node)
            return new
        return node


def _inline_invariants(fn):
    """a local assigned once from an expression over names that never change in fn (`upper1 = min(mpi_size, max_proc1)`,
    `stop = upper1 + 1`) has that value at every use: the uses are replaced by the expression"""
    params = {a.arg for a in fn.args.args + fn.args.kwonlyargs + fn.args.posonlyargs}
    done = []
    changed = True
    while changed and len(done) < 50:
        changed = False
        written = _written(fn)
        nstores = {}
        for n in ast.walk(fn):
            if isinstance(n, ast.Name) and isinstance(n.ctx, (ast.Store, ast.Del)):
                nstores[n.id] = nstores.get(n.id, 0) + 1
        for blk in list(_blocks_of(fn)):
            for k, st in enumerate(blk):
                if not (isinstance(st, ast.Assign) and len(st.targets) == 1 and isinstance(st.targets[0], ast.Name)):
                    continue
                nm = st.targets[0].id
                if nm in params or nstores.get(nm) != 1 or not _pure(st.value):
                    continue
                read = {n.id for n in ast.walk(st.value) if isinstance(n, ast.Name)}
                if read & written:
                    continue
                del blk[k]
                if not blk:
                    blk.append(ast.copy_location(ast.Pass(), st))
                _Subst(nm, st.value).visit(fn)
                done.append(nm)
                changed = True
                break
            if changed:
                break
    return done


class _Rename(ast.NodeTransformer):
    def __init__(self, old, new):
        self.old, self.new = old, new

    def visit_Name(self, node):
        if node.id == self.old:
            node.id = self.new
        return node


def _coalesce_copies(fn):
    """a top-level copy `y = x` after which `x` is never used again, of a `y` that is not used before it, only gives the value a
    new name (the phases of a function written one after the other, each with its own names): `y` is renamed to `x` and the copy
    dropped"""
    params = {a.arg for a in fn.args.args + fn.args.kwonlyargs + fn.args.posonlyargs}
    done = 0
    changed = True
    while changed and done < 20:
        changed = False
        for k, st in enumerate(fn.body):
            if not (isinstance(st, ast.Assign) and len(st.targets) == 1 and isinstance(st.targets[0], ast.Name)
                    and isinstance(st.value, ast.Name) and st.value.id != st.targets[0].id):
                continue
            y, x = st.targets[0].id, st.value.id
            if y in params or x in params:
                continue
            after = {n.id for s_ in fn.body[k + 1:] for n in ast.walk(s_) if isinstance(n, ast.Name)}
            before = {n.id for s_ in fn.body[:k] for n in ast.walk(s_) if isinstance(n, ast.Name)}
            scoped = any(isinstance(n, (ast.Global, ast.Nonlocal, ast.Lambda, ast.FunctionDef)) for s_ in fn.body for n in ast.walk(s_))
            if x in after or y in before or scoped:
                continue
            del fn.body[k]
            _Rename(y, x).visit(fn)
            done += 1
            changed = True
            break
    return done


def _shift_counters(fn):
    """a local that is read only as `k + c` with one integer constant c (a counter kept with another origin: zero-based, say) and
    written only by `k = <integer>` / `k += <integer>` is replaced by the value it stands for, k' = k + c: every read `k + c`
    becomes `k'`, every `k = a` becomes `k' = a + c`; `k += a` is unchanged.  A change of variable, valid for every execution."""
    params = {a.arg for a in fn.args.args + fn.args.kwonlyargs + fn.args.posonlyargs}
    done = []
    names = {n.id for n in ast.walk(fn) if isinstance(n, ast.Name) and isinstance(n.ctx, ast.Store)} - params
    for k in sorted(names):
        shifts, ok, bare = set(), True, []
        reads = [n for n in ast.walk(fn) if isinstance(n, ast.Name) and n.id == k and isinstance(n.ctx, ast.Load)]
        par = {}
        for n in ast.walk(fn):
            for ch in ast.iter_child_nodes(n):
                par[id(ch)] = n
        for r in reads:
            p_ = par.get(id(r))
            if isinstance(p_, ast.BinOp) and isinstance(p_.op, ast.Add) and ((p_.left is r and _int_const(p_.right)) or (p_.right is r and _int_const(p_.left))):
                shifts.add(p_.right.value if p_.left is r else p_.left.value)
            elif isinstance(p_, ast.BinOp) and isinstance(p_.op, ast.Sub) and p_.left is r and _int_const(p_.right):
                shifts.add(-p_.right.value)
            else:
                bare.append(r)          # a read with the other origin: written `k' - c` below (the odd one out stays visible)
        if len(bare) * 2 >= len(reads):
            ok = False
        for n in ast.walk(fn):
            if isinstance(n, ast.Name) and n.id == k and isinstance(n.ctx, (ast.Store, ast.Del)):
                p_ = par.get(id(n))
                if isinstance(p_, ast.Assign) and len(p_.targets) == 1 and p_.targets[0] is n and _int_const(p_.value):
                    continue
                if isinstance(p_, ast.AugAssign) and p_.target is n and isinstance(p_.op, (ast.Add, ast.Sub)) and _int_const(p_.value):
                    continue
                ok = False
        if not ok or not reads or len(shifts) != 1 or 0 in shifts:
            continue
        c = next(iter(shifts))

        class R(ast.NodeTransformer):
            def visit_BinOp(self, n):
                if isinstance(n.op, (ast.Add, ast.Sub)) and ((isinstance(n.left, ast.Name) and n.left.id == k and _int_const(n.right))
                                                             or (isinstance(n.op, ast.Add) and isinstance(n.right, ast.Name) and n.right.id == k and _int_const(n.left))):
                    return ast.copy_location(ast.Name(id=k, ctx=ast.Load()), n)
                return self.generic_visit(n)

            def visit_Assign(self, n):
                if len(n.targets) == 1 and isinstance(n.targets[0], ast.Name) and n.targets[0].id == k and _int_const(n.value):
                    n.value = ast.copy_location(ast.Constant(value=n.value.value + c), n.value)
                    return n
                return self.generic_visit(n)

            def visit_Name(self, n):
                if any(n is b_ for b_ in bare):
                    return ast.copy_location(ast.BinOp(left=ast.Name(id=k, ctx=ast.Load()), op=ast.Sub() if c > 0 else ast.Add(),
                                                       right=ast.Constant(value=abs(c))), n)
                return n
        R().visit(fn)
        # the new variable gets a name that says what it stands for, so that a diagnosis quoting it can be read against the source
        new = f"{k}_plus_{c}" if c > 0 else f"{k}_minus_{-c}"
        if new not in {n.id for n in ast.walk(fn) if isinstance(n, ast.Name)}:
            _Rename(k, new).visit(fn)
        done.append((k, c))
    return done


class _Fold(ast.NodeTransformer):
    """x // 1, x * 1, 1 * x, x + 0, 0 + x, x - 0 -> x"""
    def visit_BinOp(self, n):
        self.generic_visit(n)
        if isinstance(n.op, (ast.FloorDiv, ast.Mult)) and _int_const(n.right) and n.right.value == 1:
            return n.left
        if isinstance(n.op, ast.Mult) and _int_const(n.left) and n.left.value == 1:
            return n.right
        if isinstance(n.op, (ast.Add, ast.Sub)) and _int_const(n.right) and n.right.value == 0:
            return n.left
        if isinstance(n.op, ast.Add) and _int_const(n.left) and n.left.value == 0:
            return n.right
        return n


def _bind_defaults(fn, caller_trees, keep=3):
    """parameters after the first `keep` that have a literal default and that no call in the given modules passes: the function is
    analysed with the default bound (the behaviour every caller sees) -> [(name, default text)]"""
    args = fn.args
    pos = args.posonlyargs + args.args
    nd = len(args.defaults)
    bound = []
    if args.vararg or args.kwarg or len(pos) <= keep:
        return bound
    calls = [n for t in caller_trees for n in ast.walk(t) if isinstance(n, ast.Call) and isinstance(n.func, ast.Name) and n.func.id == fn.name]
    written = _written(fn)
    cand = []
    for i, a in enumerate(pos):
        d = args.defaults[i - (len(pos) - nd)] if i >= len(pos) - nd else None
        if i >= keep and isinstance(d, ast.Constant) and a.arg not in written:
            cand.append((i, a, d))
    for a, d in zip(args.kwonlyargs, args.kw_defaults):
        if isinstance(d, ast.Constant) and a.arg not in written:
            cand.append((None, a, d))
    for i, a, d in cand:
        passed = any(any(isinstance(x, ast.Starred) for x in c.args) or any(k.arg is None or k.arg == a.arg for k in c.keywords)
                     or (i is not None and len(c.args) > i) for c in calls)
        if passed:
            continue
        _Subst(a.arg, d).visit(fn)
        bound.append((a.arg, src(d)))
    names = {b_[0] for b_ in bound}
    if names:
        # only a trailing run of positional parameters can be dropped without moving the others
        while args.args and args.args[-1].arg in names and args.defaults:
            args.args.pop()
            args.defaults.pop()
        keepkw = [(a, d) for a, d in zip(args.kwonlyargs, args.kw_defaults) if a.arg not in names]
        args.kwonlyargs, args.kw_defaults = [a for a, _ in keepkw], [d for _, d in keepkw]
        _Fold().visit(fn)
    return bound


def _normal_form(tree, names, caller_trees=()):
    """copy of the module with the named functions in local normal form -> (tree copy, {name: FunctionDef})"""
    t2 = copy.deepcopy(tree)
    out = {}
    for st in t2.body:
        if isinstance(st, ast.FunctionDef) and st.name in names:
            if caller_trees and st.name == FROM_MAX:
                st._bound_defaults = _bind_defaults(st, [t2] + list(caller_trees), keep=3)
            _split_tuple_assigns(st)
            _shift_counters(st)
            _coalesce_copies(st)
            _inline_invariants(st)
            ast.fix_missing_locations(st)
            out[st.name] = st
    for n in ast.walk(t2):
        for ch in ast.iter_child_nodes(n):
            ch._parent = n
    return t2, out


# ---------------------------------------------------------------------------------------------------------
# integer comparisons in canonical form
# ---------------------------------------------------------------------------------------------------------
class _SortMinMax(ast.NodeTransformer):
    def visit_Call(self, n):
        self.generic_visit(n)
        if isinstance(n.func, ast.Name) and n.func.id in ("min", "max") and not n.keywords \
                and not any(isinstance(a, ast.Starred) for a in n.args):
            n.args = sorted(n.args, key=ast.unparse)
        return n


def _canon(e):
    """text of an expression, operands of min/max in a fixed order"""
    return ast.unparse(_SortMinMax().visit(copy.deepcopy(e)))


def _int_const(e):
    return isinstance(e, ast.Constant) and type(e.value) is int


def _lin(e):
    """e = base + c with an integer constant c -> (canonical text of base, c)"""
    if isinstance(e, ast.BinOp) and isinstance(e.op, (ast.Add, ast.Sub)):
        if _int_const(e.right):
            b, c = _lin(e.left)
            return b, c + (e.right.value if isinstance(e.op, ast.Add) else -e.right.value)
        if isinstance(e.op, ast.Add) and _int_const(e.left):
            b, c = _lin(e.right)
            return b, c + e.left.value
    return _canon(e), 0


_OPS = {ast.LtE: ("le", 0), ast.Lt: ("le", -1), ast.Gt: ("gt", 0), ast.GtE: ("gt", -1)}
_FLIP = {ast.LtE: ast.GtE, ast.Lt: ast.Gt, ast.Gt: ast.Lt, ast.GtE: ast.LtE}


def _cmp(test, names, taken=True):
    """the integer comparison `test` (as decided: taken) about one of `names`, as
    (name, 'le', base, k): name <= base + k   or   (name, 'gt', base, k): name > base + k ; None when it is none"""
    if isinstance(test, ast.UnaryOp) and isinstance(test.op, ast.Not):
        return _cmp(test.operand, names, not taken)
    if not (isinstance(test, ast.Compare) and len(test.ops) == 1):
        return None
    l, op, r = test.left, type(test.ops[0]), test.comparators[0]
    if op not in _OPS:
        return None
    def shifted(x):
        """`name + c` / `name - c` / `c + name` -> (name, c)"""
        if isinstance(x, ast.Name) and x.id in names:
            return x.id, 0
        if isinstance(x, ast.BinOp) and isinstance(x.op, (ast.Add, ast.Sub)) and isinstance(x.left, ast.Name) and x.left.id in names \
                and _int_const(x.right):
            return x.left.id, x.right.value if isinstance(x.op, ast.Add) else -x.right.value
        if isinstance(x, ast.BinOp) and isinstance(x.op, ast.Add) and isinstance(x.right, ast.Name) and x.right.id in names and _int_const(x.left):
            return x.right.id, x.left.value
        return None
    sl, sr = shifted(l), shifted(r)
    if sl is not None:
        (nm, off), other = sl, r
    elif sr is not None:
        (nm, off), other, op = sr, l, _FLIP[op]
    else:
        return None
    kind, adj = _OPS[op]
    base, c = _lin(other)
    c -= off
    if not taken:
        kind = "gt" if kind == "le" else "le"
    return nm, kind, base, c + adj


def _facts(test, taken):
    """(test, taken) pairs that all hold when `test` evaluates to `taken`"""
    if isinstance(test, ast.UnaryOp) and isinstance(test.op, ast.Not):
        return _facts(test.operand, not taken)
    if isinstance(test, ast.BoolOp) and ((isinstance(test.op, ast.And) and taken) or (isinstance(test.op, ast.Or) and not taken)):
        return [f for v in test.values for f in _facts(v, taken)]
    return [(test, taken)]


def _bound_text(base, k):
    return base if k == 0 else f"{base} {'+' if k > 0 else '-'} {abs(k)}"


# ---------------------------------------------------------------------------------------------------------
# the divisor scan  `while v <= B and M % v != 0: v += 1`
# ---------------------------------------------------------------------------------------------------------
def _is_nondiv(c, v, M):
    return same_expr(c, f"{M} % {v} != 0") or same_expr(c, f"0 != {M} % {v}") or same_expr(c, f"{M} % {v}") \
        or same_expr(c, f"{M} % {v} > 0")


def _scan_at(st, M):
    if not isinstance(st, ast.While) or st.orelse or len(st.body) != 1:
        return None
    inc = increment_of(st.body[0])
    if not inc or not (_int_const(inc[1]) and inc[1].value == 1):
        return None
    v = inc[0]
    conj = st.test.values if isinstance(st.test, ast.BoolOp) and isinstance(st.test.op, ast.And) else [st.test]
    bound = nondiv = None
    for c in conj:
        if _is_nondiv(c, v, M):
            nondiv = c
            continue
        f = _cmp(c, {v})
        if f and f[1] == "le" and bound is None:
            bound = f
        else:
            return None
    if bound is None or nondiv is None:
        return None
    return {"loop": st, "var": v, "base": bound[2], "k": bound[3], "nondiv": nondiv}


def _scans_in(stmts, M):
    """[(block, index, scan)] for every divisor scan under the statements"""
    out = []
    holder = ast.Module(body=list(stmts), type_ignores=[])
    for blk in _blocks_of(holder):
        for k, st in enumerate(blk):
            s = _scan_at(st, M)
            if s:
                out.append((blk if blk is not holder.body else stmts, k, s))
    return out


def _scan_start(blk, k, v):
    """value of the scan variable when the scan at blk[k] starts, as (name, c): name + c with `name` the value a variable
    has on entry of the block; None when the statements before the scan are not plain assignments"""
    want, off = v, 0
    for j in range(k - 1, -1, -1):
        st = blk[j]
        inc = increment_of(st)
        if inc and inc[0] == want:
            if not _int_const(inc[1]):
                return None
            off += inc[1].value
            continue
        if isinstance(st, ast.Assign) and len(st.targets) == 1 and isinstance(st.targets[0], ast.Name):
            if st.targets[0].id != want:
                continue
            e = st.value
            if isinstance(e, ast.Name):
                want = e.id
                continue
            if isinstance(e, ast.BinOp) and isinstance(e.op, ast.Add) and isinstance(e.left, ast.Name) and _int_const(e.right):
                want, off = e.left.id, off + e.right.value
                continue
            if isinstance(e, ast.BinOp) and isinstance(e.op, ast.Add) and isinstance(e.right, ast.Name) and _int_const(e.left):
                want, off = e.right.id, off + e.left.value
                continue
            return None
        if isinstance(st, ast.AugAssign) and isinstance(st.target, ast.Name) and st.target.id == want:
            return None
        if isinstance(st, (ast.While, ast.For, ast.If, ast.With, ast.Try)) and \
                any(isinstance(n, ast.Name) and isinstance(n.ctx, ast.Store) and n.id == want for n in ast.walk(st)):
            return None
    return want, off


def _aliases_after(blk, k, v):
    """names holding the scanned value after the scan at blk[k] (`w = v` statements), and the index of the first
    statement that is not such an assignment"""
    al = {v}
    j = k + 1
    while j < len(blk):
        st = blk[j]
        if isinstance(st, ast.Assign) and len(st.targets) == 1 and isinstance(st.targets[0], ast.Name) \
                and isinstance(st.value, ast.Name) and st.value.id in al:
            al.add(st.targets[0].id)
            j += 1
            continue
        break
    return al, j


# ---------------------------------------------------------------------------------------------------------
# positions and path conditions inside a loop body
# ---------------------------------------------------------------------------------------------------------
def _preorder(stmts):
    out = []

    def rec(b):
        for st in b:
            out.append(st)
            for f in ("body", "orelse", "finalbody"):
                sub = getattr(st, f, None)
                if isinstance(sub, list) and sub and isinstance(sub[0], ast.stmt):
                    rec(sub)
            for h in getattr(st, "handlers", []) or []:
                rec(h.body)
    rec(stmts)
    return out


def _own_stores(st):
    if isinstance(st, ast.Assign):
        return {n.id for t in st.targets for n in ast.walk(t) if isinstance(n, ast.Name) and isinstance(n.ctx, ast.Store)}
    if isinstance(st, (ast.AugAssign, ast.AnnAssign)):
        return {n.id for n in ast.walk(st.target) if isinstance(n, ast.Name) and isinstance(n.ctx, ast.Store)}
    if isinstance(st, ast.For):
        return {n.id for n in ast.walk(st.target) if isinstance(n, ast.Name)}
    if isinstance(st, ast.With):
        return {n.id for it in st.items if it.optional_vars is not None for n in ast.walk(it.optional_vars) if isinstance(n, ast.Name)}
    return set()


def _stored_between(order, i, j, names, live=None):
    """is one of the names stored by a statement at a position in (i, j)?  With `live` (ids of the statements that can run
    before the target on a path that reaches it) statements of branches that leave the iteration are not counted"""
    return any(_own_stores(order[p]) & names for p in range(max(i + 1, 0), j) if live is None or id(order[p]) in live)


def _live_before(stmts, target):
    """ids of the statements under `stmts` that can be executed before `target` on a path that reaches it in the same pass over
    `stmts`: a branch that ends in break/continue/return/raise before the target is not on such a path"""
    chain = _chain_to(stmts, target)
    live = set()
    if chain is None:
        return None

    def add(st):
        live.add(id(st))
        if isinstance(st, ast.If):
            for b in (st.body, st.orelse):
                if not _ends_in_jump(b):
                    for x in b:
                        add(x)
        else:
            for x in _preorder([st])[1:]:
                live.add(id(x))
    for blk, k in chain:
        for sib in blk[:k]:
            add(sib)
        live.add(id(blk[k]))
    return live


def _ends_in_jump(b):
    return bool(b) and isinstance(b[-1], (ast.Break, ast.Continue, ast.Return, ast.Raise))


def _chain_to(stmts, target):
    """[(block, index)] from the statement list down to the block holding `target`"""
    for k, st in enumerate(stmts):
        if st is target:
            return [(stmts, k)]
        for f in ("body", "orelse", "finalbody"):
            sub = getattr(st, f, None)
            if isinstance(sub, list) and sub and isinstance(sub[0], ast.stmt):
                c = _chain_to(sub, target)
                if c:
                    return [(stmts, k)] + c
        for h in getattr(st, "handlers", None) or []:
            c = _chain_to(h.body, target)
            if c:
                return [(stmts, k)] + c
    return None


def _path_facts(loop, target):
    """[(position, test, taken)]: decisions every path from the head of an iteration of `loop` to `target` has taken
    (position -1 = the loop test).  Nested loops contribute nothing."""
    order = _preorder(loop.body)
    pos = {id(s): p for p, s in enumerate(order)}
    chain = _chain_to(loop.body, target)
    if chain is None:
        return None, order, pos
    out = [(-1, loop.test, True)] if isinstance(loop, ast.While) else []
    for lvl, (blk, k) in enumerate(chain):
        for sib in blk[:k]:
            if isinstance(sib, ast.If):
                if _ends_in_jump(sib.body) and not _ends_in_jump(sib.orelse):
                    out.append((pos[id(sib)], sib.test, False))
                elif _ends_in_jump(sib.orelse) and not _ends_in_jump(sib.body):
                    out.append((pos[id(sib)], sib.test, True))
        if lvl + 1 < len(chain):
            st = blk[k]
            nxt = chain[lvl + 1][0]
            if isinstance(st, ast.If):
                out.append((pos[id(st)], st.test, nxt is st.body))
            elif isinstance(st, (ast.While, ast.For)):
                return None, order, pos        # inside a nested loop: not handled
    return out, order, pos


# ---------------------------------------------------------------------------------------------------------
# calls: arguments by parameter name
# ---------------------------------------------------------------------------------------------------------
def _params(fn):
    return [a.arg for a in fn.args.posonlyargs + fn.args.args]


def _bind(call, params):
    """{parameter: argument expression}, or None (starred arguments, unknown keyword)"""
    if any(isinstance(a, ast.Starred) for a in call.args) or any(k.arg is None for k in call.keywords) or len(call.args) > len(params):
        return None
    out = dict(zip(params, call.args))
    for k in call.keywords:
        if k.arg not in params or k.arg in out:
            return None
        out[k.arg] = k.value
    return out


# ---------------------------------------------------------------------------------------------------------
# N1: the bounds of compute_2d_process_grid cover the standard layouts
# ---------------------------------------------------------------------------------------------------------
def _dims_under(e, npts):
    """(function, set of dimensions d) for  f(npts[d], ...)  with f in min/max (nested allowed) or a single npts[d]"""
    if isinstance(e, ast.Subscript) and isinstance(e.value, ast.Name) and e.value.id == npts:
        s = e.slice
        if isinstance(s, ast.UnaryOp) and isinstance(s.op, ast.USub) and _int_const(s.operand):
            return "min", {4 - s.operand.value}
        if _int_const(s):
            return "min", {s.value}
        return None
    if isinstance(e, ast.Call) and isinstance(e.func, ast.Name) and e.func.id in ("min", "max") and not e.keywords and e.args:
        dims, fun = set(), e.func.id
        for a in e.args:
            sub = _dims_under(a, npts)
            if sub is None or (sub[0] != fun and isinstance(a, ast.Call)):
                return None
            dims |= sub[1]
        return fun, dims
    return None


def _int_rows(e):
    """literal table ((0, 3, 1, 2), ...) / dict literal with such values -> list of tuples of int, else None"""
    if isinstance(e, ast.Dict):
        vals = e.values
    elif isinstance(e, (ast.Tuple, ast.List)):
        vals = e.elts
    else:
        return None
    rows = []
    for v in vals:
        if not (isinstance(v, (ast.Tuple, ast.List)) and v.elts and all(_int_const(x) for x in v.elts)):
            return None
        rows.append(tuple(x.value for x in v.elts))
    return rows or None


def _module_const(tree, name):
    vals = [st.value for st in tree.body if isinstance(st, ast.Assign) and any(isinstance(t, ast.Name) and t.id == name for t in st.targets)]
    vals += [st.value for st in tree.body if isinstance(st, ast.AnnAssign) and isinstance(st.target, ast.Name) and st.target.id == name and st.value]
    stored = sum(1 for n in ast.walk(tree) if isinstance(n, ast.Name) and n.id == name and isinstance(n.ctx, (ast.Store, ast.Del)))
    return vals[0] if len(vals) == 1 and stored == 1 else None


def _table_alts(fn, tree, e, as_dict=False, depth=0):
    """the tables of dimension orderings an expression can stand for:
    [('const', rows, text) | ('param', parameter name, text)], or None when some alternative is not followed.
    as_dict: the expression is a dictionary whose VALUES are the orderings"""
    if depth > 6:
        return None
    params = _params(fn) + [a.arg for a in fn.args.kwonlyargs]
    if isinstance(e, ast.IfExp):
        a, b = _table_alts(fn, tree, e.body, as_dict, depth + 1), _table_alts(fn, tree, e.orelse, as_dict, depth + 1)
        return None if a is None or b is None else a + b
    if isinstance(e, ast.Name):
        vals, augs = _defs(fn, e.id)
        if augs or any(v is None for v in vals):
            return None
        out = []
        if e.id in params:
            if not as_dict:
                return None
            out.append(("param", e.id, e.id))
        elif not vals:
            c = _module_const(tree, e.id)
            rows = _int_rows(c) if c is not None and (isinstance(c, ast.Dict) == as_dict) else None
            return [("const", rows, e.id)] if rows else None
        for v in vals:
            if isinstance(v, ast.Constant) and v.value is None:
                continue
            sub = _table_alts(fn, tree, v, as_dict, depth + 1)
            if sub is None:
                return None
            out += sub
        return out or None
    if isinstance(e, ast.Call) and isinstance(e.func, ast.Name) and e.func.id in ("tuple", "list", "sorted") and len(e.args) == 1 and not e.keywords:
        return _table_alts(fn, tree, e.args[0], as_dict, depth + 1)
    if isinstance(e, ast.Call) and isinstance(e.func, ast.Attribute) and e.func.attr == "values" and not e.args and not e.keywords and not as_dict:
        return _table_alts(fn, tree, e.func.value, True, depth + 1)
    rows = _int_rows(e) if isinstance(e, ast.Dict) == as_dict else None
    return [("const", rows, src(e)[:60])] if rows else None


def _gen_bound(fn, tree, e, npts):
    """`min(npts[o[k]] for o in T)` (or a list comprehension, or `min(npts[d] for d in (0, 3))`)
    -> (k or None, alternatives of T) ; None when the expression has another form"""
    if not (isinstance(e, ast.Call) and src(e.func).split(".")[-1] == "min" and len(e.args) == 1 and not e.keywords
            and isinstance(e.args[0], (ast.GeneratorExp, ast.ListComp))):
        return None
    g = e.args[0]
    if len(g.generators) != 1 or g.generators[0].ifs or not isinstance(g.generators[0].target, ast.Name):
        return None
    t, it, elt = g.generators[0].target.id, g.generators[0].iter, g.elt
    if not (isinstance(elt, ast.Subscript) and isinstance(elt.value, ast.Name) and elt.value.id == npts):
        return None
    idx = elt.slice
    if isinstance(idx, ast.Name) and idx.id == t:
        if isinstance(it, (ast.Tuple, ast.List)) and it.elts and all(_int_const(x) for x in it.elts):
            return None, [("const", [(x.value,) for x in it.elts], src(it))]
        return None
    if isinstance(idx, ast.Subscript) and isinstance(idx.value, ast.Name) and idx.value.id == t and _int_const(idx.slice) and idx.slice.value >= 0:
        alts = _table_alts(fn, tree, it)
        return (idx.slice.value, alts) if alts else None
    return None


# ---------------------------------------------------------------------------------------------------------
# N1: what compute_2d_process_grid hands back is the result of the search, and the error of the search reaches the caller
# ---------------------------------------------------------------------------------------------------------
def _search_calls(fn):
    return [n for n in ast.walk(fn) if isinstance(n, ast.Call) and isinstance(n.func, ast.Name) and n.func.id == FROM_MAX]


def _name_defs(fn, name):
    """[(value or None, statement)] for every binding of the plain name in fn (None: bound by destructuring / loop / with / handler)"""
    out = []
    for n in ast.walk(fn):
        if isinstance(n, ast.Assign):
            for t in n.targets:
                if isinstance(t, ast.Name) and t.id == name:
                    out.append((n.value, n))
                elif isinstance(t, (ast.Tuple, ast.List)) and any(isinstance(x, ast.Name) and x.id == name for x in ast.walk(t)):
                    out.append((None, n))
        elif isinstance(n, (ast.AugAssign, ast.AnnAssign)) and isinstance(n.target, ast.Name) and n.target.id == name:
            out.append((n.value if isinstance(n, ast.AnnAssign) else None, n))
        elif isinstance(n, (ast.For, ast.With)):
            tg = [n.target] if isinstance(n, ast.For) else [it.optional_vars for it in n.items if it.optional_vars is not None]
            if any(isinstance(x, ast.Name) and x.id == name for t in tg for x in ast.walk(t)):
                out.append((None, n))
        elif isinstance(n, ast.NamedExpr) and n.target.id == name:
            out.append((None, _stmt_of(n)))
    return out


def _result_sources(fn, calls):
    """where the values handed back by fn come from: [(kind, expression, statement)] with kind 'search' (a call of the search
    function), 'foreign' (a value built otherwise) or None (not followed)"""
    out = []

    def classify(e, st, depth=0):
        if depth > 6 or e is None:
            out.append((None, e, st))
        elif any(e is c for c in calls):
            out.append(("search", e, st))
        elif isinstance(e, ast.Call) and isinstance(e.func, ast.Name) and e.func.id in ("tuple", "list") and len(e.args) == 1 and not e.keywords:
            classify(e.args[0], st, depth + 1)
        elif isinstance(e, ast.IfExp):
            classify(e.body, st, depth + 1)
            classify(e.orelse, st, depth + 1)
        elif isinstance(e, ast.Name):
            defs = _name_defs(fn, e.id)
            if not defs:
                out.append((None, e, st))
            for v, dst in defs:
                if v is None or isinstance(dst, ast.AugAssign):
                    out.append((None, e, dst))
                else:
                    classify(v, dst, depth + 1)
        elif isinstance(e, (ast.Tuple, ast.List)) and len(e.elts) == 2 and all(isinstance(x, ast.Name) for x in e.elts):
            # `n1, n2 = <search>` ... `return n1, n2`
            names = [x.id for x in e.elts]
            d0, d1 = _name_defs(fn, names[0]), _name_defs(fn, names[1])
            if len(d0) == 1 and len(d1) == 1 and d0[0][1] is d1[0][1] and d0[0][0] is None and isinstance(d0[0][1], ast.Assign) \
                    and len(d0[0][1].targets) == 1 and isinstance(d0[0][1].targets[0], (ast.Tuple, ast.List)) \
                    and [getattr(x, "id", None) for x in d0[0][1].targets[0].elts] == names:
                classify(d0[0][1].value, d0[0][1], depth + 1)
            else:
                out.append(("foreign", e, st))
        else:
            out.append(("foreign", e, st))
    for r in [n for n in ast.walk(fn) if isinstance(n, ast.Return)]:
        classify(r.value, r)
    return out


def _fn_facts(fn, target):
    """[(test, taken)] decided on every path from the entry of fn to the statement `target`; None inside a loop / not found"""
    chain = _chain_to(fn.body, target)
    if chain is None:
        return None
    out = []
    for lvl, (blk, k) in enumerate(chain):
        for sib in blk[:k]:
            if isinstance(sib, ast.If):
                if _ends_in_jump(sib.body) and not _ends_in_jump(sib.orelse):
                    out.append((sib.test, False))
                elif _ends_in_jump(sib.orelse) and not _ends_in_jump(sib.body):
                    out.append((sib.test, True))
        if lvl + 1 < len(chain):
            st = blk[k]
            nxt = chain[lvl + 1][0]
            if isinstance(st, ast.If):
                out.append((st.test, nxt is st.body))
            elif isinstance(st, (ast.While, ast.For)):
                return None
    return out


def _always_raises(blk):
    if not blk:
        return False
    last = blk[-1]
    if isinstance(last, ast.Raise):
        return True
    if isinstance(last, ast.If):
        return _always_raises(last.body) and _always_raises(last.orelse)
    return False


def _catches(handler, raised):
    """does `except <type>` catch the exceptions named in `raised`?  True / False / None (type not followed)"""
    import builtins
    if handler.type is None:
        return True
    types = handler.type.elts if isinstance(handler.type, ast.Tuple) else [handler.type]
    verdicts = []
    for t in types:
        h = getattr(builtins, src(t), None) if isinstance(t, ast.Name) else None
        if not (isinstance(h, type) and issubclass(h, BaseException)):
            verdicts.append(None)
            continue
        for r in raised:
            rc = getattr(builtins, r, None)
            verdicts.append(issubclass(rc, h) if isinstance(rc, type) and issubclass(rc, BaseException) else None)
    if any(v is True for v in verdicts):
        return True
    return None if any(v is None for v in verdicts) or not verdicts else False


def _pair_verdict(fn, e, st, npts, count, std, in_handler):
    """a pair handed back that does not come from the search: is it known to respect the bounds of the standard layouts along the
    path that reaches it?  -> (True / False / None, why)"""
    where = f"`{src(st).splitlines()[0][:70]}` (line {st.lineno})"
    ctxt = ("in the handler of the error the search raises when no grid fits, " if in_handler else "") + \
        f"{where} hands back a grid that is not the result of the search"
    if {npts, count} & _written(fn):
        return None, f"{ctxt}; `{npts}` / `{count}` are changed in {fn.name}: the conditions on them are not followed"
    if not (isinstance(e, (ast.Tuple, ast.List)) and len(e.elts) == 2):
        return None, f"{ctxt}, and `{src(e)[:60]}` is not a literal pair: cannot decide that it is a valid grid"
    facts = _fn_facts(fn, st)
    if facts is None:
        return None, f"{ctxt}; the conditions under which it is reached are not followed"
    known, one, unrec = set(), False, []
    for t, taken in facts:
        for t2, tk in _facts(t, taken):
            f = _cmp(t2, {count}, tk)
            if f and f[1] == "gt":
                continue                        # a lower bound of the process count: says nothing about the extents
            if f and f[1] == "le":
                try:
                    base = ast.parse(f[2], mode="eval").body
                except SyntaxError:
                    base = None
                if _int_const(base) and base.value + f[3] <= 1:
                    one = True
                    continue
                d = _dims_under(base, npts) if base is not None else None
                if d and (d[0] == "min" or len(d[1]) == 1) and f[3] <= 0:
                    known |= d[1]
                    continue
            if isinstance(t2, ast.Compare) and len(t2.ops) == 1 and isinstance(t2.ops[0], (ast.Eq, ast.NotEq)) \
                    and isinstance(t2.ops[0], ast.Eq) == tk:
                l, r = t2.left, t2.comparators[0]
                if (isinstance(l, ast.Name) and l.id == count and _int_const(r) and r.value == 1) or \
                        (isinstance(r, ast.Name) and r.id == count and _int_const(l) and l.value == 1):
                    one = True
                    continue
            unrec.append(t2)
    if unrec:
        return None, f"{ctxt}; the condition `{src(unrec[0])[:60]}` on the way to it is not followed"
    kinds = []
    for x in e.elts:
        kinds.append("one" if _int_const(x) and x.value == 1 else "count" if isinstance(x, ast.Name) and x.id == count else None)
    if None in kinds or not (sorted(kinds) == ["count", "one"] or (one and set(kinds) <= {"count", "one"})):
        return None, f"{ctxt}; the pair `{src(e)[:60]}` is not followed (extents other than the process count and 1): cannot decide that it " \
                     "multiplies to the process count and respects the bounds"
    cond = " and ".join(f"`{src(t)}` is {tk}" for t, tk in facts) or "no condition"
    for k, kind in enumerate(kinds):
        dims = {o[k] for o in std}
        if kind == "count" and not one and not dims <= known:
            miss = sorted(dims - known)
            return False, (f"{ctxt}: `{src(e)}`, reached under {cond}. Along this path the extent `{count}` laid on process direction {k} is "
                           f"known to be <= {npts}[d] only for d in {sorted(known & dims)}, but the standard layouts distribute the dimensions "
                           f"{sorted(dims)} along that direction: when {npts}[{miss[0]}] < {count} a process is left without points of "
                           f"dimension {miss[0]}" + (", and the error required when no valid factorisation exists is not raised" if in_handler else ""))
    return True, (f"{where}: the pair `{src(e)}` multiplies to the process count and, under {cond}, every extent is within the number of "
                  "points of every dimension distributed along its direction")


def result_of_search(chk, fn, search_fn, calls, npts, count, std, kw):
    rule = "N1-result-of-search"
    construct = f"every grid handed back by {GRID} is the result of {FROM_MAX}; its error reaches the caller"
    sources = _result_sources(fn, calls)
    raised = set()
    for r in ast.walk(search_fn) if search_fn is not None else []:
        if isinstance(r, ast.Raise) and r.exc is not None:
            raised.add(src(r.exc.func) if isinstance(r.exc, ast.Call) else src(r.exc))
    raised = raised or {"RuntimeError"}
    handlers = []        # (try statement, handler) around a call of the search that catch its error
    for t in [n for n in ast.walk(fn) if isinstance(n, ast.Try)]:
        if not any(any(x is c for c in calls) for st in t.body for x in ast.walk(st)):
            continue
        for h in t.handlers:
            handlers.append((t, h, _catches(h, raised)))
    in_handler = {}
    for t, h, catches in handlers:
        for x in _preorder(h.body):
            in_handler[id(x)] = (h, catches)
    nbad = 0
    for kind, e, st in sources:
        if kind == "search":
            continue
        nbad += 1
        if st is None:
            chk.ob(rule, fn, construct, None, "a value handed back is not followed to a statement", **kw)
            continue
        h = in_handler.get(id(st))
        if kind is None:
            chk.ob(rule, st, construct, None,
                   f"`{src(st).splitlines()[0][:70]}` (line {st.lineno}): the value handed back is not followed to a call of {FROM_MAX}", **kw)
            continue
        if h is not None and h[1] is False:
            nbad -= 1
            continue         # in a handler that cannot see the error of the search
        ok, why = _pair_verdict(fn, e, st, npts, count, std, h is not None and h[1] is True)
        chk.ob(rule, st, construct, ok, why, **kw)
    for t, h, catches in handlers:
        if catches is False:
            continue
        inside = [s_ for k_, _e, s_ in sources if k_ != "search" and s_ is not None and in_handler.get(id(s_), (None,))[0] is h]
        hd = f"`except {src(h.type) if h.type is not None else ''}`".replace(" `", "`") + f" (line {h.lineno})"
        if _always_raises(h.body) and not inside:
            chk.ob(rule, h, construct, True, f"{hd} around the search raises an error again on every path: the failure still reaches the caller", **kw)
        elif inside:
            continue         # judged above, statement by statement
        else:
            nbad += 1
            chk.ob(rule, h, construct, None,
                   f"{hd} around the call of {FROM_MAX} " + ("may catch" if catches is None else "catches") + f" the error raised when no grid fits "
                   f"({sorted(raised)}) and does not raise again on every path: cannot decide what {GRID} hands back then", **kw)
    if not nbad:
        chk.ob(rule, _stmt_of(calls[0]) or fn, construct, True,
               f"the only values {GRID} hands back are results of {FROM_MAX} on the two bounds; no handler around the call keeps its error "
               "from the caller", **kw)


def bounds_vs_layouts(chk, nf, tree=None):
    chk.func(U.PROCGRID, GRID)
    fn = nf[GRID]
    kw = dict(file=U.PROCGRID, func=GRID)
    try:
        O = I.load_layout_tables(chk)
        std = [O[(n, 4)] for n in ("flux_surface", "v_parallel", "poloidal")]
    except (AnalysisError, KeyError) as e:
        for k in (0, 1):
            chk.ob("N1-bounds-cover-layouts", fn, f"bound of process direction {k}", None,
                   f"the standard layout dictionaries could not be read from the set-up code ({e}): nothing to compare the bounds with", **kw)
        return
    fparams = _params(nf[FROM_MAX]) if FROM_MAX in nf else []
    gparams = _params(fn)
    # the search is found by its role (the calls of the search function, wherever they stand), the values the function hands back
    # are followed to those calls; anything else that is handed back is judged by result_of_search below
    calls = _search_calls(fn)
    b = None
    if calls and len(fparams) == 3 and len(gparams) >= 2:
        binds = [_bind(c_, fparams) for c_ in calls]
        if all(x is not None and len(x) == 3 for x in binds) and len({tuple(ast.dump(x[p_]) for p_ in fparams) for x in binds}) == 1:
            b = binds[0]
    call_st = _stmt_of(calls[0]) if calls else None
    if b is not None and (call_st is None or not any(k_ == "search" for k_, _e, _s in _result_sources(fn, calls))):
        b = None
    if b is None:
        for k in (0, 1):
            chk.ob("N1-bounds-cover-layouts", fn, f"bound of process direction {k}", None,
                   f"`return {FROM_MAX}(bound1, bound2, mpi_size)` not found at the end of {GRID}: the expressions that bound the "
                   "two process directions cannot be extracted", **kw)
        chk.ob("N1-bounds-cover-layouts", fn, f"return {FROM_MAX}(bound1, bound2, mpi_size)", None, "call not found", **kw)
        return
    npts, count = gparams[0], gparams[1]
    layout_params = set()
    for k in (0, 1):
        e = b[fparams[k]]
        dims = {o[k] for o in std}
        if isinstance(e, ast.Name):
            e2, adj = _resolve(fn, e)
            if e2 is not None and not adj:
                e = e2
        got = _dims_under(e, npts) if npts not in _written(fn) else None
        construct = f"{fparams[k]} = min(npts[d] for d distributed along process direction {k})"
        gen = _gen_bound(fn, tree, e, npts) if got is None and tree is not None and npts not in _written(fn) else None
        if gen is not None:
            # the minimum runs over a table of dimension orderings: one obligation per table the code can use
            pos, alts = gen
            for kind, what, text in alts:
                if kind == "param":
                    layout_params.add(what)
                    c2 = f"{fparams[k]} = min({npts}[o[{k}]] for the orderings o of the layouts handed in `{what}`)"
                    if pos == k:
                        chk.ob("N1-bounds-cover-layouts", e, c2, True,
                               f"the bound of process direction {k} is the smallest extent among the dimensions at position {k} of every layout "
                               f"the caller hands in: exactly the dimensions those layouts distribute along direction {k}", **kw)
                    else:
                        chk.ob("N1-bounds-cover-layouts", e, c2, False,
                               f"the bound of process direction {k} is the minimum over position {pos} of the orderings in `{what}` (`{src(e)[:80]}`), but "
                               f"a layout distributes the dimension at position {k} along process direction {k}: the extents of the dimensions "
                               "really distributed along that direction are not checked, a process can be left without points", **kw)
                    continue
                have = {r[pos or 0] for r in what if len(r) > (pos or 0)}
                if any(len(r) <= (pos or 0) for r in what):
                    chk.ob("N1-bounds-cover-layouts", e, construct, None, f"an ordering of `{text}` has no position {pos}", **kw)
                    continue
                ok = have == dims
                via = f"position {pos} of the orderings in `{text}`" if pos is not None else f"`{text}`"
                chk.ob("N1-bounds-cover-layouts", e, construct + (f" [table {text}]" if len(alts) > 1 else ""), ok,
                       f"the bound of process direction {k} is the smallest extent among the dimensions {sorted(dims)} ({via}) that the standard "
                       f"layouts distribute along it" if ok else f"{fparams[k]} is the minimum over dimensions {sorted(have)} ({via}) but the "
                       f"standard layouts distribute dimensions {sorted(dims)} along process direction {k}: a process can be left without "
                       "points of an unchecked dimension (or a valid grid refused)", **kw)
            continue
        if got is None:
            chk.ob("N1-bounds-cover-layouts", e, construct, None,
                   f"the bound `{src(e)[:80]}` is not a minimum over entries `{npts}[d]` with literal d: the dimensions it covers "
                   "cannot be extracted", **kw)
            continue
        fun, have = got
        if fun == "max" and len(have) > 1:
            chk.ob("N1-bounds-cover-layouts", e, construct, False,
                   f"the bound of process direction {k} is the LARGEST extent among dimensions {sorted(have)} (`{src(e)}`): a process "
                   "count between the smallest and the largest extent leaves processes without points of the smaller dimension", **kw)
            continue
        ok = have == dims
        chk.ob("N1-bounds-cover-layouts", e, construct, ok,
               f"the bound of process direction {k} is the smallest extent among the dimensions {sorted(dims)} that the standard layouts "
               f"distribute along it" if ok else f"{fparams[k]} is the minimum over dimensions {sorted(have)} but the "
               f"standard layouts distribute dimensions {sorted(dims)} along process direction {k}: a process can be left without "
               "points of an unchecked dimension (or a valid grid refused)", **kw)
    e = b[fparams[2]]
    changed = [n for n in ast.walk(fn) if (isinstance(n, ast.AugAssign) and isinstance(n.target, ast.Name) and n.target.id == count)
               or (isinstance(n, ast.Assign) and any(isinstance(t, ast.Name) and t.id == count for t in n.targets))]
    okr = isinstance(e, ast.Name) and e.id == count and not changed
    # the query of the communicator may have moved from the callers into this function: the second parameter is then the
    # communicator itself and the process count its size (the call sites are compared on the communicator they hand in)
    comm_param = False

    def size_of_param(x):
        return isinstance(x, ast.Call) and isinstance(x.func, ast.Attribute) and x.func.attr == "Get_size" and not x.args and not x.keywords \
            and isinstance(x.func.value, ast.Name) and x.func.value.id == count
    if not okr and not changed and count not in _written(fn):
        if size_of_param(e):
            comm_param, okr = True, True
        elif isinstance(e, ast.Name) and e.id != count:
            defs = _name_defs(fn, e.id)
            if len(defs) == 1 and defs[0][0] is not None and isinstance(defs[0][1], ast.Assign) and size_of_param(defs[0][0]):
                comm_param, okr = True, True
                count = e.id
    bad = None
    if isinstance(e, ast.Name) and e.id == count and changed:
        bad = (f"the process count is changed (`{src(changed[0])}`) before the search: the grid multiplies to the changed value, not to "
               "the number of processes of the communicator the caller lays it on")
    chk.pat("N1-bounds-cover-layouts", call_st, f"return {FROM_MAX}(bound1, bound2, mpi_size)", okr,
            "the two bounds and the unchanged process count are handed to the search, each to its own parameter", bad, **kw)
    result_of_search(chk, fn, nf.get(FROM_MAX), calls, npts, count, std, kw)
    return layout_params, comm_param


# ---------------------------------------------------------------------------------------------------------
# N1: call sites in setups.py
# ---------------------------------------------------------------------------------------------------------
def _defs(f, name):
    """(values assigned to the plain name in f (None for a destructuring assignment), augmented assignments)"""
    vals, augs = [], []
    for n in ast.walk(f):
        if isinstance(n, ast.Assign):
            for t in n.targets:
                if isinstance(t, ast.Name) and t.id == name:
                    vals.append(n.value)
                elif isinstance(t, (ast.Tuple, ast.List)) and any(isinstance(x, ast.Name) and x.id == name for x in ast.walk(t)):
                    vals.append(None)
        elif isinstance(n, ast.AugAssign) and isinstance(n.target, ast.Name) and n.target.id == name:
            augs.append(n)
        elif isinstance(n, (ast.For, ast.With)):
            tg = [n.target] if isinstance(n, ast.For) else [it.optional_vars for it in n.items if it.optional_vars is not None]
            if any(isinstance(x, ast.Name) and x.id == name for t in tg for x in ast.walk(t)):
                vals.append(None)
    return vals, augs


def _resolve(f, e, depth=0):
    """an expression, through names assigned exactly once -> (expression or None, [adjusting statements])"""
    adj = []
    while isinstance(e, ast.Name) and depth < 6:
        vals, augs = _defs(f, e.id)
        adj += augs
        if len(vals) == 1 and vals[0] is not None:
            e = vals[0]
            depth += 1
            continue
        if not vals:
            return e, adj            # a parameter / global
        return None, adj
    return e, adj


def _comm_of_size(e):
    """`X.Get_size()` under integer arithmetic -> (text of X, [arithmetic wrapped around it]); (None, _) otherwise"""
    arith = []
    while isinstance(e, ast.BinOp):
        l = any(isinstance(n, ast.Attribute) and n.attr == "Get_size" for n in ast.walk(e.left))
        r = any(isinstance(n, ast.Attribute) and n.attr == "Get_size" for n in ast.walk(e.right))
        if l == r:
            return None, arith
        arith.append(src(e))
        e = e.left if l else e.right
    if isinstance(e, ast.Call) and isinstance(e.func, ast.Attribute) and e.func.attr == "Get_size" and not e.args and not e.keywords:
        return src(e.func.value), arith
    return None, arith


def _is_subcomm(f, hc, cm):
    """is the communicator expression `hc` (possibly) a part of `cm` obtained by splitting?"""
    try:
        e = ast.parse(hc, mode="eval").body
    except SyntaxError:
        return False
    exprs = [e]
    if isinstance(e, ast.Name):
        vals, _ = _defs(f, e.id)
        exprs = [v for v in vals if v is not None]
    return any(isinstance(n, ast.Call) and isinstance(n.func, ast.Attribute) and n.func.attr in SUBCOMM_CALLS
               for x in exprs for n in ast.walk(x))


def _same_comm(f, hc, cm):
    if hc == cm:
        return True
    for a, b in ((hc, cm), (cm, hc)):
        if a.isidentifier():
            vals, augs = _defs(f, a)
            if len(vals) == 1 and vals[0] is not None and not augs and src(vals[0]) == b:
                return True
    return False


# ---------------------------------------------------------------------------------------------------------
# N1: the grid sizes handed to the search are the ones the layouts' grids are built from
# ---------------------------------------------------------------------------------------------------------
_READ_ONLY_CALLS = {"getattr", "hasattr", "dir", "isinstance", "callable", "type", "id", "print", "repr", "str", "len", "vars"}


def _stmt_of(node):
    p = node
    while p is not None and not isinstance(p, ast.stmt):
        p = parent(p)
    return p


def _order(f, x, y):
    """position of statement x relative to statement y in f: 'before' / 'after' / 'excl' (branches of one `if`) /
    'same' (one contains the other) / 'loop' (both inside one loop: either order occurs) / None (not found)"""
    cx, cy = _chain_to(f.body, x), _chain_to(f.body, y)
    if cx is None or cy is None:
        return None
    in_loop = False
    for lvl in range(min(len(cx), len(cy))):
        (bx, ix), (by, iy) = cx[lvl], cy[lvl]
        if bx is not by:
            holder = cx[lvl - 1][0][cx[lvl - 1][1]]
            if isinstance(holder, ast.If):
                return "excl"
            if isinstance(holder, (ast.For, ast.While)):
                return "loop" if in_loop else ("before" if bx is holder.body else "after")
            return None
        if ix != iy:
            return "loop" if in_loop else ("before" if ix < iy else "after")
        if isinstance(bx[ix], (ast.For, ast.While)):
            in_loop = True
    return "same"


def _changes_of(f, R):
    """statements of f that can change the object the local name R stands for:
    [(statement, description, attribute name or None for any, value expression or None, kind)]"""
    out = []
    for n in ast.walk(f):
        if isinstance(n, (ast.Assign, ast.AugAssign, ast.AnnAssign)):
            tgs = n.targets if isinstance(n, ast.Assign) else [n.target]
            for t in tgs:
                for x in ast.walk(t):
                    if isinstance(x, ast.Name) and x.id == R and isinstance(x.ctx, ast.Store):
                        out.append((n, f"`{src(n)[:70]}` binds `{R}` to another object", None, None, "rebind"))
                    elif isinstance(x, ast.Attribute) and isinstance(x.ctx, ast.Store) and isinstance(x.value, ast.Name) and x.value.id == R:
                        out.append((n, f"`{src(n)[:70]}` stores `{R}.{x.attr}`", x.attr, getattr(n, "value", None), "store"))
        elif isinstance(n, (ast.For, ast.With)):
            tg = [n.target] if isinstance(n, ast.For) else [it.optional_vars for it in n.items if it.optional_vars is not None]
            if any(isinstance(x, ast.Name) and x.id == R for t in tg for x in ast.walk(t)):
                out.append((n, f"`{src(n).splitlines()[0][:70]}` binds `{R}` to another object", None, None, "rebind"))
        elif isinstance(n, ast.Call):
            st = _stmt_of(n)
            fname = src(n.func)
            bare = [a for a in list(n.args) + [k.value for k in n.keywords] if isinstance(a, ast.Name) and a.id == R]
            if fname in ("setattr", "object.__setattr__") and len(n.args) == 3 and bare and n.args[0] in bare:
                a = n.args[1]
                attr = a.value if isinstance(a, ast.Constant) and isinstance(a.value, str) else None
                out.append((st, f"`{src(n)[:70]}` stores " + (f"`{R}.{attr}`" if attr else f"attributes of `{R}` by computed name"),
                            attr, n.args[2], "store"))
            elif fname == "delattr" and bare:
                out.append((st, f"`{src(n)[:70]}`", None, None, "call"))
            elif isinstance(n.func, ast.Attribute) and _root_name(n.func.value) == R and \
                    (n.func.attr in lints.MUTATING_METHODS or n.func.attr.startswith("__set")):
                out.append((st, f"`{src(n)[:70]}` changes `{R}` in place", None, None, "call"))
            elif bare and not (isinstance(n.func, ast.Name) and n.func.id in _READ_ONLY_CALLS):
                out.append((st, f"`{src(n)[:70]}` receives `{R}` and may change it", None, None, "call"))
    return [c for c in out if c[0] is not None]


def _slice_reads(f, exprs, R):
    """Load nodes of the name R in the backward slice (through plain local assignments) of the expressions"""
    seen, work, reads = set(), list(exprs), []
    while work:
        e = work.pop()
        for n in ast.walk(e):
            if isinstance(n, ast.Name) and isinstance(n.ctx, ast.Load):
                if n.id == R:
                    reads.append(n)
                elif n.id not in seen:
                    seen.add(n.id)
                    vals, _ = _defs(f, n.id)
                    work += [v for v in vals if v is not None]
    return reads


def _same_resolution(chk, f, c, label, sizes, eta_exprs, kw):
    """the attribute `R.A` read for the process grid has the value the grids of the layouts are computed from: no store
    into R between the two reads"""
    construct = f"{label}: the grid sizes read for {GRID} are the ones the layouts' grids are built from"
    rule = "N1-call-site"
    if not (isinstance(sizes, ast.Attribute) and isinstance(sizes.value, ast.Name)):
        return
    R, A = sizes.value.id, sizes.attr
    g_st = _stmt_of(sizes)
    reads = []
    for n in _slice_reads(f, eta_exprs, R):
        p = parent(n)
        if isinstance(p, ast.Attribute) and p.value is n:
            if p.attr == A:
                reads.append(p)
        else:
            reads.append(n)
    shared = [r for r in reads if r is sizes or _stmt_of(r) is g_st]
    reads = [r for r in reads if _stmt_of(r) is not None and _stmt_of(r) is not g_st]
    if g_st is not None and shared and not reads:
        chk.ob(rule, c, construct, True,
               f"the grids handed to getLayoutHandler are computed from the same read of `{R}.{A}` (line {g_st.lineno}) as the process grid", **kw)
        return
    if g_st is None or not reads:
        chk.ob(rule, c, construct, None,
               f"no read of `{R}.{A}` found among the statements that compute the grids handed to getLayoutHandler: the two uses of the "
               "grid sizes cannot be compared", **kw)
        return
    hard, soft = [], []
    for st, desc, attr, val, kind in _changes_of(f, R):
        if attr is not None and attr != A:
            continue
        for r in reads:
            r_st = _stmt_of(r)
            o1, o2 = _order(f, g_st, st), _order(f, st, r_st)
            if o1 in ("excl", None) or o2 in ("excl", None):
                continue
            between = (o1 == "before" and o2 == "before") or (o1 == "after" and o2 == "after")
            unsure = "loop" in (o1, o2) or "same" in (o1, o2)
            if not (between or unsure):
                continue
            first, second = (f"{GRID} (line {c.lineno})", f"`{src(r_st).splitlines()[0][:60]}` (line {r_st.lineno})") if o1 == "before" \
                else (f"`{src(r_st).splitlines()[0][:60]}` (line {r_st.lineno})", f"{GRID} (line {c.lineno})")
            keeps = val is not None and any(isinstance(x, ast.Attribute) and x.attr == A and isinstance(x.value, ast.Name) and x.value.id == R
                                            for x in ast.walk(val))
            if between and kind == "store" and not keeps:
                hard.append((st, desc, first, second))
            else:
                soft.append((st, desc))
            break
    if hard:
        st, desc, first, second = hard[0]
        chk.ob(rule, st, construct, False,
               f"{desc} (line {st.lineno}) between the two reads of `{R}.{A}`: {first} reads the value from before the store, {second} the "
               f"value after it. With `{A}` given by the caller the process grid is chosen for another resolution than the one the layouts "
               "are built with: a process can be left without points of a distributed dimension, or no error is raised although no grid fits", **kw)
        return
    if soft:
        st, desc = soft[0]
        chk.ob(rule, st, construct, None,
               f"{desc} (line {st.lineno}) possibly between the read of `{R}.{A}` for {GRID} and the read the layouts' grids are built from: "
               "cannot decide that both see the same value", **kw)
        return
    chk.ob(rule, c, construct, True,
           f"`{R}` is not changed between the read of `{R}.{A}` for {GRID} and the {len(reads)} read(s) the grids of the layouts are computed from", **kw)


def _pair_order(f, e, c, depth=0):
    """how the pair computed by the call `c` arrives in the expression `e`: (0, 1) in order, (1, 0) swapped, None not followed"""
    if depth > 6 or e is None:
        return None
    if e is c or (isinstance(e, ast.Call) and ast.dump(e) == ast.dump(c)):
        return (0, 1)
    if isinstance(e, ast.Call) and isinstance(e.func, ast.Name) and e.func.id in ("tuple", "list") and len(e.args) == 1 and not e.keywords:
        return _pair_order(f, e.args[0], c, depth + 1)
    if isinstance(e, ast.Name):
        defs = _name_defs(f, e.id)
        if len(defs) == 1 and defs[0][0] is not None and isinstance(defs[0][1], ast.Assign):
            return _pair_order(f, defs[0][0], c, depth + 1)
        return None
    if isinstance(e, ast.Subscript) and isinstance(e.slice, ast.Slice) and e.slice.lower is None and e.slice.upper is None \
            and isinstance(e.slice.step, ast.UnaryOp) and isinstance(e.slice.step.op, ast.USub) and _int_const(e.slice.step.operand) \
            and e.slice.step.operand.value == 1:
        o = _pair_order(f, e.value, c, depth + 1)
        return None if o is None else (o[1], o[0])
    if isinstance(e, (ast.Tuple, ast.List)) and len(e.elts) == 2:
        def elem(x, d):
            if d > 6:
                return None
            if isinstance(x, ast.Subscript) and _int_const(x.slice) and x.slice.value in (0, 1, -1, -2):
                o = _pair_order(f, x.value, c, d + 1)
                return None if o is None else o[x.slice.value % 2]
            if isinstance(x, ast.Name):
                defs = _name_defs(f, x.id)
                if len(defs) != 1 or not isinstance(defs[0][1], ast.Assign):
                    return None
                v, st = defs[0]
                if v is not None:
                    return elem(v, d + 1)
                tg = st.targets[0] if len(st.targets) == 1 else None
                if isinstance(tg, (ast.Tuple, ast.List)) and len(tg.elts) == 2 and all(isinstance(t, ast.Name) for t in tg.elts):
                    o = _pair_order(f, st.value, c, d + 1)
                    names = [t.id for t in tg.elts]
                    return None if o is None or names[0] == names[1] else o[names.index(x.id)]
            return None
        i0, i1 = elem(e.elts[0], depth + 1), elem(e.elts[1], depth + 1)
        return (i0, i1) if {i0, i1} == {0, 1} else None
    return None


def _sizes_base(f, e):
    """the object whose entries `X[d]` (literal d) the expression reads, when there is exactly one -> (expression X, copy of e with
    the reads written `_npts_[d]`); names assigned once are followed"""
    e2, adj = _resolve(f, e)
    if e2 is None or adj:
        return None
    bases = {}

    class T(ast.NodeTransformer):
        def visit_Subscript(self, n):
            if _int_const(n.slice) or (isinstance(n.slice, ast.UnaryOp) and isinstance(n.slice.op, ast.USub) and _int_const(n.slice.operand)):
                v, a2 = _resolve(f, n.value) if isinstance(n.value, ast.Name) else (n.value, [])
                if v is not None and not a2 and isinstance(v, (ast.Name, ast.Attribute)):
                    bases[src(v)] = v
                    return ast.copy_location(ast.Subscript(value=ast.Name(id="_npts_", ctx=ast.Load()), slice=n.slice, ctx=ast.Load()), n)
            return self.generic_visit(n)

        def visit_Name(self, n):
            v, a2 = _resolve(f, n)
            if v is not None and v is not n and not a2 and not isinstance(v, ast.Name):
                return self.visit(copy.deepcopy(v))
            return n
    orig = e2
    e3 = T().visit(copy.deepcopy(e2))
    if len(bases) != 1:
        return None
    # the node of the function itself (with its position) rather than the one of the copy
    want = next(iter(bases))
    seen, work = set(), [orig]
    while work:
        x = work.pop()
        for n in ast.walk(x):
            if isinstance(n, (ast.Name, ast.Attribute)) and src(n) == want and isinstance(parent(n), ast.Subscript):
                return n, e3
            if isinstance(n, ast.Name) and n.id not in seen:
                seen.add(n.id)
                v, a2 = _resolve(f, n)
                if v is not None and v is not n and not a2:
                    if isinstance(v, (ast.Name, ast.Attribute)) and src(v) == want:
                        return v, e3
                    work.append(v)
    return next(iter(bases.values())), e3


def _direct_site(chk, f, c, label, fparams, hparams, std, comm_param=False):
    """the set-up function computes the two bounds itself and calls the search: the bounds are compared with the standard layouts
    here, the rest of the call site is judged as for the two-step form"""
    kw = dict(file=U.SETUPS, func=getattr(f, "_qual", f.name))
    b = _bind(c, fparams) if len(fparams) == 3 else None
    if b is None or len(b) != 3:
        chk.ob("N1-call-site", c, f"{label}: {FROM_MAX}(bound1, bound2, <layout communicator>.Get_size())", None,
               "the two bounds and the process count are not all passed", **kw)
        return
    base = None
    for k in (0, 1):
        dims = {o[k] for o in std}
        construct = f"{label}: {fparams[k]} = min(npts[d] for d distributed along process direction {k})"
        got = _sizes_base(f, b[fparams[k]])
        d = _dims_under(got[1], "_npts_") if got else None
        if d is None:
            chk.ob("N1-bounds-cover-layouts", c, construct, None,
                   f"the bound `{src(b[fparams[k]])[:80]}` is not followed to a minimum over entries of the grid sizes", **kw)
            continue
        if base is not None and src(base) != src(got[0]):
            chk.ob("N1-bounds-cover-layouts", c, construct, None, f"the two bounds read different objects (`{src(base)}` / `{src(got[0])}`)", **kw)
            continue
        base = got[0]
        fun, have = d
        if fun == "max" and len(have) > 1:
            chk.ob("N1-bounds-cover-layouts", c, construct, False,
                   f"the bound of process direction {k} is the LARGEST extent among dimensions {sorted(have)} (`{src(b[fparams[k]])[:80]}`): a process "
                   "count between the smallest and the largest extent leaves processes without points of the smaller dimension", **kw)
            continue
        ok = have == dims
        chk.ob("N1-bounds-cover-layouts", c, construct, ok,
               f"the bound of process direction {k} is the smallest extent among the dimensions {sorted(dims)} that the standard layouts "
               f"distribute along it" if ok else f"the bound handed to `{fparams[k]}` is the minimum over dimensions {sorted(have)} but the "
               f"standard layouts distribute dimensions {sorted(dims)} along process direction {k}: a process can be left without "
               "points of an unchecked dimension (or a valid grid refused)", **kw)
    if base is None:
        return
    _site(chk, f, c, label, [], hparams, comm_param=comm_param, bound=({"npts": base, "mpi_size": b[fparams[2]]}, ["npts", "mpi_size"]))


def _site(chk, f, c, label, gparams, hparams, via_helper=False, layout_params=(), comm_param=False, bound=None):
    kw = dict(file=U.SETUPS, func=getattr(f, "_qual", f.name))
    construct = f"{label}: {GRID}(constants.npts, <layout communicator>.Get_size()) -> getLayoutHandler"
    good = "the grid sizes and the size of the communicator the layouts are built on; the result is the handler's process grid"

    def undecided(why):
        chk.ob("N1-call-site", c, construct, None, why, **kw)

    if any(isinstance(a, ast.Starred) for a in c.args) or any(k.arg is None for k in c.keywords):
        return undecided("starred arguments: the process count cannot be extracted")
    b = _bind(c, gparams) if gparams else None
    if bound is not None:
        b, gparams = bound
    if b is None:
        # more arguments than the function declares / unknown keywords: bind the first two by position or name
        b = {}
        for p, a in zip(("npts", "mpi_size"), c.args):
            b[p] = a
        for k in c.keywords:
            b.setdefault(k.arg, k.value)
        gparams = list(b)
    if len(gparams) < 2 or gparams[0] not in b or gparams[1] not in b:
        return undecided("the grid sizes and the process count are not both passed")
    extra = [f"{p}={src(b[p])}" for p in b if p not in gparams[:2] and p not in layout_params]
    own_layouts = [b[p] for p in b if p not in gparams[:2] and p in layout_params]
    handlers = [h for h in ast.walk(f) if isinstance(h, ast.Call) and isinstance(h.func, ast.Name) and h.func.id == "getLayoutHandler"]
    hb = [_bind(h, hparams) for h in handlers]
    if not handlers or any(x is None or "comm" not in x or "nprocs" not in x for x in hb):
        return undecided(f"no getLayoutHandler(comm, layouts, nprocs, eta_grids) call in {f.name} to compare the communicator with")
    pairs = {(src(x["comm"]), src(x["nprocs"])) for x in hb}
    if len(pairs) != 1:
        return undecided(f"layout handlers are built on several communicator/grid pairs {sorted(pairs)}")
    hc, hn = next(iter(pairs))
    size, adj = _resolve(f, b[gparams[1]])
    if comm_param:
        # the callee takes the size of the communicator it is given (see bounds_vs_layouts): the argument is the communicator
        a_ = b[gparams[1]]
        cm, arith = (src(a_) if isinstance(a_, (ast.Name, ast.Attribute)) else None), []
        adj = []
    else:
        cm, arith = _comm_of_size(size) if size is not None else (None, [])
    adjusted = [src(a) for a in adj] + arith + extra
    if cm is None:
        return undecided(f"the process count `{src(b[gparams[1]])}` is not read as `<communicator>.Get_size()`")
    same = _same_comm(f, hc, cm)
    if not same and _is_subcomm(f, hc, cm):
        through = f" (adjusted through {adjusted})" if adjusted else ""
        chk.ob("N1-call-site", c, construct, False,
               f"the process count is the size of `{cm}`{through} but the layouts are built on `{hc}`, a part of a split communicator: "
               "on a rank where the two differ (the plot-only rank) the grid does not multiply to the size of the communicator it is "
               "laid on, and the cartesian topology cannot be created", **kw)
        return
    if not same:
        return undecided(f"the process count is the size of `{cm}`, the layouts are built on `{hc}`: cannot decide that the two are "
                         "the same communicator")
    if adjusted:
        return undecided(f"the size of `{cm}` is adjusted ({adjusted}) before it is used as process count")
    for a in own_layouts:
        # the search takes its bounds from the layouts it is given: they must be the ones the handler is built with
        hl = {src(x[hparams[1]]) for x in hb if len(hparams) > 1 and hparams[1] in x}
        vals, augs = _defs(f, a.id) if isinstance(a, ast.Name) else ([], [])
        ra, _adj = _resolve(f, a)
        rh = [_resolve(f, x[hparams[1]])[0] for x in hb if len(hparams) > 1 and hparams[1] in x]
        rows_a, rows_h = _int_rows(ra) if isinstance(ra, ast.Dict) else None, [_int_rows(x) if isinstance(x, ast.Dict) else None for x in rh]
        if hl != {src(a)} and rows_a and rh and all(rows_h) and all(len(r) >= 2 for rr in [rows_a] + rows_h for r in rr):
            da = [{r[k] for r in rows_a} for k in (0, 1)]
            dh = [{r[k] for rr in rows_h for r in rr} for k in (0, 1)]
            if da != dh:
                chk.ob("N1-call-site", c, construct, False,
                       f"{GRID} takes its bounds from the layouts `{src(ra)[:80]}` (dimensions {sorted(da[0])} / {sorted(da[1])} along the two process "
                       f"directions) but getLayoutHandler is built with `{src(rh[0])[:80]}` (dimensions {sorted(dh[0])} / {sorted(dh[1])}): the extents "
                       "of the dimensions really distributed are not the ones the grid was checked against", **kw)
                return
            continue
        if hl != {src(a)} or (isinstance(a, ast.Name) and (len(vals) > 1 or augs or None in vals)):
            return undecided(f"the layouts handed to {GRID} (`{src(a)[:60]}`) are not recognised as the dictionary handed to "
                             f"getLayoutHandler ({sorted(hl)}), assigned once")
        muts = [(st, d) for st, d, _a, _v, kind in _changes_of(f, a.id) if kind != "rebind"
                and not (isinstance(st, ast.Assign) and any(x is c for x in ast.walk(st)))
                and not any(isinstance(x, ast.Call) and isinstance(x.func, ast.Name) and x.func.id == "getLayoutHandler" for x in ast.walk(st))] \
            if isinstance(a, ast.Name) else []
        if muts:
            return undecided(f"{muts[0][1]} (line {muts[0][0].lineno}): cannot decide that {GRID} and getLayoutHandler see the same layouts")
    grid_sizes, gadj = _resolve(f, b[gparams[0]])
    is_param = via_helper and isinstance(grid_sizes, ast.Name) and grid_sizes.id in _params(f) and not gadj
    if not is_param and (grid_sizes is None or gadj or src(grid_sizes) != "constants.npts"):
        return undecided(f"the grid sizes `{src(b[gparams[0]])}` are not recognised as `constants.npts`")
    tgt = parent(c)
    if not (isinstance(tgt, ast.Assign) and len(tgt.targets) == 1 and src(tgt.targets[0]) == hn):
        # the pair may reach the handler through other names: unpacked and packed again, indexed, converted
        order = _pair_order(f, hb[0]["nprocs"], c)
        if order == (1, 0):
            chk.ob("N1-call-site", handlers[0], construct, False,
                   f"the process grid handed to getLayoutHandler, `{hn}`, holds the two extents computed by {GRID} in swapped order: the "
                   "extent checked against the dimensions distributed along process direction 0 is laid on direction 1 and the other way "
                   "round, so a process can be left without points of a distributed dimension", **kw)
            return
        if order != (0, 1):
            return undecided(f"the result of {GRID} is not the value `{hn}` handed to getLayoutHandler as process grid")
    # the error of the search must reach the caller of the set-up function: a handler around the call that goes on with a grid of
    # its own builds the layouts on a grid nobody checked
    for t in [n for n in ast.walk(f) if isinstance(n, ast.Try) and any(x is c for st in n.body for x in ast.walk(st))]:
        for h in t.handlers:
            catches = _catches(h, {"RuntimeError"})
            if catches is False or _always_raises(h.body):
                continue
            hd = f"`except {src(h.type)}`" if h.type is not None else "`except`"
            own = [st for st in _preorder(h.body) if isinstance(st, ast.Assign) and any(src(t_) == hn for t_ in st.targets)]
            stops = [n for n in ast.walk(h) if isinstance(n, ast.Call) and src(n.func).split(".")[-1] in ("exit", "_exit", "Abort", "abort")]
            if own and catches and not stops:
                chk.ob("N1-call-site", own[0], construct, False,
                       f"{hd} (line {h.lineno}) around {GRID} catches the error raised when no valid process grid exists and goes on with "
                       f"`{src(own[0])[:70]}`: getLayoutHandler is then built on a grid that was not checked against the numbers of points, "
                       "instead of the error the property requires", **kw)
            else:
                undecided(f"{hd} (line {h.lineno}) around {GRID} may keep the error raised when no valid grid exists from the caller")
            return
    chk.ob("N1-call-site", c, construct, True, good, **kw)
    if not is_param:
        eta = [x[p] for x in hb for p in hparams[3:4] if p in x]
        _same_resolution(chk, f, c, label, grid_sizes, eta, kw)


def call_sites(chk, layout_params=(), comm_param=False):
    smod = chk.mod(U.SETUPS)
    pmod = chk.mod(U.PROCGRID)
    gparams = _params(pmod.func(GRID)) if pmod.has(GRID) else []
    hparams = ["comm", "layouts", "nprocs", "eta_grids"]
    try:
        lmod = chk.mod(U.LAYOUT)
        if lmod.has("getLayoutHandler"):
            hparams = _params(lmod.func("getLayoutHandler"))
    except AnalysisError:
        pass
    funcs = [st for st in smod.tree.body if isinstance(st, ast.FunctionDef)]
    fparams = _params(pmod.func(FROM_MAX)) if pmod.has(FROM_MAX) else []
    try:
        O = I.load_layout_tables(chk)
        std = [O[(n, 4)] for n in ("flux_surface", "v_parallel", "poloidal")]
    except (AnalysisError, KeyError):
        std = None

    def grid_calls(g):
        return [c for c in ast.walk(g) if isinstance(c, ast.Call) and isinstance(c.func, ast.Name) and c.func.id == GRID]
    for q in ("setupCylindricalGrid", "setupFromFile"):
        f = chk.func(U.SETUPS, q)
        calls = grid_calls(f)
        if calls:
            for c in calls:
                _site(chk, f, c, q, gparams, hparams, layout_params=layout_params, comm_param=comm_param)
            continue
        called = {c.func.id for c in ast.walk(f) if isinstance(c, ast.Call) and isinstance(c.func, ast.Name)}
        helpers = [g for g in funcs if g is not f and g.name in called and grid_calls(g)]
        direct = [c for c in ast.walk(f) if isinstance(c, ast.Call) and isinstance(c.func, ast.Name) and c.func.id == FROM_MAX]
        if not helpers and direct and std is not None:
            # the bounds are computed by the caller, which calls the search itself
            for c in direct:
                _direct_site(chk, f, c, q, fparams, hparams, std, comm_param=False)
            continue
        if not helpers:
            chk.ob("N1-call-site", f, f"{q}: {GRID}(constants.npts, <layout communicator>.Get_size()) -> getLayoutHandler", None,
                   f"no call of {GRID} in {q} or in a function of setups.py it calls", file=U.SETUPS, func=q)
            continue
        for g in helpers:
            chk.func(U.SETUPS, g.name)
            for c in grid_calls(g):
                # inside a helper the grid sizes arrive as a parameter: only the communicator and the use of the result are decided
                _site(chk, g, c, q, gparams, hparams, via_helper=True, layout_params=layout_params, comm_param=comm_param)


# ---------------------------------------------------------------------------------------------------------
# N4: the answer is a function of the arguments alone
# ---------------------------------------------------------------------------------------------------------
_TABLE_CALLS = {"dict", "list", "set", "defaultdict", "OrderedDict", "deque", "Counter"}


def pure_search(chk, tree, fn):
    kw = dict(file=U.PROCGRID)
    if not lints.memo_selftest():
        raise AnalysisError("C20: the memoised-result lint no longer recognises its own positive example")
    memo, muts = lints.memoised_result_mutations(tree)
    for f_, node, desc in muts:
        chk.ob("N4-pure-search", node, f"memoised table changed in {f_.name}", False,
               desc + ": the cache hands the same object to every later call, so the next call with the same process count starts "
               "from the changed table and can refuse a grid that exists (or return another one)", func=f_.name, **kw)
    # module-level tables (hand-written memoisation): filling is fine, changing a stored object in place is not
    tables = set()
    for st in tree.body:
        tg, val = ([t for t in st.targets], st.value) if isinstance(st, ast.Assign) else \
            ([st.target], st.value) if isinstance(st, ast.AnnAssign) and st.value is not None else ([], None)
        if isinstance(val, (ast.Dict, ast.List, ast.Set, ast.ListComp, ast.DictComp, ast.SetComp)) or \
                (isinstance(val, ast.Call) and src(val.func).split(".")[-1] in _TABLE_CALLS):
            tables |= {t.id for t in tg if isinstance(t, ast.Name)}
    nstate = nviol = 0
    if tables:
        for f_ in [n for n in ast.walk(tree) if isinstance(n, ast.FunctionDef)]:
            for node, desc in lints.shared_state_mutations(f_, lambda s_: s_ in tables):
                recv = node.func.value if isinstance(node, ast.Call) and isinstance(node.func, ast.Attribute) else \
                    node.target if isinstance(node, ast.AugAssign) else \
                    next((t.value for t in getattr(node, "targets", []) if isinstance(t, ast.Subscript)), None)
                if isinstance(recv, ast.Subscript) and isinstance(node, ast.AugAssign):
                    recv = recv.value
                direct = isinstance(recv, ast.Name) and recv.id in tables
                fill = direct and (isinstance(node, ast.Assign) or (isinstance(node, ast.Call) and node.func.attr in ("setdefault", "update")))
                if fill:
                    continue
                nstate += 1
                nviol += not direct
                chk.ob("N4-pure-search", node, f"module-level table changed in {f_.name}", None if direct else False,
                       desc.replace("the stored", "the module-level table") + (
                           ": a call changes module-level state; cannot decide that a later call does not read it" if direct else
                           ": the object is kept in a module-level table, so a later call reads the changed object and its answer "
                           "depends on the calls made before"), func=f_.name, **kw)
    chk.ob("N4-pure-search", fn, "no call changes state that a later call reads", True if not muts and not nstate else False if muts or nviol else None,
           f"memoised helpers: {sorted(memo) or 'none'}; module-level tables: {sorted(tables) or 'none'}; no in-place change of a "
           "memoised or stored result" if not muts and not nstate else "see the in-place changes reported above",
           func=FROM_MAX, nontrivial=False, **kw)
    glob = [n for n in ast.walk(tree) if isinstance(n, (ast.Global, ast.Nonlocal))]
    chk.ob("N4-pure-search", glob[0] if glob else fn, "no global/nonlocal state in process_grid.py", not glob,
           "the search functions declare no global or nonlocal variable" if not glob else
           f"`{src(glob[0])}`: the result of a call can depend on earlier calls", func=FROM_MAX, nontrivial=False, **kw)


# ---------------------------------------------------------------------------------------------------------
# N2 / N3: the search in compute_2d_process_grid_from_max
# ---------------------------------------------------------------------------------------------------------
def _first_loop(fn, P1, P2, M, r1, r2):
    """the feasibility loop and its parts -> dict (status per clause) ; names are the returned pair (r1, r2)"""
    out = {"w1": None, "guard": (None, "the loop that looks for the first admissible divisor (the top-level `while` holding the "
                                 "`raise`) was not found"), "fact": (None, "first search loop not found"), "scan": None}
    tops = [n for n in fn.body if isinstance(n, ast.While)]
    cands = [w for w in tops if any(isinstance(n, ast.Raise) for n in ast.walk(w))]
    if len(cands) != 1:
        cands = [w for w in tops if _cmp(w.test, {r2}) is not None and _cmp(w.test, {r2})[1] == "gt"]
        if len(cands) != 1:
            return out
    w1 = out["w1"] = cands[0]
    scans = _scans_in(w1.body, M)
    if len(scans) != 1:
        why = f"{len(scans)} divisor scans `while v <= B and {M} % v != 0: v += 1` in the first search loop (one expected)"
        out["guard"] = out["fact"] = (None, why)
        return out
    blk, k, sc = scans[0]
    out["scan"] = sc
    v = sc["var"]
    al, j = _aliases_after(blk, k, v)
    B = _bound_text(sc["base"], sc["k"])
    # ---- failure guard: judged against the bound of the specification, min(process count, bound of direction 0).  The scan may
    # run further than that bound (the test still sorts every value correctly) but not stop short of it.
    true_base = _canon(ast.parse(f"min({M}, {P1})", mode="eval").body)
    T = f"min({M}, {P1})"
    nxt = blk[j] if j < len(blk) else None
    if isinstance(nxt, ast.If) and not nxt.orelse and any(isinstance(x, ast.Raise) for x in nxt.body):
        f = _cmp(nxt.test, al)
        if any(_is_nondiv(nxt.test, a, M) for a in al):
            out["guard"] = (False, f"after `while {src(sc['loop'].test)}` the failure test is `{src(nxt.test)}`, not the exceeded bound "
                                   f"`{v} > {T}`: a value that stepped past the bound onto a divisor is returned as a valid grid (a process "
                                   "gets no point of a distributed dimension)")
        elif f and f[1] == "le":
            out["guard"] = (False, f"the error is raised when `{src(nxt.test)}`, i.e. when the scan FOUND a value within the bound, and "
                                   "not when it ran past it")
        elif f and f[1] == "gt" and f[2] == true_base and f[3] != 0:
            out["guard"] = (False, f"the error is raised when `{f[0]} > {_bound_text(T, f[3])}` instead of `{f[0]} > {T}`: " +
                                   (f"values up to {_bound_text(T, f[3])} pass although they exceed the bound (a process gets no point of a "
                                    "distributed dimension)" if f[3] > 0 else
                                    "an admissible divisor equal to the bound is refused although a valid grid exists"))
        elif f and f[1] == "gt" and f[2] == true_base and sc["base"] == true_base and sc["k"] < 0:
            out["guard"] = (False, f"the scan stops at `{v} = {_bound_text(T, sc['k'] + 1)}` whether or not that value divides `{M}`, and the "
                                   f"failure test `{src(nxt.test)}` lets it pass: a non-divisor within the bound is taken as first extent, the "
                                   "grid does not multiply to the process count")
        elif f and f[1] == "gt" and f[2] == true_base and sc["base"] == true_base:
            out["guard"] = (True, f"the scan stops at the first divisor or beyond {B}; the error is raised exactly when the value found exceeds "
                                  f"{T}, so a value that passes is a divisor within the bound")
        else:
            out["guard"] = (None, f"the failure test `{src(nxt.test)[:80]}` / the scan bound `{B}` are not comparisons of the scanned value "
                                  f"with `{T}`: cannot decide that the error is raised exactly when that bound is exceeded")
    else:
        out["guard"] = (None, "the statement after the divisor scan is not `if <scanned value> > <bound>: raise`")
    # ---- factorisation
    start = _scan_start(blk, k, v)
    asg = [n for n in blk[j:] if isinstance(n, ast.Assign) and len(n.targets) == 1 and isinstance(n.targets[0], ast.Name)
           and n.targets[0].id == r2]
    test = _cmp(w1.test, {r2})
    init = {}
    for st in fn.body[:fn.body.index(w1)]:
        if isinstance(st, ast.Assign) and len(st.targets) == 1 and isinstance(st.targets[0], ast.Name) and st.targets[0].id in (r1, r2):
            init[st.targets[0].id] = st.value
            continue
        for n in ast.walk(st):
            if isinstance(n, ast.Name) and isinstance(n.ctx, ast.Store) and n.id in (r1, r2):
                init[n.id] = None
    why = None
    verdict = None
    if len(asg) != 1 or blk is not w1.body:
        why = f"no single assignment `{r2} = {M} // <divisor>` after the scan in the first search loop"
    else:
        e = asg[0].value
        if isinstance(e, ast.BinOp) and isinstance(e.left, ast.Name) and e.left.id == M and isinstance(e.right, ast.Name) and e.right.id in al:
            if isinstance(e.op, ast.Div):
                verdict, why = False, (f"`{src(asg[0])}` is a true division: the second extent becomes a float, which is no valid number of "
                                       "processes for the cartesian topology")
            elif not isinstance(e.op, ast.FloorDiv):
                why = f"`{src(asg[0])}` is not the quotient `{M} // {e.right.id}`"
        else:
            why = f"`{src(asg[0])}` is not the quotient of {M} by the scanned divisor ({sorted(al)})"
        if why is None and r1 not in al:
            why = f"the scanned divisor ({sorted(al)}) is not stored in the returned first extent `{r1}`"
        if why is None and start != (r1, 1):
            why = (f"the scan does not start at `{r1} + 1`" + (f" but at `{start[0]} + {start[1]}`" if start else "") +
                   ": cannot decide that every divisor is visited once, in increasing order")
    if why is None:
        if not (test and test[1] == "gt" and test[2] == P2):
            why = f"the loop test `{src(w1.test)}` is not a comparison of `{r2}` with its bound `{P2}`"
        elif test[3] != 0:
            verdict = False
            why = (f"the first search loop runs while `{src(w1.test)}` instead of `{r2} > {P2}`: " +
                   ("a second extent equal to its bound is admissible but is skipped (a valid grid can be refused)" if test[3] < 0 else
                    f"it stops while the second extent still exceeds the bound `{P2}` (a process gets no point)"))
    if why is None:
        i1, i2 = init.get(r1), init.get(r2)
        if not (i1 is not None and _int_const(i1) and i1.value == 1 and isinstance(i2, ast.Name) and i2.id == M):
            why = f"the search does not start from `{r1} = 1`, `{r2} = {M}`"
    if why is None:
        out["fact"] = (True, "the second extent is the exact quotient by a divisor found by the scan: the grid multiplies to the process "
                             "count; the search continues while the second extent exceeds its bound")
    else:
        out["fact"] = (verdict, why)
    return out


def _above_current(fn, w2, a, r1, target):
    """is `a >= r1 + 1` known to hold when `target` (a statement of the loop w2) is reached?  One-bit abstract walk over the paths
    of the loop body: the relation is established by `a = r1 + c` (c >= 1), kept by `a += c` (c >= 0), lost by any other store of
    `a` or `r1`; it holds at the head of the loop when it holds on entry and on every back edge."""
    def plus(e):
        if isinstance(e, ast.BinOp) and isinstance(e.op, ast.Add):
            for x, y in ((e.left, e.right), (e.right, e.left)):
                if isinstance(x, ast.Name) and x.id == r1 and _int_const(y) and y.value >= 1:
                    return True
        return False

    def step(st, state):
        """state after a simple statement"""
        if isinstance(st, ast.Assign) and len(st.targets) == 1 and isinstance(st.targets[0], ast.Name):
            if st.targets[0].id == a:
                return plus(st.value)
            if st.targets[0].id == r1:
                return False
            return state
        if isinstance(st, ast.AugAssign) and isinstance(st.target, ast.Name) and st.target.id in (a, r1):
            up = isinstance(st.op, ast.Add) and _int_const(st.value) and st.value.value >= 0
            down = isinstance(st.op, ast.Sub) and _int_const(st.value) and st.value.value >= 0
            return state and (up if st.target.id == a else down)
        if any(isinstance(n, ast.Name) and isinstance(n.ctx, (ast.Store, ast.Del)) and n.id in (a, r1) for n in ast.walk(st)):
            return False
        return state

    def run(head):
        seen = {"target": None, "back": []}

        def walk(blk, state):
            """state at the end of the block, None when every path left it"""
            for st in blk:
                if st is target:
                    seen["target"] = state if seen["target"] is None else (seen["target"] and state)
                if isinstance(st, ast.If):
                    s1, s2 = walk(st.body, state), walk(st.orelse, state)
                    if s1 is None and s2 is None:
                        return None
                    state = all(x for x in (s1, s2) if x is not None)
                elif isinstance(st, (ast.Break, ast.Return, ast.Raise)):
                    return None
                elif isinstance(st, ast.Continue):
                    seen["back"].append(state)
                    return None
                elif isinstance(st, (ast.While, ast.For, ast.With, ast.Try)):
                    if any(x is target for x in ast.walk(st)):
                        seen["target"] = False           # not followed into nested statements
                    inner = [x for x in _preorder([st])[1:]]
                    for x in inner:
                        if isinstance(x, (ast.If, ast.While, ast.For, ast.With, ast.Try, ast.Break, ast.Continue, ast.Return, ast.Raise)):
                            continue
                        state = step(x, state) and state
                    if _own_stores(st) & {a, r1}:
                        state = False
                else:
                    state = step(st, state)
            return state
        end = walk(w2.body, head)
        if end is not None:
            seen["back"].append(end)
        return seen
    # on entry: the last top-level store of `a` before the loop is `a = r1 + c`, and `r1` is not stored after it
    entry = False
    if w2 in fn.body:
        state = False
        for st in fn.body[:fn.body.index(w2)]:
            if isinstance(st, (ast.If, ast.While, ast.For, ast.With, ast.Try)):
                if any(isinstance(n, ast.Name) and isinstance(n.ctx, (ast.Store, ast.Del)) and n.id in (a, r1) for n in ast.walk(st)):
                    state = False
            else:
                state = step(st, state)
        entry = state
    if isinstance(w2, ast.For) and _own_stores(w2) & {a, r1}:
        return False
    if entry:
        seen = run(True)
        if all(seen["back"]):
            return bool(seen["target"])
    return bool(run(False)["target"])


def _second_loop(fn, w1, P1, P2, M, r1, r2, ctx=None, env=None, first_ok=False):
    """the refinement loop -> dict: w2, step=(verdict, why), cand=(a, b) names of the accepted candidate, mono: bool"""
    out = {"w2": None, "step": (None, "the refinement loop (the top-level `while` after the first search that stores the returned "
                                "extents) was not found"), "cand": None, "mono": False}
    tops = [n for n in fn.body if isinstance(n, (ast.While, ast.For) if ctx is not None else ast.While) and n is not w1
            and any(isinstance(x, ast.Name) and isinstance(x.ctx, ast.Store) and x.id in (r1, r2) for x in ast.walk(n))]
    if w1 is not None:
        tops = [n for n in tops if fn.body.index(n) > fn.body.index(w1)]
    if len(tops) != 1:
        return out
    w2 = out["w2"] = tops[0]
    # acceptance blocks: where the returned extents are replaced
    acc = []
    for blk in [w2.body] + [b for b in _blocks_of(w2) if b is not w2.body]:
        st1 = [s for s in blk if isinstance(s, ast.Assign) and len(s.targets) == 1 and isinstance(s.targets[0], ast.Name) and s.targets[0].id == r1]
        st2 = [s for s in blk if isinstance(s, ast.Assign) and len(s.targets) == 1 and isinstance(s.targets[0], ast.Name) and s.targets[0].id == r2]
        if st1 or st2:
            acc.append((blk, st1, st2))
    table = None
    if isinstance(w2, ast.For):
        lt = _loop_target(w2, env or {}, M)
        if lt is None:
            out["step"] = (None, f"the sequence `{src(w2.iter)[:80]}` the refinement loop runs over is not a recognised table of divisors")
            return out
        table = lt
    other = [n for n in ast.walk(w2) if isinstance(n, (ast.AugAssign, ast.For)) and _own_stores(n) & {r1, r2}]
    if other or not acc:
        out["step"] = (None, f"the returned extents are changed by `{src(other[0])[:60]}`" if other else "no assignment of the returned extents")
        return out
    for blk, st1, st2 in acc:
        if len(st1) != len(st2):
            lone = (st1 or st2)[0]
            out["step"] = (False, f"`{src(lone)}` replaces one extent of the grid without the other in the same branch: the pair no longer "
                                  f"multiplies to the process count `{M}`")
            return out
    if len(acc) != 1 or len(acc[0][1]) != 1:
        out["step"] = (None, "the returned extents are replaced at several places of the refinement loop")
        return out
    blk, (s1,), (s2,) = acc[0]
    if not isinstance(s1.value, ast.Name):
        out["step"] = (None, f"`{src(s1)}`: the accepted first extent is not a plain candidate variable")
        return out
    a = s1.value.id
    first = s1 if blk.index(s1) < blk.index(s2) else s2
    facts, order, pos = _path_facts(w2, first)
    if facts is None:
        out["step"] = (None, "the acceptance lies inside a nested loop")
        return out
    here = pos[id(first)]
    live = _live_before(w2.body, first)
    # the second extent of the candidate
    b = None
    e = s2.value
    if isinstance(e, ast.Name):
        b = e.id
        chain_blocks = [c[0] for c in _chain_to(w2.body, first)]
        defs = [s for s in order[:here] if isinstance(s, ast.Assign) and len(s.targets) == 1 and isinstance(s.targets[0], ast.Name)
                and s.targets[0].id == b]
        d = defs[-1] if defs else None
        if d is None or not any(d in cb for cb in chain_blocks) or _stored_between(order, pos[id(d)], here, {a, b}, live):
            out["step"] = (None, f"the definition of the candidate's second extent `{b}` that reaches the acceptance was not found")
            return out
        e = d.value
    if not (isinstance(e, ast.BinOp) and isinstance(e.left, ast.Name) and e.left.id == M and isinstance(e.right, ast.Name) and e.right.id == a):
        out["step"] = (None, f"the accepted second extent `{src(e)}` is not the quotient `{M} // {a}`")
        return out
    if isinstance(e.op, ast.Div):
        out["step"] = (False, f"the candidate's second extent `{src(e)}` is a true division: a float is returned as number of processes")
        return out
    if not isinstance(e.op, ast.FloorDiv):
        out["step"] = (None, f"the accepted second extent `{src(e)}` is not the quotient `{M} // {a}`")
        return out
    out["cand"] = (a, b)
    # bounds known at the acceptance
    want1 = _canon(ast.parse(f"min({M}, {P1})", mode="eval").body)
    got1 = got2 = None
    for p, t, taken in facts:
        for t2, tk in _facts(t, taken):
            f = _cmp(t2, {a} | ({b} if b else set()), tk)
            if not f or f[1] != "le" or _stored_between(order, p, here, {f[0]}, live):
                continue
            if f[0] == a and f[2] == want1:
                got1 = f if got1 is None or f[3] < got1[3] else got1
            if b and f[0] == b and f[2] == P2:
                got2 = f if got2 is None or f[3] < got2[3] else got2
    if table is not None:
        _i, cv, D2 = table
        if cv != a or _stored_between(order, -1, here, {a}, live):
            out["step"] = (None, f"the accepted first extent `{a}` is not the candidate `{cv}` of the loop over `{D2.text[:60]}`")
            return out
        if not D2.div and any(((_is_div(t2, a, M) and tk) or (_is_nondiv(t2, a, M) and not tk)) and not _stored_between(order, p, here, {a}, live)
                              for p, t, taken in facts for t2, tk in _facts(t, taken)):
            D2 = D2.but(div=True)
        if not D2.div:
            out["step"] = (None, f"the table `{D2.text[:80]}` is not filtered by `{M} % n == 0`: not known that `{a}` divides `{M}`")
            return out
        if D2.hi[0] == want1 and (got1 is None or D2.hi[1] < got1[3]):
            got1 = (a, "le", want1, D2.hi[1])
        # candidates after the position where the first search stopped have larger first extents, hence quotients not above the one that
        # was found admissible there
        if got2 is None and b and ctx.get("adm") and ctx.get("idx") and D2.asc and D2.after is not None and D2.after[0] == ctx["idx"] \
                and D2.after[1] >= 1 and D2.root is ctx["D"]:
            got2 = (b, "le", P2, 0)
            out["by_order"] = True
        # the same argument for `range(nprocs1 + c, ...)`: evaluated once, with the pair the first search stopped at
        between = fn.body[fn.body.index(w1) + 1:fn.body.index(w2)] if w1 is not None and w1 in fn.body else None
        if got2 is None and b and ctx.get("adm") and D2.start is not None and D2.start[0] == r1 and D2.start[1] >= 1 and between is not None \
                and not any(_own_stores(x) & {r1, r2} for st in between for x in _preorder([st])):
            got2 = (b, "le", P2, 0)
            out["by_order"] = True
        # a one-pass iterator (generator) that the first search consumed up to the candidate it stopped at: the second loop goes on
        # with the candidates after it, which are larger
        if got2 is None and b and ctx.get("adm") and D2.lazy and D2.asc and isinstance(w2.iter, ast.Name) and isinstance(w1, ast.For) \
                and isinstance(w1.iter, ast.Name) and w1.iter.id == w2.iter.id and between is not None \
                and not any(_own_stores(x) & {r1, r2, w2.iter.id} for st in between for x in _preorder([st])) \
                and sum(1 for n in ast.walk(fn) if isinstance(n, ast.Name) and n.id == w2.iter.id and isinstance(n.ctx, ast.Load)) == 2:
            got2 = (b, "le", P2, 0)
            out["by_order"] = True
    elif got2 is None and b and first_ok and w1 is not None and w1 in fn.body and w2 in fn.body \
            and not any(_own_stores(x) & {r1, r2} for st in fn.body[fn.body.index(w1) + 1:fn.body.index(w2)] for x in _preorder([st])) \
            and _above_current(fn, w2, a, r1, first):
        # no test of the candidate's quotient, but the candidate is above the current first extent (`a >= r1 + 1` on every path to the
        # acceptance), so its quotient is not above the current second extent, which the first search left within its bound and every
        # acceptance keeps there
        got2 = (b, "le", P2, 0)
        out["by_order"] = True
    for g, nm, bound in ((got1, a, f"min({M}, {P1})"), (got2, b, P2)):
        if g is not None and g[3] > 0:
            out["step"] = (False, f"a candidate is accepted when `{nm} <= {_bound_text(g[2], g[3])}`, beyond its bound `{bound}`: "
                                  "a process gets no point of a distributed dimension")
            return out
    if got1 is None or got2 is None:
        miss = f"`{a} <= min({M}, {P1})`" if got1 is None else f"`{b or src(e)} <= {P2}`"
        out["step"] = (None, f"no condition {miss} is known to hold where the candidate is accepted")
        return out
    out["step"] = (True, "a candidate replaces the current grid only where it is known to respect both bounds, and both extents are "
                         "replaced together by a divisor and its exact quotient")
    # monotonicity argument for N3: the candidate's first extent comes from a scan that starts above the current first extent
    for sblk, k, sc in _scans_in(w2.body, M):
        if sblk is not w2.body:
            continue
        al, _ = _aliases_after(sblk, k, sc["var"])
        if a in al and _scan_start(sblk, k, sc["var"]) == (r1, 1):
            out["mono"] = True
    return out


# ---------------------------------------------------------------------------------------------------------
# candidate tables: the divisors of the process count as one sequence (list comprehension, filtered arange)
# ---------------------------------------------------------------------------------------------------------
class _Coll:
    """a sequence of candidate extents: the integers lo..hi (hi = base + k, inclusive) that pass the filters.
    div: every element divides M (or is 1); complete: no filter other than divisibility; asc: increasing order;
    after: (index variable, c) for the part `X[i + c:]` of the table `root`"""

    def __init__(self, lo, hi, text, div=False, complete=True, asc=True, after=None, root=None, start=None, adm=None):
        self.lo, self.hi, self.text, self.div, self.complete, self.asc, self.after, self.root = lo, hi, text, div, complete, asc, after, root
        self.start = start      # (name, c): the integers from `name + c` on (lo is None then)
        self.adm = adm          # (base, k): filtered by `M // n <= base + k`
        self.lazy = False       # a one-pass iterator (generator expression, iter(...)): a second loop goes on where the first one stopped

    def but(self, **kw):
        c = copy.copy(self)
        for k, v in kw.items():
            setattr(c, k, v)
        return c


def _is_div(c, v, M):
    return same_expr(c, f"{M} % {v} == 0") or same_expr(c, f"0 == {M} % {v}") or same_expr(c, f"not {M} % {v}") \
        or same_expr(c, f"{M} % {v} < 1") or same_expr(c, f"not ({M} % {v})")


def _adm_filter(c, v, M):
    """`M // v <= B + k` (any spelling of the comparison) -> (canonical B, k), else None"""
    if not (isinstance(c, ast.Compare) and len(c.ops) == 1):
        return None
    q = ast.Name(id="_q_", ctx=ast.Load())
    l, r = c.left, c.comparators[0]
    if same_expr(l, f"{M} // {v}"):
        f = _cmp(ast.Compare(left=q, ops=c.ops, comparators=[r]), {"_q_"})
    elif same_expr(r, f"{M} // {v}"):
        f = _cmp(ast.Compare(left=l, ops=c.ops, comparators=[q]), {"_q_"})
    else:
        return None
    return (f[2], f[3]) if f and f[1] == "le" else None


def _coll_of(e, env, M):
    if isinstance(e, ast.Name):
        return env.get(e.id)
    if isinstance(e, ast.Call) and not e.keywords:
        fname = src(e.func)
        if fname in ("range", "np.arange", "numpy.arange", "arange") and len(e.args) == 2 and _int_const(e.args[0]):
            base, c = _lin(e.args[1])
            return _Coll(e.args[0].value, (base, c - 1), src(e))
        if fname in ("range", "np.arange", "numpy.arange", "arange") and len(e.args) == 2:
            a0 = e.args[0]
            if isinstance(a0, ast.BinOp) and isinstance(a0.op, ast.Add):
                for x, y in ((a0.left, a0.right), (a0.right, a0.left)):
                    if isinstance(x, ast.Name) and _int_const(y):
                        base, c = _lin(e.args[1])
                        return _Coll(None, (base, c - 1), src(e), start=(x.id, y.value))
            return None
        if fname in ("list", "tuple", "sorted", "np.array", "np.asarray", "np.sort", "numpy.array", "numpy.asarray", "numpy.sort") and len(e.args) == 1:
            r = _coll_of(e.args[0], env, M)
            if r is not None and r.lazy:
                # materialising a one-pass iterator: a table again when the iterator is written in place, not followed when it is a
                # name (elements may have been consumed already)
                return None if isinstance(e.args[0], ast.Name) else r.but(lazy=False)
            return r
        if fname == "iter" and len(e.args) == 1:
            r = _coll_of(e.args[0], env, M)
            return None if r is None or (r.lazy and isinstance(e.args[0], ast.Name)) else r.but(lazy=True, text=src(e))
        return None
    if isinstance(e, (ast.ListComp, ast.GeneratorExp)) and len(e.generators) == 1 and isinstance(e.generators[0].target, ast.Name) \
            and isinstance(e.elt, ast.Name) and e.elt.id == e.generators[0].target.id and not e.generators[0].is_async:
        base = _coll_of(e.generators[0].iter, env, M)
        if base is None:
            return None
        v = e.elt.id
        for c in e.generators[0].ifs:
            af = _adm_filter(c, v, M)
            base = base.but(div=True) if _is_div(c, v, M) else base.but(adm=af) if af and base.adm is None else base.but(complete=False)
        return base.but(text=src(e), lazy=base.lazy or isinstance(e, ast.GeneratorExp))
    if isinstance(e, ast.BinOp) and isinstance(e.op, ast.Add) and isinstance(e.left, ast.List) and len(e.left.elts) == 1 \
            and _int_const(e.left.elts[0]) and e.left.elts[0].value == 1:
        r = _coll_of(e.right, env, M)
        if r is not None and r.lo == 2 and r.after is None:
            return r.but(lo=1, text=src(e))
        return None
    if isinstance(e, ast.Subscript):
        base = _coll_of(e.value, env, M)
        if base is None:
            return None
        sl = e.slice
        if isinstance(sl, ast.Compare) and isinstance(e.value, ast.Name) and _is_div(sl, e.value.id, M):
            return base.but(div=True, text=base.text + f" [{src(sl)}]")
        if isinstance(sl, ast.Compare) and isinstance(e.value, ast.Name) and base.adm is None and _adm_filter(sl, e.value.id, M):
            return base.but(adm=_adm_filter(sl, e.value.id, M), text=base.text + f" [{src(sl)}]")
        if isinstance(sl, ast.Slice) and sl.upper is None and sl.step is None and sl.lower is not None and base.after is None:
            lw = sl.lower
            if _int_const(lw) and lw.value >= 0:
                return base.but(complete=base.complete and lw.value == 0, text=src(e), root=base, after=(None, lw.value))
            if isinstance(lw, ast.BinOp) and isinstance(lw.op, ast.Add):
                for a, b in ((lw.left, lw.right), (lw.right, lw.left)):
                    if isinstance(a, ast.Name) and _int_const(b) and b.value >= 0:
                        return base.but(complete=False, text=src(e), root=base, after=(a.id, b.value))
        return None
    return None


def _coll_env(fn, M):
    """{name: _Coll} for the candidate tables built by the top-level statements of fn; a name stored anywhere else, or changed
    in place, is left out"""
    env, bad = {}, set()
    top = {id(st) for st in fn.body}
    for n in ast.walk(fn):
        if isinstance(n, ast.Call) and isinstance(n.func, ast.Attribute) and n.func.attr in lints.MUTATING_METHODS:
            r = _root_name(n.func.value)
            if r:
                bad.add(r)
        elif isinstance(n, (ast.Subscript, ast.Attribute)) and isinstance(n.ctx, (ast.Store, ast.Del)):
            r = _root_name(n)
            if r:
                bad.add(r)
        elif isinstance(n, ast.Name) and isinstance(n.ctx, (ast.Store, ast.Del)):
            st = _stmt_of(n)
            if not (isinstance(st, ast.Assign) and id(st) in top and len(st.targets) == 1 and st.targets[0] is n):
                bad.add(n.id)
    for st in fn.body:
        if isinstance(st, ast.Assign) and len(st.targets) == 1 and isinstance(st.targets[0], ast.Name):
            nm = st.targets[0].id
            c = _coll_of(st.value, env, M) if nm not in bad else None
            if c is not None:
                env[nm] = c
            else:
                env.pop(nm, None)
    return env


def _elements(fn, e, env, M, seen=None, depth=0):
    """the positions of candidate tables an integer expression can come from: [(table, index text)], None when not followed"""
    seen = set() if seen is None else seen
    if depth > 8:
        return None
    if isinstance(e, ast.Call) and not e.keywords and len(e.args) == 1 and src(e.func) in ("int", "max", "min", "np.max", "np.min", "np.amax", "np.amin"):
        fname = src(e.func).split(".")[-1]
        if fname == "int":
            return _elements(fn, e.args[0], env, M, seen, depth + 1)
        c = _coll_of(e.args[0], env, M)
        if c is not None and c.asc:
            return [(c, "-1" if "max" in fname else "0")]
        return None
    if isinstance(e, ast.Call) and isinstance(e.func, ast.Attribute) and e.func.attr in ("item", "max", "min") and not e.args and not e.keywords:
        if e.func.attr == "item":
            return _elements(fn, e.func.value, env, M, seen, depth + 1)
        c = _coll_of(e.func.value, env, M)
        return [(c, "-1" if e.func.attr == "max" else "0")] if c is not None and c.asc else None
    if isinstance(e, ast.IfExp):
        a, b = _elements(fn, e.body, env, M, seen, depth + 1), _elements(fn, e.orelse, env, M, seen, depth + 1)
        return None if a is None or b is None else a + b
    if isinstance(e, ast.Subscript) and not isinstance(e.slice, (ast.Slice, ast.Compare, ast.Tuple)):
        c = _coll_of(e.value, env, M)
        return [(c, _canon(e.slice))] if c is not None else None
    if isinstance(e, ast.Name):
        if e.id in seen:
            return []
        seen.add(e.id)
        vals, augs = _defs(fn, e.id)
        if augs or not vals or any(v is None for v in vals):
            return None
        out = []
        for v in vals:
            sub = _elements(fn, v, env, M, seen, depth + 1)
            if sub is None:
                return None
            out += sub
        return out
    return None


def _neighbour_choices(fn, env, M):
    """places where the code chooses between two positions `i + c1` / `i + c2` of one table:
    [(deciding test, table, smaller position text, larger position text)]"""
    def one(e):
        el = _elements(fn, e, env, M)
        if not el or len({(id(c), i) for c, i in el}) != 1:
            return None
        c, i = el[0]
        try:
            base, k = _lin(ast.parse(i, mode="eval").body)
        except SyntaxError:
            return None
        return c, base, k, i
    out = []
    for n in ast.walk(fn):
        pair = None
        if isinstance(n, ast.IfExp):
            pair = (n.body, n.orelse)
        elif isinstance(n, ast.If) and len(n.body) == 1 and len(n.orelse) == 1 and all(
                isinstance(x, ast.Assign) and len(x.targets) == 1 and isinstance(x.targets[0], ast.Name) for x in (n.body[0], n.orelse[0])) \
                and n.body[0].targets[0].id == n.orelse[0].targets[0].id:
            pair = (n.body[0].value, n.orelse[0].value)
        if pair is None:
            continue
        a, b = one(pair[0]), one(pair[1])
        if a and b and a[0] is b[0] and a[1] == b[1] and a[2] != b[2] and not _int_const(ast.parse(a[1], mode="eval").body):
            lo_, hi_ = (a, b) if a[2] < b[2] else (b, a)
            out.append((n.test, a[0], lo_[3], hi_[3]))
    return out


def _is_last(c, idx):
    return c.asc and (idx == "-1" or idx.replace(" ", "") in (f"len({c.text})-1",))


def _loop_target(lp, env, M):
    """for c in X / for i, c in enumerate(X) -> (index variable or None, candidate variable, table) ; None"""
    it, tg = lp.iter, lp.target
    if isinstance(it, ast.Call) and isinstance(it.func, ast.Name) and it.func.id == "enumerate" and len(it.args) == 1 and not it.keywords \
            and isinstance(tg, ast.Tuple) and len(tg.elts) == 2 and all(isinstance(x, ast.Name) for x in tg.elts):
        c = _coll_of(it.args[0], env, M)
        return (tg.elts[0].id, tg.elts[1].id, c) if c is not None else None
    if isinstance(tg, ast.Name):
        c = _coll_of(it, env, M)
        return (None, tg.id, c) if c is not None else None
    return None


def _table_search(fn, P1, P2, M, r1, r2):
    """the search written over a table of candidate divisors (no stepping `while`): the same four verdicts as for the loops"""
    und = "the search is neither the stepping `while` loops nor a recognised walk over a table of divisors"
    out = {"w1": None, "scan": None, "guard": (None, und), "fact": (None, und), "step": (None, und), "w2": None, "cand": None,
           "mono": False, "node": fn}
    env = out["env"] = _coll_env(fn, M)
    T = f"min({M}, {P1})"
    want1 = _canon(ast.parse(T, mode="eval").body)
    raises = [n for n in ast.walk(fn) if isinstance(n, ast.Raise)]
    if len(raises) != 1:
        out["guard"] = (None, f"{len(raises)} `raise` statements / {len(env)} candidate tables recognised in {fn.name}: " + und)
        return out
    rs = raises[0]
    tabs = ", ".join(f"`{k} = {v.text[:70]}`" for k, v in env.items())

    def table_verdict(D):
        """None when D is the complete increasing table of the divisors of M in 1..min(M, P1); else (verdict, why)"""
        if not (D.hi[0] == want1 and D.lo is not None) or D.after is not None:
            return None, f"the table `{D.text[:80]}` is not the candidates from 1 to `{T}`: cannot decide which candidates are tried"
        if D.hi[1] < 0:
            return False, (f"the table of candidates `{D.text[:80]}` stops at `{_bound_text(T, D.hi[1])}`: a divisor equal to the bound `{T}` is "
                           "admissible but never tried, a valid grid can be refused")
        if D.hi[1] > 0:
            return False, (f"the table of candidates `{D.text[:80]}` runs up to `{_bound_text(T, D.hi[1])}`, beyond the bound `{T}`: a first "
                           "extent larger than the number of points is accepted (a process gets no point of a distributed dimension)")
        if D.lo > 1:
            return False, (f"the table of candidates `{D.text[:80]}` starts at {D.lo}: the first extent 1 is never tried, so the error is raised "
                           f"when no larger divisor fits although the grid (1, {M}) is valid whenever `{M} <= {P2}`")
        if not D.div:
            return None, f"the table `{D.text[:80]}` is not filtered by `{M} % n == 0`: not known that every candidate divides `{M}`"
        if not (D.complete and D.asc):
            return None, f"the table `{D.text[:80]}` is filtered by a condition that is not followed"
        return True, ""

    par = parent(rs)
    # ---------------- form A: for ... else: raise
    if isinstance(par, ast.For) and par in fn.body and par.orelse and par.orelse[0] is rs:
        L1 = out["w1"] = out["node"] = par
        lt = _loop_target(L1, env, M)
        if lt is None or lt[2].after is not None or lt[2].adm is not None or lt[2].lo is None:
            out["guard"] = out["fact"] = (None, f"the sequence `{src(L1.iter)[:80]}` the first search runs over is not a recognised table of divisors")
            return out
        idx, c, D = lt
        if D.lazy:
            # a one-pass iterator: the loop sees every candidate only when nothing consumed it before
            uses = [n for n in ast.walk(fn) if isinstance(L1.iter, ast.Name) and isinstance(n, ast.Name) and n.id == L1.iter.id
                    and isinstance(n.ctx, ast.Load)]
            iters = [st.iter for st in fn.body if isinstance(st, ast.For)]
            if not isinstance(L1.iter, ast.Name) or any(not any(u is i for i in iters) for u in uses) \
                    or any(st.iter in uses for st in fn.body[:fn.body.index(L1)] if isinstance(st, ast.For)):
                out["guard"] = out["fact"] = (None, f"`{src(L1.iter)[:60]}` is a one-pass iterator that is also used elsewhere than as the sequence of the "
                                                    "search loops: cannot decide which candidates the first search sees")
                return out
        brs = [n for n in _preorder(L1.body) if isinstance(n, ast.Break)]
        inner = [n for n in _preorder(L1.body) if isinstance(n, (ast.For, ast.While))]
        order = _preorder(L1.body)
        pos = {id(s_): p_ for p_, s_ in enumerate(order)}

        def last_def(name, before):
            ds = [s_ for s_ in order[:before] if name in _own_stores(s_)]
            return ds[-1] if ds else None
        if len(brs) != 1 or inner:
            out["guard"] = out["fact"] = (None, f"{len(brs)} `break` statements / {len(inner)} nested loops in the first search loop (one break expected)")
            return out
        br = brs[0]
        facts, _o, _p = _path_facts(L1, br)
        here = pos[id(br)]
        # quotient variables: q = M // c
        quot = {}
        for s_ in order[:here]:
            if isinstance(s_, ast.Assign) and len(s_.targets) == 1 and isinstance(s_.targets[0], ast.Name) and isinstance(s_.value, ast.BinOp) \
                    and isinstance(s_.value.left, ast.Name) and s_.value.left.id == M and isinstance(s_.value.right, ast.Name):
                quot[s_.targets[0].id] = (s_, s_.value.right.id, s_.value.op)
        calias = {c}
        for s_ in order[:here]:
            if isinstance(s_, ast.Assign) and len(s_.targets) == 1 and isinstance(s_.targets[0], ast.Name) and isinstance(s_.value, ast.Name) \
                    and s_.value.id in calias:
                calias.add(s_.targets[0].id)
        adm = None
        for p_, t_, taken in facts or []:
            for t2, tk in _facts(t_, taken):
                f = _cmp(t2, set(quot), tk)
                if f and f[1] == "le" and f[2] == P2 and quot[f[0]][1] in calias and isinstance(quot[f[0]][2], ast.FloorDiv) \
                        and not _stored_between(order, p_, here, {f[0]}) and not _stored_between(order, pos[id(quot[f[0]][0])], here, {f[0], quot[f[0]][1]}):
                    adm = f if adm is None or f[3] < adm[3] else adm
        if not D.div and any((_is_div(t2, x, M) and tk) or (_is_nondiv(t2, x, M) and not tk)
                             for _p, t_, taken in facts or [] for t2, tk in _facts(t_, taken) for x in calias):
            D = D.but(div=True, text=D.text + f" [with `{M} % {c} == 0` tested in the loop]")
        nofilter = not D.div and D.complete and not any(isinstance(n, ast.Mod) for n in ast.walk(L1))
        tv, twhy = table_verdict(D)
        if adm is None:
            out["guard"] = (None, f"no condition `{M} // {c} <= {P2}` is known to hold at the `break` of the first search loop: cannot decide "
                                  "that the loop stops at an admissible candidate and reaches the `raise` only when there is none")
        elif adm[3] != 0:
            out["guard"] = (False, f"the first search stops when `{adm[0]} <= {_bound_text(P2, adm[3])}` instead of `{adm[0]} <= {P2}`: " +
                            ("a second extent beyond its bound is accepted (a process gets no point)" if adm[3] > 0 else
                             "a second extent equal to its bound is admissible but refused (the error can be raised although a valid grid exists)"))
        elif tv is not True:
            out["guard"] = (tv, twhy)
        else:
            out["guard"] = (True, f"the loop visits every divisor of `{M}` from 1 to {T} in increasing order ({tabs}) and stops at the first whose "
                                  f"quotient fits `{P2}`; the `else` branch raises exactly when it ran through all of them without stopping")
        # factorisation: the pair on leaving the loop
        why = None
        verdict = None
        d1 = last_def(r1, here) if r1 != c else None
        if r1 != c and not (isinstance(d1, ast.Assign) and isinstance(d1.value, ast.Name) and d1.value.id in calias):
            why = f"the returned first extent `{r1}` is not the candidate `{c}` of the loop at the `break`"
        if why is None:
            if r2 not in quot or quot[r2][1] not in calias | {r1} or last_def(r2, here) is not quot[r2][0]:
                why = f"the returned second extent `{r2}` is not assigned `{M} // {c}` before the `break`"
            elif isinstance(quot[r2][2], ast.Div):
                verdict, why = False, (f"`{src(quot[r2][0])}` is a true division: the second extent becomes a float, which is no valid number of "
                                       "processes for the cartesian topology")
            elif not isinstance(quot[r2][2], ast.FloorDiv):
                why = f"`{src(quot[r2][0])}` is not the quotient `{M} // {c}`"
        if why is None and nofilter:
            verdict, why = False, (f"the candidates `{D.text[:80]}` are all the integers up to the bound, and neither the table nor the loop tests "
                                   f"`{M} % {c} == 0`: the first candidate whose rounded-down quotient fits is taken even when it does not divide "
                                   f"`{M}`, and the grid does not multiply to the process count")
        elif why is None and not D.div:
            why = f"the table `{D.text[:80]}` is not filtered by `{M} % n == 0`: not known that `{c}` divides `{M}`"
        later = [n for st in fn.body[fn.body.index(L1) + 1:] for n in ast.walk(st) if isinstance(n, ast.Name) and isinstance(n.ctx, ast.Store)
                 and n.id in ({idx} if idx else set())]
        out["fact"] = (True, f"the second extent is the exact quotient `{M} // {c}` by an element of the table of divisors: the grid multiplies "
                             "to the process count") if why is None else (verdict, why)
        out["ctx"] = {"D": D, "idx": idx if not later else None, "adm": adm is not None and adm[3] <= 0 and adm[0] == r2 and r1 == c}
        return out
    # ---------------- form C: the admissible candidates are filtered into a table; `if <table is empty>: raise`
    V = None
    if isinstance(par, ast.If) and par in fn.body and par.body and par.body[0] is rs and not par.orelse:
        t = par.test
        for nm, tb in env.items():
            if any(same_expr(t, x) for x in (f"len({nm}) == 0", f"not len({nm})", f"len({nm}) < 1", f"{nm}.size == 0", f"not {nm}.size",
                                             f"0 == len({nm})", f"not {nm}") if not (x == f"not {nm}" and "arange" in tb.text)):
                V = tb
    if V is not None:
        out["node"] = par
        qdefs = [st for st in fn.body if r2 in _own_stores(st)]
        allq = [n for n in ast.walk(fn) if isinstance(n, ast.Name) and isinstance(n.ctx, ast.Store) and n.id == r2]
        q = qdefs[0] if len(qdefs) == 1 and len(allq) == 1 and fn.body.index(qdefs[0]) > fn.body.index(par) else None
        e = q.value if isinstance(q, ast.Assign) else None
        srcs = _elements(fn, ast.Name(id=r1, ctx=ast.Load()), env, M) if q is not None else None
        stores1 = [n for n in ast.walk(fn) if isinstance(n, ast.Name) and isinstance(n.ctx, ast.Store) and n.id == r1 and _stmt_of(n) is not None
                   and q is not None and _order(fn, q, _stmt_of(n)) != "after"]
        plain = V.but(adm=None)
        tv, twhy = table_verdict(plain)
        if V.adm is None or V.adm[0] != P2:
            out["guard"] = (None, f"the table `{V.text[:80]}` whose emptiness raises the error is not filtered by `{M} // n <= {P2}`")
        elif V.adm[1] != 0:
            out["guard"] = (False, f"the admissible candidates are those with `{M} // n <= {_bound_text(P2, V.adm[1])}` instead of `<= {P2}`: " +
                            ("a second extent beyond its bound is accepted (a process gets no point)" if V.adm[1] > 0 else
                             "a second extent equal to its bound is refused (the error can be raised although a valid grid exists)"))
        elif tv is not True:
            out["guard"] = (tv, twhy)
        else:
            out["guard"] = (True, f"`{V.text[:120]}` holds every divisor of `{M}` from 1 to {T} whose quotient fits `{P2}`; the error is raised exactly "
                                  "when it is empty")
        if not (isinstance(e, ast.BinOp) and isinstance(e.left, ast.Name) and e.left.id == M and isinstance(e.right, ast.Name) and e.right.id == r1) \
                or not srcs or stores1 or any(c_ is not V for c_, _i in srcs):
            out["fact"] = out["step"] = (None, f"the returned pair is not recognised as `{r1}` = an element of `{V.text[:60]}`, `{r2} = {M} // {r1}` "
                                               "assigned once after the emptiness test")
        elif isinstance(e.op, ast.Div):
            out["fact"] = out["step"] = (False, f"`{src(q)}` is a true division: the second extent becomes a float, which is no valid number of processes")
        elif not isinstance(e.op, ast.FloorDiv) or not V.div:
            out["fact"] = out["step"] = (None, f"`{src(q)}` / the table `{V.text[:60]}`: not known that `{r1}` divides `{M}` and `{r2}` is the quotient")
        else:
            out["fact"] = (True, f"the second extent is the exact quotient `{M} // {r1}` by an element of the table of divisors ({tabs}): the grid "
                                 "multiplies to the process count")
            okstep = out["guard"][0] is True
            out["step"] = (True if okstep else None,
                           f"whatever element of `{V.text[:60]}` is chosen, it lies within {T} and its quotient within `{P2}`: the table holds only such "
                           "candidates" if okstep else "the table of admissible candidates is not recognised (see the failure guard)")
        out["single"] = True
        return out
    # ---------------- form B: one candidate selected, then `if quotient > bound: raise`
    if isinstance(par, ast.If) and par in fn.body and par.body and par.body[0] is rs and not par.orelse:
        out["node"] = par
        f = _cmp(par.test, {r2})
        k0 = fn.body.index(par)
        qdefs = [st for st in fn.body[:k0] if r2 in _own_stores(st)]
        loops = [st for st in fn.body if isinstance(st, (ast.For, ast.While))]
        allq = [n for n in ast.walk(fn) if isinstance(n, ast.Name) and isinstance(n.ctx, ast.Store) and n.id == r2]
        if not (f and f[1] == "gt" and f[2] == P2) or len(qdefs) != 1 or len(allq) != 1 or loops:
            out["guard"] = (None, f"`if {src(par.test)[:60]}: raise` is not a test of the single top-level value of `{r2}` against `{P2}` in a "
                                  "function without loops: " + und)
            return out
        q = qdefs[0]
        e = q.value if isinstance(q, ast.Assign) else None
        if not (isinstance(e, ast.BinOp) and isinstance(e.left, ast.Name) and e.left.id == M and isinstance(e.right, ast.Name) and e.right.id == r1):
            out["guard"] = out["fact"] = (None, f"`{src(q)[:80]}` is not the quotient `{M} // {r1}`")
            return out
        srcs = _elements(fn, ast.Name(id=r1, ctx=ast.Load()), env, M)
        stores1 = [n for n in ast.walk(fn) if isinstance(n, ast.Name) and isinstance(n.ctx, ast.Store) and n.id == r1 and _stmt_of(n) is not None
                   and _order(fn, q, _stmt_of(n)) != "after"]
        if not srcs or stores1:
            out["guard"] = out["fact"] = (None, f"the first extent `{r1}` is not followed back to positions of a table of divisors" +
                                          (f" (`{r1}` is stored again after the quotient is taken)" if stores1 else ""))
            return out
        tables = {id(c_): c_ for c_, _i in srcs}
        posn = sorted({i for _c, i in srcs})
        D = next(iter(tables.values()))
        tv, twhy = table_verdict(D) if len(tables) == 1 else (None, "the first extent is taken from several tables")
        if isinstance(e.op, ast.Div):
            out["fact"] = (False, f"`{src(q)}` is a true division: the second extent becomes a float, which is no valid number of processes")
        elif not isinstance(e.op, ast.FloorDiv):
            out["fact"] = (None, f"`{src(q)}` is not the quotient `{M} // {r1}`")
        elif len(tables) == 1 and D.div:
            out["fact"] = (True, f"the second extent is the exact quotient `{M} // {r1}` by an element of the table of divisors ({tabs}): the grid "
                                 "multiplies to the process count")
        else:
            out["fact"] = (None, f"not known that every value `{r1}` can take divides `{M}`")
        if f[3] != 0:
            out["guard"] = (False, f"the error is raised when `{r2} > {_bound_text(P2, f[3])}` instead of `{r2} > {P2}`: " +
                            ("a second extent beyond its bound passes (a process gets no point)" if f[3] > 0 else
                             "a second extent equal to its bound is refused although the grid is valid"))
        elif tv is not True:
            out["guard"] = (tv, twhy)
        elif all(_is_last(c_, i) for c_, i in srcs):
            out["guard"] = (True, f"`{r1}` is the largest divisor of `{M}` within {T} (last element of the increasing table), whose quotient is the "
                                  f"smallest possible second extent: if it exceeds `{P2}` no divisor within the bound fits")
        elif [ch for ch in _neighbour_choices(fn, env, M) if ch[1] is D and ch[2] in posn and ch[3] in posn
              and not any(isinstance(n, ast.Name) and n.id == P2 for n in ast.walk(ch[0]))]:
            test, _d, small, large = [ch for ch in _neighbour_choices(fn, env, M) if ch[1] is D and ch[2] in posn and ch[3] in posn
                                      and not any(isinstance(n, ast.Name) and n.id == P2 for n in ast.walk(ch[0]))][0]
            out["guard"] = (False, f"the error is raised when the quotient of ONE pre-selected divisor exceeds `{P2}` (`if {src(par.test)}: raise`), and "
                                   f"no loop or fallback tries another one. `{r1}` is an element of the table {tabs}; between the neighbouring positions "
                                   f"[{small}] and [{large}] the choice is made by `{src(test)[:80]}` (line {test.lineno}), which does not test the quotient "
                                   f"against `{P2}`: when the smaller divisor [{small}] is preferred and its (larger) quotient exceeds `{P2}`, the larger "
                                   f"divisor [{large}] and those after it, whose quotients are smaller, are never tried, and the error is raised although a "
                                   "valid grid can exist")
        else:
            out["guard"] = (None, f"`{r1}` is the element at position {posn} of the table {tabs}: cannot decide that, when its quotient exceeds `{P2}`, "
                                  "no other divisor fits")
        okstep = tv is True and f[3] == 0 and isinstance(e.op, ast.FloorDiv)
        out["step"] = (True if okstep else None,
                       f"no refinement loop: the pair returned is an element of the table bounded by {T} and its quotient, which passed `{r2} <= {P2}`"
                       if okstep else "no refinement loop, and the single candidate is not known to respect both bounds")
        out["single"] = True
        return out
    out["guard"] = (None, "the `raise` is neither the `else` branch of a top-level `for` over the candidates nor a top-level `if ...: raise`: " + und)
    return out


def _early_exits(chk, fn, P, kw):
    """top-level `if <condition on the process count>: return <pair of 1 / the process count>` before the first loop: judged on
    their own (the pair must multiply to the process count and respect the bound of its direction under the condition), then
    taken out, so that the statements that follow are analysed as the search (for every input, which includes the ones that
    remain)"""
    P1, P2, M = P
    rule = "N2-early-exit"
    if {P1, P2, M} & _written(fn):
        return
    env, neg = {}, []
    k = 0
    while k < len(fn.body):
        st = fn.body[k]
        if isinstance(st, ast.Expr) and isinstance(st.value, ast.Constant):
            k += 1
            continue
        if isinstance(st, ast.Assign) and len(st.targets) == 1 and isinstance(st.targets[0], ast.Name) and \
                ((_int_const(st.value) and st.value.value == 1) or (isinstance(st.value, ast.Name) and st.value.id == M)):
            env[st.targets[0].id] = st.value
            k += 1
            continue
        if not (isinstance(st, ast.If) and not st.orelse and len(st.body) == 1 and isinstance(st.body[0], ast.Return)
                and isinstance(st.body[0].value, (ast.Tuple, ast.List)) and len(st.body[0].value.elts) == 2):
            return
        test, val = copy.deepcopy(st.test), copy.deepcopy(st.body[0].value)
        for nm, v in env.items():
            test, val = _Subst(nm, v).visit(test), _Subst(nm, v).visit(val)
        kinds = ["one" if _int_const(x) and x.value == 1 else "count" if isinstance(x, ast.Name) and x.id == M else None for x in val.elts]
        if None in kinds:
            return
        known, one, unrec = set(), False, []
        for t, taken in [(test, True)] + neg:
            for t2, tk in _facts(t, taken):
                f = _cmp(t2, {M}, tk)
                if f and f[1] == "gt":
                    continue
                if f and f[1] == "le":
                    try:
                        base = ast.parse(f[2], mode="eval").body
                    except SyntaxError:
                        base = None
                    if _int_const(base) and base.value + f[3] <= 1:
                        one = True
                        continue
                    if f[3] <= 0 and base is not None:
                        parts = base.args if isinstance(base, ast.Call) and isinstance(base.func, ast.Name) and base.func.id == "min" \
                            and not base.keywords else [base]
                        hit = {x.id for x in parts if isinstance(x, ast.Name) and x.id in (P1, P2)}
                        if hit and all(isinstance(x, ast.Name) for x in parts):
                            known |= hit
                            continue
                if isinstance(t2, ast.Compare) and len(t2.ops) == 1 and isinstance(t2.ops[0], (ast.Eq, ast.NotEq)) \
                        and isinstance(t2.ops[0], ast.Eq) == tk and {src(t2.left), src(t2.comparators[0])} == {M, "1"}:
                    one = True
                    continue
                unrec.append(t2)
        if unrec:
            return
        ret = st.body[0]
        ok, why = True, (f"`{src(ret)}` under `{src(st.test)}`: the pair multiplies to `{M}` and the extent `{M}` is within the bound of "
                         "its direction under that condition")
        if not one and sorted(kinds) != ["count", "one"]:
            ok, why = False, (f"`{src(ret)}` under `{src(st.test)}`: the pair does not multiply to the process count `{M}` "
                              f"(unless `{M}` is 1, which the condition does not say)")
        for pos_, kind in enumerate(kinds):
            if ok and kind == "count" and not one and P[pos_] not in known:
                ok, why = False, (f"`{src(ret)}` under `{src(st.test)}`: the extent `{M}` is laid on process direction {pos_}, whose bound is "
                                  f"`{P[pos_]}`, but the condition only says `{M}` <= {sorted(known) or 'nothing'}: when `{P[pos_]}` < `{M}` a process "
                                  "gets no point of a distributed dimension")
        chk.ob(rule, st, "early exit hands back a valid grid", ok, why, **kw)
        if not ok:
            return
        neg.append((test, False))
        del fn.body[k]


def _result_table(chk, fn, tree, P, kw):
    """a hand-written table of earlier results (`if key in T: return T[key]` ... `T[key] = (n1, n2)`): the reader and the writer
    must use the same key, and the key must hold every argument the search depends on; then the early return hands back what the
    statements below computed for the same arguments, and the table statements are taken out before the search is analysed"""
    rule = "N4-result-table"
    tables = set()
    for st in tree.body:
        if isinstance(st, (ast.Assign, ast.AnnAssign)) and st.value is not None and \
                (isinstance(st.value, ast.Dict) or (isinstance(st.value, ast.Call) and src(st.value.func).split(".")[-1] in ("dict", "OrderedDict"))):
            tg = st.targets if isinstance(st, ast.Assign) else [st.target]
            tables |= {t.id for t in tg if isinstance(t, ast.Name)}
    if not tables:
        return

    def key_of(e):
        e2, adj = _resolve(fn, e) if isinstance(e, ast.Name) else (e, [])
        return None if e2 is None or adj else e2
    reads, writes = [], []          # (statement(s), table, key expression)
    body = fn.body
    for k, st in enumerate(body):
        if isinstance(st, ast.If) and not st.orelse and len(st.body) == 1 and isinstance(st.body[0], ast.Return):
            t, r = st.test, st.body[0].value
            if isinstance(t, ast.Compare) and len(t.ops) == 1 and isinstance(t.ops[0], ast.In) and isinstance(t.comparators[0], ast.Name) \
                    and t.comparators[0].id in tables and isinstance(r, ast.Subscript) and isinstance(r.value, ast.Name) \
                    and r.value.id == t.comparators[0].id and ast.dump(key_of(r.slice) or r.slice) == ast.dump(key_of(t.left) or t.left):
                reads.append(([st], r.value.id, key_of(t.left)))
                continue
            # hit = T.get(key) ; if hit is not None: return hit
            if isinstance(r, ast.Name) and k > 0 and isinstance(body[k - 1], ast.Assign) and len(body[k - 1].targets) == 1 \
                    and isinstance(body[k - 1].targets[0], ast.Name) and body[k - 1].targets[0].id == r.id \
                    and (same_expr(t, f"{r.id} is not None") or same_expr(t, f"{r.id} != None")):
                g = body[k - 1].value
                if isinstance(g, ast.Call) and isinstance(g.func, ast.Attribute) and g.func.attr == "get" and isinstance(g.func.value, ast.Name) \
                        and g.func.value.id in tables and len(g.args) == 1 and not g.keywords and len(_name_defs(fn, r.id)) == 1:
                    reads.append(([body[k - 1], st], g.func.value.id, key_of(g.args[0])))
                    continue
        if isinstance(st, ast.Assign) and len(st.targets) == 1 and isinstance(st.targets[0], ast.Subscript) \
                and isinstance(st.targets[0].value, ast.Name) and st.targets[0].value.id in tables:
            writes.append(([st], st.targets[0].value.id, key_of(st.targets[0].slice), st.value))
    if not reads and not writes:
        return
    T = (reads or writes)[0][1]
    uses = [n for n in ast.walk(tree) if isinstance(n, ast.Name) and n.id == T]
    mine = [n for grp in reads + writes for st in grp[0] for n in ast.walk(st) if isinstance(n, ast.Name) and n.id == T]
    construct = f"table of earlier results `{T}`: same key written and read, holding every argument"
    if len(reads) != 1 or len(writes) != 1 or reads[0][1] != writes[0][1] or reads[0][2] is None or writes[0][2] is None \
            or len(uses) != len(mine) + 1:
        chk.ob(rule, (reads or writes)[0][0][0], construct, None,
               f"the statements that read and fill `{T}` are not one `if key in {T}: return {T}[key]` and one `{T}[key] = <pair>` "
               f"({len(reads)} reads, {len(writes)} writes, {len(uses) - 1} uses of the name): not followed", **kw)
        return
    rk, wk, wv = reads[0][2], writes[0][2], writes[0][3]
    rst, wst = reads[0][0][0], writes[0][0][0]
    if ast.dump(rk) != ast.dump(wk):
        chk.ob(rule, rst, construct, False,
               f"the table is filled under the key `{src(wk)}` (line {wst.lineno}) but read under `{src(rk)}` (line {rst.lineno}): a call "
               "finds the grid stored by a call with other arguments, which was not checked against its own bounds and process count", **kw)
        return
    elts = rk.elts if isinstance(rk, ast.Tuple) else [rk]
    names = set()
    for x in elts:
        if isinstance(x, ast.Call) and isinstance(x.func, ast.Name) and x.func.id == "int" and len(x.args) == 1:
            x = x.args[0]
        if not isinstance(x, ast.Name):
            chk.ob(rule, rst, construct, None, f"the key `{src(rk)}` is not a tuple of parameters: not followed", **kw)
            return
        names.add(x.id)
    if set(P) & _written(fn):
        chk.ob(rule, rst, construct, None, "a parameter is changed in the function: the key is not followed", **kw)
        return
    used = {n.id for n in ast.walk(fn) if isinstance(n, ast.Name) and isinstance(n.ctx, ast.Load) and n.id in P}
    missing = sorted(used - names)
    if missing:
        chk.ob(rule, rst, construct, False,
               f"the table of earlier results is keyed by `{src(rk)}` only, but the search also depends on {missing}: a later call with the "
               f"same key and another `{missing[0]}` is handed the grid computed for the earlier value, which was not checked against "
               "its own arguments (a process can be left without points, or the pair does not multiply to the process count)", **kw)
        return
    # the stored value: the pair the function returns
    last = body[-1]
    okv = isinstance(last, ast.Return) and isinstance(wv, ast.Tuple) and isinstance(last.value, ast.Tuple) and ast.dump(wv) == ast.dump(last.value) \
        and body.index(wst) == len(body) - 2
    if not okv and isinstance(last, ast.Return) and isinstance(wv, ast.Name) and isinstance(last.value, ast.Name) and wv.id == last.value.id:
        d = _name_defs(fn, wv.id)
        if len(d) == 1 and isinstance(d[0][0], ast.Tuple) and d[0][1] in body and body.index(d[0][1]) < body.index(wst):
            okv = True
            last.value = d[0][0]
            body.remove(d[0][1])
    if not okv:
        chk.ob(rule, wst, construct, None,
               f"`{src(wst)[:70]}` is not followed by the return of the same (immutable) pair: cannot decide what a later call reads", **kw)
        return
    chk.ob(rule, rst, construct, True,
           f"`{T}` is filled and read under the same key `{src(rk)}`, which holds every argument; the value stored is the tuple returned: "
           "a later call with the same arguments gets the result of the same computation", **kw)
    for st in reads[0][0] + writes[0][0]:
        body.remove(st)


def search_rules(chk, fn, nf_tree):
    kw = dict(file=U.PROCGRID, func=FROM_MAX)
    P = _params(fn)
    if len(P) == 3:
        _result_table(chk, fn, nf_tree, P, kw)
        _early_exits(chk, fn, P, kw)
    rets = [n for n in ast.walk(fn) if isinstance(n, ast.Return)]
    pair = None
    rets.sort(key=lambda r: (r.lineno, r.col_offset))
    early = []
    if len(P) == 3 and rets and rets[-1] is fn.body[-1] and isinstance(rets[-1].value, (ast.Tuple, ast.List)) and len(rets[-1].value.elts) == 2 \
            and all(isinstance(x, ast.Name) for x in rets[-1].value.elts) and rets[-1].value.elts[0].id != rets[-1].value.elts[1].id \
            and all(isinstance(r.value, (ast.Tuple, ast.List)) and [ast.dump(x) for x in r.value.elts] == [ast.dump(x) for x in rets[-1].value.elts]
                    for r in rets):
        # several `return <the same pair>`: the early ones leave the search like a `break` followed by the final return; they are
        # accepted inside the refinement loop only (checked below)
        pair = tuple(x.id for x in rets[-1].value.elts)
        early = rets[:-1]
        rets = rets[-1:]
    first = second = None
    order_bad = None
    if pair:
        P1, P2, M = P
        r1, r2 = pair
        first = _first_loop(fn, P1, P2, M, r1, r2)
        if first["fact"][0] is None and first["scan"] is not None:
            # are the roles of the returned names the other way round?
            swapped = _first_loop(fn, P1, P2, M, r2, r1)
            if swapped["fact"][0] is True:
                order_bad = (f"`{src(rets[0])}`: `{r1}` is the quotient `{M} // {r2}` bounded by `{P2}` (process direction 1) and `{r2}` the "
                             f"divisor bounded by `{P1}` (direction 0): the pair is returned in the wrong order, each extent is laid on the "
                             "direction whose bound it was not checked against")
                first, (r1, r2) = swapped, (r2, r1)
        if first["w1"] is None:
            # no stepping loop: the search may be written over a table of candidate divisors
            first = _table_search(fn, P1, P2, M, r1, r2)
            if first.get("single"):
                second = {"step": first["step"], "w2": None, "cand": None, "mono": False}
            else:
                second = _second_loop(fn, first["w1"], P1, P2, M, r1, r2, ctx=first.get("ctx") or {}, env=first.get("env") or {})
        else:
            second = _second_loop(fn, first["w1"], P1, P2, M, r1, r2, first_ok=first["fact"][0] is True)
        stray = [r for r in early if second.get("w2") is None or not any(x is r for x in ast.walk(second["w2"]))]
        if stray:
            why = (f"`{src(stray[0])}` (line {stray[0].lineno}) leaves the function outside the refinement loop: the pair handed back there is "
                   "not followed")
            second = dict(second, step=(None, why) if second["step"][0] is not False else second["step"])
            if first["fact"][0] is True:
                first = dict(first, fact=(None, why))
    chk.pat("N2-factorisation", rets[0] if rets else fn, "return nprocs1, nprocs2", bool(pair) and not order_bad,
            "the pair is returned in (direction 0, direction 1) order", order_bad, nontrivial=False, **kw)
    und = "the function does not end in `return <first extent>, <second extent>` of two local names (or has not three parameters)"
    g_ok, g_why = first["guard"] if first else (None, und)
    f_ok, f_why = first["fact"] if first else (None, und)
    s_ok, s_why = second["step"] if second else (None, und)
    w1 = first["w1"] if first else None
    w2 = second["w2"] if second else None
    import builtins
    own = {st.name for st in nf_tree.body if isinstance(st, ast.FunctionDef)} | set(dir(builtins))
    closed = not any(isinstance(n, (ast.Raise, ast.Assert)) or
                     (isinstance(n, ast.Call) and not (isinstance(n.func, ast.Name) and n.func.id in own)) for n in ast.walk(nf_tree))
    if g_ok is None and closed and first and first["scan"] is not None:
        g_ok, g_why = False, ("process_grid.py raises no error at all (no raise, assert, or call of foreign code): when no divisor within the bound exists the scan result is returned "
                              "as if it were a valid grid")
    node = (first["scan"]["loop"] if first and first["scan"] else None) or (first.get("node") if first else None) or w1 or fn
    chk.ob("N2-failure-guard", node, "raise exactly when no divisor <= bound exists", g_ok, g_why, **kw)
    chk.ob("N2-factorisation", w1 or fn, "nprocs2 = mpi_size // nprocs1 for a divisor nprocs1", f_ok, f_why, **kw)
    chk.ob("N2-improvement-step", w2 or fn, "candidate accepted only within both bounds, as a pair", s_ok, s_why, **kw)

    # N3: no iteration of a search loop can leave the loop-carried state unchanged (it would repeat forever)
    mono = bool(second and second["mono"] and f_ok is True and s_ok is True and second["cand"] and second["cand"][1])
    for lp in [n for n in ast.walk(fn) if isinstance(n, ast.While)]:
        carried, stuck, npaths = lints.stuck_iterations(lp)
        stored = {n.id for n in ast.walk(lp) if isinstance(n, ast.Name) and isinstance(n.ctx, ast.Store)}
        for dec, end in stuck:
            # a path that takes a constant test against its value does not exist
            if any(isinstance(t, ast.Constant) and bool(t.value) != taken for t, taken in dec):
                continue
            # a state-preserving path that decides `new_n2 > max_proc2` is infeasible: new_n1 > nprocs1, so
            # new_n2 = mpi_size // new_n1 <= mpi_size // nprocs1 = nprocs2 <= max_proc2 (exit condition of the first loop, kept by every
            # acceptance); accepted only while the statements carrying that argument are in place.  Whether the argument is
            # recognised or not, a path of that shape is never reported as a violation: its feasibility is what is undecided.
            shape = discharged = False
            for t, taken in dec:
                for t2, tk in _facts(t, taken):
                    f = _cmp(t2, stored, tk)
                    if f and f[1] == "gt" and f[3] >= 0 and (len(P) != 3 or f[2] == P[1]):
                        shape = True
                        if mono and lp is w2 and f[0] == second["cand"][1]:
                            discharged = True
            if discharged:
                continue
            chk.ob("N3-no-stuck-iteration", dec[-1][0] if dec else lp, f"iteration path ending at {end}", None if shape else False,
                   "the state-preserving path of the refinement loop is infeasible only because new_n2 <= nprocs2 <= max_proc2; the statements "
                   "carrying that argument (first search loop, candidate scan starting at nprocs1 + 1, new_n2 = mpi_size // new_n1, acceptance "
                   "within both bounds) were not all recognised" if shape else
                   "the path " + " / ".join(f"`{src(t)}` is {v}" for t, v in dec) + f" reaches the next iteration ({end}) without changing any of the "
                   f"loop-carried values {sorted(carried)}: the same iteration repeats forever, the search does not terminate", **kw)
        chk.ob("N3-no-stuck-iteration", lp, f"while {src(lp.test)[:60]}", True, f"{npaths} iteration paths to the back edge examined; "
               f"loop-carried values {sorted(carried)}", nontrivial=False, **kw)
    # a `for` loop ends when its sequence does: the sequence must be a finite one that the body does not extend
    loops = [n for n in ast.walk(fn) if isinstance(n, (ast.While, ast.For))]
    for lp in [n for n in loops if isinstance(n, ast.For)]:
        it = lp.iter
        while isinstance(it, ast.Call) and isinstance(it.func, ast.Name) and it.func.id in ("enumerate", "reversed", "sorted", "list", "tuple") and it.args:
            it = it.args[0]
        root = _root_name(it) if isinstance(it, (ast.Name, ast.Attribute)) else None
        grown = [n for n in ast.walk(lp) if isinstance(n, ast.Call) and isinstance(n.func, ast.Attribute)
                 and n.func.attr in ("append", "extend", "insert") and _root_name(n.func.value) == root] if root else []
        finite = isinstance(it, (ast.Name, ast.Tuple, ast.List, ast.ListComp)) or (isinstance(it, ast.Subscript) and isinstance(it.slice, ast.Slice)) \
            or (isinstance(it, ast.Call) and src(it.func) in ("range", "zip", "np.arange", "numpy.arange") and not
                any(isinstance(a, ast.Call) and src(a.func).split(".")[-1] in ("count", "cycle", "repeat") for a in it.args))
        if grown:
            chk.ob("N3-no-stuck-iteration", grown[0], f"for {src(lp.target)} in {src(lp.iter)[:60]}", None,
                   f"`{src(grown[0])[:60]}` extends the sequence the loop runs over: cannot decide that the loop ends", **kw)
        else:
            chk.ob("N3-no-stuck-iteration", lp, f"for {src(lp.target)} in {src(lp.iter)[:60]}", True if finite else None,
                   "the loop runs once over a finite sequence (a list, slice, range or table built before it) that its body does not extend"
                   if finite else f"`{src(lp.iter)[:60]}` is not recognised as a finite sequence", nontrivial=False, **kw)
    if not loops:
        chk.ob("N3-no-stuck-iteration", fn, "no loop in the search", True,
               f"{fn.name} contains no `while` or `for` statement: every statement is executed at most once", nontrivial=False, **kw)


def run(chk):
    chk.explanation = (
        "Narrow structural claim: for each process-grid direction the dimensions under the min() that bounds it are exactly the "
        "dimensions the standard layout dictionaries of setups.py distribute along that direction; both set-up functions pass "
        "constants.npts and the layout communicator's size and use the result as the handler's grid; the failure test after the "
        "divisor scan is the negation of the scan's bound condition; the second extent is the exact quotient by a divisor; an "
        "improved candidate is accepted only where both bounds are known to hold, both extents together; no iteration path of a "
        "search loop reaches the back edge with the loop-carried state unchanged (a necessary condition of termination); no call "
        "changes a memoised or module-level table in place. The grid sizes handed to the search and the ones the layouts' grids "
        "are computed from are reads of the same state of the constants object. A search written over a table of candidate "
        "divisors (list comprehension, masked arange) is decided by the contents of the table (range, divisibility and "
        "admissibility filters, order) and the place of the raise (else of the walk, empty table, largest candidate). "
        "The rules work on a local normal form (tuple assignments split, loop "
        "invariants written back, comparisons as `v <= B + k`). Termination in general, optimality and 'raises exactly when none "
        "exists' over the whole input space quantify over divisor arithmetic and are not decided.")
    chk.in_file(U.PROCGRID)
    mod = chk.mod(U.PROCGRID)
    chk.func(U.PROCGRID, FROM_MAX)
    try:
        callers = [chk.mod(U.SETUPS).tree]
    except AnalysisError:
        callers = []
    nf_tree, nf = _normal_form(mod.tree, (GRID, FROM_MAX), callers)
    # the purity rule needs no recognition of the search: it runs first, so its verdict stands whatever the other rules can decide
    pure_search(chk, mod.tree, mod.func(FROM_MAX))
    if GRID in nf:
        layout_params, comm_param = bounds_vs_layouts(chk, nf, nf_tree) or (set(), False)
    else:
        # the two-step entry point is gone: the call sites are looked at for a direct call of the search with their own bounds
        layout_params, comm_param = set(), False
        if any(isinstance(n, ast.Call) and isinstance(n.func, ast.Name) and n.func.id == GRID for t in callers for n in ast.walk(t)):
            chk.ob("N1-bounds-cover-layouts", mod.tree, f"bounds of the two process directions in {GRID}", None,
                   f"{GRID} is called by the set-up code but not defined in {U.PROCGRID}: the bounds it hands to the search cannot be read",
                   file=U.PROCGRID, func="<module>")
    call_sites(chk, layout_params, comm_param)
    search_rules(chk, nf[FROM_MAX], nf_tree)
    chk.floor("N1-", 4)
    chk.floor("N2-", 4)
    chk.floor("N3-", 1)
    chk.floor("N4-", 2)
