import sys, os; sys.path.insert(0, os.getcwd())
import types
import numpy as np

# ---- fake mpi4py (no MPI library in the sandbox) ---------------------------
if 'mpi4py' not in sys.modules:
    _m = types.ModuleType('mpi4py')
    _MPI = types.ModuleType('mpi4py.MPI')

    class _Comm:
        def Get_rank(self): return 0
        def Get_size(self): return 1
        def __getattr__(self, name):
            def _f(*a, **k):
                raise RuntimeError('fake MPI: %s' % name)
            return _f
    _MPI.Comm = _Comm
    _MPI.COMM_WORLD = _Comm()
    _MPI.Cartcomm = _Comm
    _MPI.Intracomm = _Comm
    for _n in ('DOUBLE', 'SUM', 'MAX', 'MIN', 'IN_PLACE', 'INT', 'COMPLEX', 'DOUBLE_COMPLEX', 'BOOL'):
        setattr(_MPI, _n, _n)
    _m.MPI = _MPI
    _m.rc = types.SimpleNamespace(initialize=False, finalize=False)
    sys.modules['mpi4py'] = _m
    sys.modules['mpi4py.MPI'] = _MPI

import pygyro
assert os.path.abspath(pygyro.__file__).startswith(os.path.abspath(os.getcwd()) + os.sep), pygyro.__file__

from pygyro import splines as spl
from pygyro.advection.advection import PoloidalAdvection
from pygyro.initialisation.constants import Constants
from pygyro.initialisation.initialiser_funcs import f_eq

TWO_PI = 2*np.pi


def make_problem(nq=12, nr=10, rdom=(1.0, 14.5), deg=3, nz=2):
    """bsplines (r, q), eta_vals, constants"""
    domain = [list(rdom), [0, TWO_PI]]
    periodic = [False, True]
    npts = [nr, nq]
    nbreaks = [n+1+deg*(int(p)-1) for (n, p) in zip(npts, periodic)]
    breaks = [np.linspace(*lims, num=num) for (lims, num) in zip(domain, nbreaks)]
    knots = [spl.make_knots(b, deg, p) for b, p in zip(breaks, periodic)]
    bsplines = [spl.BSplines(k, deg, p, True) for k, p in zip(knots, periodic)]
    eta_vals = [bsplines[0].greville, bsplines[1].greville,
                np.linspace(0, 1, nz), np.linspace(0, 1, 4)]
    constants = Constants()
    constants.rMin = rdom[0]
    constants.rMax = rdom[1]
    if constants.CN0 is None:
        constants.getCN0()
    return bsplines, eta_vals, constants


def make_phi(bsplines, eta_vals, func):
    phi = spl.Spline2D(bsplines[1], bsplines[0])
    vals = func(np.atleast_2d(eta_vals[1]).T, np.atleast_2d(eta_vals[0]))
    vals = np.ascontiguousarray(np.broadcast_to(vals, (eta_vals[1].size, eta_vals[0].size)), dtype=float)
    spl.SplineInterpolator2D(bsplines[1], bsplines[0]).compute_interpolant(vals, phi)
    return phi


def feq(r, v, c):
    return f_eq(r, v, c.CN0, c.kN0, c.deltaRN0, c.rp, c.CTi, c.kTi, c.deltaRTi)


def reference_step(f, dt, phi, v, bsplines, eta_vals, c, nulEdge, explicit, tol=1e-10, maxit=10000):
    """Independent vectorised implementation of one poloidal advection step.
    Returns (new f, foot_r) ; foot_r is used to mask nodes near the boundary."""
    q = np.asarray(eta_vals[1], dtype=float)[:, None] + 0*np.asarray(eta_vals[0], dtype=float)[None, :]
    r = 0*q + np.asarray(eta_vals[0], dtype=float)[None, :]
    r0, r1 = float(eta_vals[0][0]), float(eta_vals[0][-1])
    fs = spl.Spline2D(bsplines[1], bsplines[0])
    spl.SplineInterpolator2D(bsplines[1], bsplines[0]).compute_interpolant(np.array(f, dtype=float), fs)
    ev = np.vectorize(lambda a, b, d1, d2: phi.eval(a, b, d1, d2), otypes=[float])

    def vel(qq, rr):
        inside = (rr >= r0) & (rr <= r1)
        rc = np.where(inside, rr, r0)
        qc = np.mod(qq, TWO_PI)
        dq = np.where(inside, -ev(qc, rc, 0, 1)/rc, 0.0)
        dr = np.where(inside, ev(qc, rc, 1, 0)/rc, 0.0)
        return dq, dr
    h = float(dt)/c.B0
    vq0, vr0 = vel(q, r)
    q1 = np.mod(q + h*vq0, TWO_PI)
    rr1 = r + h*vr0
    if explicit:
        vq1, vr1 = vel(q1, rr1)
        qf = np.mod(q + 0.5*h*(vq0+vq1), TWO_PI)
        rf = r + 0.5*h*(vr0+vr1)
    else:
        qk, rk = q1, rr1
        for it in range(maxit):
            vq1, vr1 = vel(qk, rk)
            qn = np.mod(q + 0.5*h*(vq0+vq1), TWO_PI)
            rn = np.clip(r + 0.5*h*(vr0+vr1), r0, r1)
            dq = np.abs(qn-qk)
            dq = np.where(dq > np.pi, TWO_PI-dq, dq)
            nrm = max(dq.max(), np.abs(rn-rk).max())
            qk, rk = qn, rn
            if not nrm > tol:
                break
        qf, rf = qk, rk
    evf = np.vectorize(lambda a, b: fs.eval(a, b), otypes=[float])
    inside = (rf >= r0) & (rf <= r1)
    out = np.empty_like(q)
    out[inside] = evf(np.mod(qf[inside], TWO_PI), rf[inside])
    low = rf < r0
    high = rf > r1
    if nulEdge:
        out[low] = 0.0
        out[high] = 0.0
    else:
        out[low] = feq(r0, v, c)
        if high.any():
            out[high] = np.vectorize(lambda x: feq(x, v, c), otypes=[float])(rf[high])
    return out, rf


def safe_mask(rf, eta_vals, eps=1e-9):
    r0, r1 = float(eta_vals[0][0]), float(eta_vals[0][-1])
    return (np.abs(rf-r0) > eps) & (np.abs(rf-r1) > eps)


def smooth_f(eta_vals, v, c, amp=0.3):
    q = np.atleast_2d(eta_vals[1]).T
    r = np.atleast_2d(eta_vals[0])
    return feq(r, v, c)*(1+amp*np.cos(2*q)*np.sin(0.4*r)) + 0.05*np.exp(-(r-7)**2/9)*(1+0.5*np.sin(q))


def phi_generic(q, r):
    return 0.8*r*r/2 + 1.5*np.sin(2*q)*np.exp(-(r-7.)**2/16) + 0.6*np.cos(q)*r


def phi_strong(q, r):
    return 1.5*np.sin(q)*r + 0.5*np.cos(3*q)*np.exp(-(r-4.)**2/9)


class Checker:
    def __init__(self):
        self.bad = 0
        self.n = 0

    def check(self, name, ok, info=''):
        self.n += 1
        if not ok:
            self.bad += 1
        print(('ok   ' if ok else 'FAIL ') + name + ('  ' + info if info else ''))

    def close(self, got, ref, mask, name, tol=1e-11):
        err = np.max(np.abs(got-ref)[mask]) if mask.any() else 0.0
        self.check(name, err <= tol, 'max|diff|=%.3e over %d nodes' % (err, mask.sum()))

    def finish(self):
        print('%d checks, %d failed' % (self.n, self.bad))
        sys.exit(1 if self.bad else 0)


def standard_checks(ck, configs=None):
    """Compare PoloidalAdvection.step with the reference on a spread of inputs."""
    bs, ev, c = make_problem()
    for nul in (True, False):
        for expl in (True, False):
            for phiname, pf in (('generic', phi_generic), ('strong', phi_strong)):
                phi = make_phi(bs, ev, pf)
                for dt in (0.7, -0.45):
                    v = 1.3
                    adv = PoloidalAdvection(ev, bs[::-1], c, nul, expl, 1e-10)
                    f = smooth_f(ev, v, c)
                    ref, rf = reference_step(f, dt, phi, v, bs, ev, c, nul, expl)
                    g = f.copy()
                    adv.step(g, dt, phi, v)
                    ck.close(g, ref, safe_mask(rf, ev),
                             'step nul=%s expl=%s phi=%s dt=%g' % (nul, expl, phiname, dt))
    # constant potential: identity
    phi = make_phi(bs, ev, lambda q, r: 3.0 + 0*q + 0*r)
    for expl in (True, False):
        adv = PoloidalAdvection(ev, bs[::-1], c, False, expl)
        f = smooth_f(ev, 0.5, c)
        g = f.copy()
        adv.step(g, 0.9, phi, 0.5)
        inner = np.ones(f.shape, bool); inner[:, 0] = False; inner[:, -1] = False
        ck.close(g, f, inner, 'constant phi identity expl=%s' % expl, 1e-10)
    # rigid rotation
    omega = 0.7
    phi = make_phi(bs, ev, lambda q, r: omega*r*r/2 + 0*q)
    for expl in (True, False):
        for dt in (0.8, -0.3):
            adv = PoloidalAdvection(ev, bs[::-1], c, True, expl)
            f = smooth_f(ev, 0.5, c)
            fs = spl.Spline2D(bs[1], bs[0])
            spl.SplineInterpolator2D(bs[1], bs[0]).compute_interpolant(f.copy(), fs)
            ref = np.array([[fs.eval((qq - omega*dt/c.B0) % TWO_PI, rr) for rr in ev[0]] for qq in ev[1]])
            g = f.copy()
            adv.step(g, dt, phi, 0.5)
            inner = np.ones(f.shape, bool); inner[:, 0] = False; inner[:, -1] = False
            ck.close(g, ref, inner, 'rigid rotation expl=%s dt=%g' % (expl, dt), 1e-9)


def flag_type_checks(ck):
    """The zero-boundary mode must be selected by any true flag value a caller
    may legally pass (numpy bool from a parsed configuration array, 1, ...)."""
    bs, ev, c = make_problem()
    flags = (('np.bool_(True)', np.bool_(True), True), ('np.array([True])[0]', np.array([True, False])[0], True),
             ('1', 1, True), ('np.bool_(False)', np.bool_(False), False), ('0', 0, False))
    for phiname, pf in (('generic', phi_generic), ('strong', phi_strong)):
        phi = make_phi(bs, ev, pf)
        for expl in (True, False):
            for label, flag, nul in flags:
                dt, v = 0.7, 1.3
                adv = PoloidalAdvection(ev, bs[::-1], c, flag, expl, 1e-10)
                f = smooth_f(ev, v, c)
                ref, rf = reference_step(f, dt, phi, v, bs, ev, c, nul, expl)
                nout = int(((rf < ev[0][0]) | (rf > ev[0][-1])).sum())
                g = f.copy()
                adv.step(g, dt, phi, v)
                ck.close(g, ref, safe_mask(rf, ev),
                         'nulEdge=%s expl=%s phi=%s (%d feet outside)' % (label, expl, phiname, nout))


if __name__ == '__main__':
    ck = Checker()
    standard_checks(ck)
    flag_type_checks(ck)
    ck.finish()
