"""C17 - diagnostics and global reductions equal serial quadrature of the global field."""
from __future__ import annotations

import ast

import sympy as sp

from ..core import src, AnalysisError, parent, guards_of, same_expr
from .. import units as U
from .. import ispace as I
from ..ispace import IS, Ctx, OTHER, eta_grid_tag, layout_param, G, L
from ..npsym import NpSym
from ..symx import alg_equal, Undecided

CLASSES = [(U.NORMS, "l2", "l2NormSquared"), (U.NORMS, "l1", "l1Norm"), (U.NORMS, "nParticles", "getN"),
           (U.ENERGY, "KineticEnergy", "getKE")]


def weight_windows(chk):
    for rel, cls, meth in CLASSES:
        fn = chk.func(rel, f"{cls}.__init__")
        env = {"eta_grid": eta_grid_tag(), "layout": layout_param()}
        a = IS(chk, rel, f"{cls}.__init__", fn, env, Ctx(dist_dims=None), {})
        a.run()
        # local weights are the [start:end) windows of the global trapezoid weights of r and v
        for name, d in (("mydrMult", 0), ("my_r", 0), ("mydvMult", 3), ("my_v", 3)):
            t = a.env.get(name)
            if t is None or t == OTHER:
                if name == "my_v" and cls != "KineticEnergy":
                    continue
                if name == "mydvMult" and cls == "l2":
                    # defined under `if layout.ndims == 4`
                    pass
            if I.is_arr(t):
                ok = t[1] == (L(d),)
                chk.ob("C-window", fn, f"{cls}: {name}", ok, f"`{name}` is the local block of the global {I.DIMNAMES[d]} table" if ok else
                       f"`{name}` is {I.tname(t)}, not the local block of the {I.DIMNAMES[d]} table", file=rel, func=f"{cls}.__init__")
        # placement of the (r, v) outer product on the axes idx_r, idx_v
        flats = [n for n in ast.walk(fn) if isinstance(n, ast.Assign) and src(n.targets[0]) == "self._factor1.flat"]
        idxr = [n for n in fn.body if isinstance(n, ast.Assign) and src(n.targets[0]) == "idx_r"]
        okr = bool(idxr) and src(idxr[0].value) == "layout.inv_dims_order[0]"
        badr = None
        if idxr and not okr and isinstance(idxr[0].value, ast.Subscript) and src(idxr[0].value.value) in ("layout.inv_dims_order", "layout.dims_order"):
            badr = f"`{src(idxr[0])}`: idx_r is not the axis carrying dimension 0 (r) in this layout"
        chk.pat("C-sort", idxr[0] if idxr else fn, f"{cls}: idx_r = layout.inv_dims_order[0]", okr,
                "the axis carrying r in this layout", badr, file=rel, func=f"{cls}.__init__")
        n4 = 0
        for fl in flats:
            gs = [(src(t).replace(" ", "").replace("(", "").replace(")", ""), pol) for t, pol, k in guards_of(fl)]
            a2 = IS(_Mute(), rel, f"{cls}.__init__", fn, env, Ctx(dist_dims=None), {})
            a2.run()
            a2.chk = chk
            a2.nobs = 0
            val = fl.value
            if isinstance(val, ast.Attribute) and val.attr == "flat":
                val = val.value
            t = a2.ev(val)
            order = None
            for gtxt, pol in gs:
                if gtxt == "idx_r<idx_v":
                    order = "rv" if pol else "vr"
                if gtxt == "idx_v<idx_r":
                    order = "vr" if pol else "rv"
            if I.is_arr(t) and len(t[1]) == 2:
                n4 += 1
                want = (L(0), L(3)) if order == "rv" else (L(3), L(0)) if order == "vr" else None
                ok = want is not None and t[1] == want
                chk.ob("C-axis-placement", fl, f"{cls}: _factor1.flat [{order or 'unguarded'}]", ok,
                       f"the outer product is {I.tname(t)} in the branch where the axes are ordered {order}: flat (C-order) filling "
                       "puts each weight on its own (r,v) point" if ok else
                       (f"the outer product {I.tname(t)} is written in C order without distinguishing whether the r axis precedes the v "
                        "axis: in a layout where v precedes r the weights are permuted among the (r,v) points (total preserved)"
                        if order is None else f"branch `{order}` fills {I.tname(t)}"), file=rel, func=f"{cls}.__init__")
            elif I.is_arr(t) and len(t[1]) == 1:
                ok = t[1] == (L(0),)
                chk.ob("C-axis-placement", fl, f"{cls}: _factor1.flat [3-D]", ok, "only r is weighted for the 3-D potential" if ok else
                       f"3-D weights are {I.tname(t)}", file=rel, func=f"{cls}.__init__")
        # shape = [1,..]; shape[idx_r] = mydrMult.size; shape[idx_v] = mydvMult.size
        t_ = src(fn).replace(" ", "").replace("\n", ";")
        oks = "shape[idx_r]=mydrMult.size" in t_ and ("shape[idx_v]=mydvMult.size" in t_) and "self._factor1=np.empty(shape)" in t_
        chk.pat("C-axis-placement", fn, f"{cls}: broadcast shape", oks, "weights live on the r and v axes of the layout, unit extent elsewhere",
                file=rel, func=f"{cls}.__init__")
        if cls != "l2" and n4 < 2:
            chk.ob("C-axis-placement", fn, f"{cls}: two axis orders", False if flats else None,
                   "the weights are filled in one C order only, whatever the order of the r and v axes in the layout", file=rel,
                   func=f"{cls}.__init__")


class _Mute:
    functions = set()

    def ob(self, *a, **k):
        pass


def weight_formulas(chk):
    """trapezoid weights, Jacobian, dq*dz (and v^2/2) as normal forms; sibling agreement"""
    forms = {}
    for rel, cls, meth in CLASSES:
        fn = chk.func(rel, f"{cls}.__init__")
        x = sp.Function("x")
        # trapezoid: np.array([d[0]*0.5, *((d[1:]+d[:-1])*0.5), d[-1]*0.5]) with d = x[1:]-x[:-1]
        for nm, base, dname in (("drMult", "r", "dr"), ("dvMult", "v", "dv")):
            asg = [n for n in ast.walk(fn) if isinstance(n, ast.Assign) and src(n.targets[0]) == nm]
            dd = [n for n in ast.walk(fn) if isinstance(n, ast.Assign) and src(n.targets[0]) == dname]
            if not asg:
                if nm == "dvMult" and cls == "l2":
                    continue
                chk.ob("F9-trapezoid-weights", fn, f"{cls}: {nm}", None, f"`{nm}` not defined under that name: the construction of the "
                       "trapezoid weights was not recognised", file=rel, func=f"{cls}.__init__")
                continue
            v = src(asg[0].value).replace(" ", "")
            want = f"np.array([{dname}[0]*0.5, *(({dname}[1:]+{dname}[:-1])*0.5), {dname}[-1]*0.5])"
            okd = bool(dd) and src(dd[0].value).replace(" ", "") == f"{base}[1:]-{base}[:-1]"
            srcs = {"r": "eta_grid[0]", "v": "eta_grid[3]"}
            bdef = [n for n in ast.walk(fn) if isinstance(n, ast.Assign) and src(n.targets[0]) == base]
            okb = bool(bdef) and src(bdef[0].value) == srcs[base]
            ok = same_expr(asg[0].value, want) and okd and okb
            chk.ob("F9-trapezoid-weights", asg[0], f"{cls}: {nm}", ok,
                   f"weights of the global {base} grid: [D_0/2, (D_k + D_(k-1))/2, D_last/2]" if ok else
                   f"`{nm}` = {v} (differences ok={okd}, global grid ok={okb})", file=rel, func=f"{cls}.__init__")
        t_ = src(fn).replace(" ", "").replace("\n", ";")
        f2 = [n for n in ast.walk(fn) if isinstance(n, ast.Assign) and src(n.targets[0]) == "self._factor2"]
        dq, dz = sp.symbols("dq dz")
        okq = "dq=q[2]-q[1]" in t_ and "dz=z[2]-z[1]" in t_ and "q=eta_grid[1]" in t_ and "z=eta_grid[2]" in t_
        got = None
        if f2:
            try:
                got = NpSym(env={"dq": dq, "dz": dz}).ev(f2[0].value)
            except Undecided:
                got = None
        want = dq * dz * (sp.Rational(1, 2) if cls == "KineticEnergy" else 1)
        ok2 = (got is not None and alg_equal(got, want) and okq) if got is not None else None
        chk.ob("F9-volume-factor", f2[0] if f2 else fn, f"{cls}: _factor2", ok2,
               ("1/2 " if cls == "KineticEnergy" else "") + "dq dz (uniform periodic theta and z: rectangle rule)" if ok2 else
               f"_factor2 = {got}, expected {want}; dq/dz definitions ok={okq}", file=rel, func=f"{cls}.__init__")
        # the r Jacobian and (KE) v^2 inside the outer product
        fl_nodes = [n.value for n in ast.walk(fn) if isinstance(n, ast.Assign) and src(n.targets[0]) == "self._factor1.flat"]
        flats = [src(v).replace(" ", "") for v in fl_nodes]

        def has_prod(e, *factors):
            """a product whose operands are exactly `factors` (in any order) occurs in e"""
            for x in ast.walk(e):
                if any(same_expr(x, " * ".join(perm)) for perm in __import__("itertools").permutations(factors)):
                    return True
            return False

        def names_in(e):
            return {x.id for x in ast.walk(e) if isinstance(x, ast.Name)}
        if cls == "KineticEnergy":
            okj = all(has_prod(f, "mydrMult", "my_r") and has_prod(f, "mydvMult", "my_v ** 2") for f in fl_nodes) and len(flats) == 2
            what = "w_r r x w_v v^2"
        elif cls == "l2":
            okj = sum(has_prod(f, "mydrMult", "my_r") and "mydvMult" in names_in(f) for f in fl_nodes) == 2 and \
                any(same_expr(f, "mydrMult * my_r") for f in fl_nodes)
            what = "w_r r x w_v (4-D) / w_r r (3-D)"
        else:
            okj = all(has_prod(f, "mydrMult", "my_r") and "mydvMult" in names_in(f) and "my_v" not in names_in(f) for f in fl_nodes) and len(flats) == 2
            what = "w_r r x w_v"
        chk.ob("F9-jacobian", fn, f"{cls}: _factor1 integrand weights", okj if flats else None, what if okj else f"weights are {flats}", file=rel,
               func=f"{cls}.__init__")
        # integrand of the norm method
        m = chk.func(rel, f"{cls}.{meth}")
        pts = [n for n in ast.walk(m) if isinstance(n, ast.Assign) and src(n.targets[0]) == "points"]
        ret = [n for n in ast.walk(m) if isinstance(n, ast.Return)]
        arg = m.args.args[1].arg
        f_, w = sp.symbols("f w")
        fbar = sp.Symbol("fbar")
        n_ = NpSym(env={}, hooks={f"{arg}._f": f_, f"{arg}._f.conj()": fbar, "self._factor1": w,
                                   f"np.real({arg}._f)": sp.Symbol("Ref"), f"np.abs(np.real({arg}._f))": sp.Symbol("AbsRef"),
                                   f"np.real({arg}._f * {arg}._f.conj())": sp.Symbol("Abs2"),
                                   f"np.real({arg}._f.conj() * {arg}._f)": sp.Symbol("Abs2")})
        want_i = {"l2": sp.Symbol("Abs2") * w, "l1": sp.Symbol("AbsRef") * w, "nParticles": sp.Symbol("Ref") * w,
                  "KineticEnergy": sp.Symbol("Ref") * w}[cls]
        oki = False
        got_i = None
        if pts:
            try:
                got_i = n_.ev(pts[0].value)
                oki = alg_equal(got_i, want_i)
            except Undecided as e:
                got_i = str(e)
        okr = len(ret) == 1 and same_expr(ret[0].value, "np.sum(points) * self._factor2")
        oka = any(isinstance(n, ast.Assert) and src(n.test).replace(" ", "") == f"self._layout=={arg}.currentLayout" for n in m.body)
        chk.ob("F9-integrand", pts[0] if pts else m, f"{cls}.{meth}", oki and okr and oka,
               {"l2": "|f|^2", "l1": "|Re f|", "nParticles": "Re f", "KineticEnergy": "Re f"}[cls] +
               " x local weights, summed, x volume factor; refused in any layout other than the one the weights were built for"
               if oki and okr and oka else f"integrand {got_i}, sum/scale ok={okr}, layout assert ok={oka}", file=rel, func=f"{cls}.{meth}")


def collector(chk):
    col = chk.func(U.DIAG, "DiagnosticCollector.collect")
    red = chk.func(U.DIAG, "DiagnosticCollector.reduce")
    gl = chk.func(U.DIAG, "DiagnosticCollector.getLine")
    init = chk.func(U.DIAG, "DiagnosticCollector.__init__")
    rows = {}
    for n in ast.walk(col):
        if isinstance(n, ast.Assign) and isinstance(n.targets[0], ast.Subscript) and src(n.targets[0].value) == "self.diagnostics":
            k, slot = n.targets[0].slice.elts
            if not isinstance(k, ast.Constant):
                rows = None
                break
            rows[k.value] = (src(slot), src(n.value).replace(" ", ""))
    want = {0: "t", 1: "self.l2_phi_class.l2NormSquared(phi)", 2: "self.l2_grid_class.l2NormSquared(f)", 3: "self.l1class.l1Norm(f)",
            4: "self.npart.getN(f)", 5: "f.getMin()", 6: "f.getMax()", 7: "self.KEclass.getKE(f)"}
    ok = None if rows is None else ({k: v[1] for k, v in rows.items()} == want and len({v[0] for v in rows.values()}) == 1)
    chk.ob("E6-diagnostic-rows", col, "collect: rows 0..7", ok, "the eight documented quantities are written to rows 0..7 of one slot"
           if ok else (f"rows written: {rows}" if rows is not None else "rows are written through a computed row index: not recognised"),
           file=U.DIAG, func="DiagnosticCollector.collect")
    reds = []
    for c in ast.walk(red):
        if isinstance(c, ast.Call) and isinstance(c.func, ast.Attribute) and c.func.attr == "Reduce":
            s_ = c.args[0]
            row = s_.slice.elts[0].value if isinstance(s_, ast.Subscript) and isinstance(s_.slice, ast.Tuple) and \
                isinstance(s_.slice.elts[0], ast.Constant) else None
            op = [src(k.value) for k in c.keywords if k.arg == "op"]
            root = [src(k.value) for k in c.keywords if k.arg == "root"]
            reds.append((row, src(c.args[1]), op[0] if op else None, root[0] if root else None))
    want_r = [(1, "self.l2PhiResult", "MPI.SUM", "0"), (2, "self.l2GridResult", "MPI.SUM", "0"), (3, "self.l1Result", "MPI.SUM", "0"),
              (4, "self.nPartResult", "MPI.SUM", "0"), (5, "self.min_val", "MPI.MIN", "0"), (6, "self.max_val", "MPI.MAX", "0"),
              (7, "self.KE_val", "MPI.SUM", "0")]
    okr = (reds == want_r) if all(r_[0] is not None for r_ in reds) and reds else None
    chk.ob("E6-diagnostic-rows", red, "reduce: op per row", okr, "sums for the four integrals and the energy, MIN/MAX for the extrema, "
           "each row into its own result array on rank 0" if okr else f"reductions: {reds}", file=U.DIAG, func="DiagnosticCollector.reduce")
    t = src(red).replace(" ", "").replace("\n", ";")
    oks = t.count("np.sqrt") == 2 and "self.l2PhiResult=np.sqrt(self.l2PhiResult)" in t and "self.l2GridResult=np.sqrt(self.l2GridResult)" in t
    last_reduce = max((c.lineno for c in ast.walk(red) if isinstance(c, ast.Call) and isinstance(c.func, ast.Attribute) and c.func.attr == "Reduce"), default=0)
    sq = [n for n in ast.walk(red) if isinstance(n, ast.Call) and src(n.func) == "np.sqrt"]
    oks = oks and all(n.lineno > last_reduce for n in sq)
    chk.ob("E6-diagnostic-rows", red, "sqrt after reduction", oks, "the square root is applied to the two L2 rows only, after the global "
           "sum of the squared norms" if oks else "square roots are not applied exactly to the two reduced L2 rows", file=U.DIAG,
           func="DiagnosticCollector.reduce")
    tg = src(gl).replace(" ", "")
    okg = "t=self.diagnostics[0,i],l2P=self.l2PhiResult[i],l2G=self.l2GridResult[i],l1=self.l1Result[i],np=self.nPartResult[i],minim=self.min_val[i],maxim=self.max_val[i],ke=self.KE_val[i]" in tg \
        and [x for x in ("{t:", "{l2P:", "{l2G:", "{l1:", "{np:", "{minim:", "{maxim:", "{ke:") if x in tg] == ["{t:", "{l2P:", "{l2G:", "{l1:", "{np:", "{minim:", "{maxim:", "{ke:"] \
        and tg.index("{t:") < tg.index("{l2P:") < tg.index("{l2G:") < tg.index("{l1:") < tg.index("{np:") < tg.index("{minim:") < tg.index("{maxim:") < tg.index("{ke:")
    chk.ob("E6-diagnostic-rows", gl, "getLine: column order", okg, "columns are printed in the documented order from the reduced arrays of slot i"
           if okg else "printed columns do not match the documented order/arrays", file=U.DIAG, func="DiagnosticCollector.getLine")
    ti = src(init).replace(" ", "").replace("\n", ";")
    oki = "self.l2_phi_class=l2(phi.eta_grid,phi.getLayout('v_parallel_2d'))" in ti and ti.count("distribFunc.getLayout('v_parallel')") == 4 \
        and "self.diagnostics=np.zeros([8,saveStep])" in ti
    chk.ob("E6-diagnostic-rows", init, "norm objects and their layouts", oki, "potential norm for layout v_parallel_2d, the four "
           "distribution diagnostics for v_parallel; 8 rows x saveStep slots" if oki else "construction of the norm objects changed",
           file=U.DIAG, func="DiagnosticCollector.__init__")


def extrema(chk):
    from .. import lints
    for m, neutral, op, red in (("getMin", "np.inf", "MPI.MIN", "np.amin"), ("getMax", "-np.inf", "MPI.MAX", "np.amax")):
        fn = chk.func(U.GRID, f"Grid.{m}")
        # a query: nothing reachable from the grid is modified, so the answer does not depend on earlier requests
        muts = lints.shared_state_mutations(fn, lambda s_: s_.startswith("self."))
        chk.ob("E7-query-purity", muts[0][0] if muts else fn, f"Grid.{m} modifies nothing of the grid", not muts,
               "the slice index is built in a fresh local list" if not muts else "; ".join(d for _, d in muts)[:300] +
               " - the index list is kept by the grid: an axis fixed by an earlier request stays fixed in later ones, which then report "
               "the extremum of the intersection of the slices", file=U.GRID, func=f"Grid.{m}")
        calls = [c for c in ast.walk(fn) if isinstance(c, ast.Call) and isinstance(c.func, ast.Attribute) and c.func.attr == "reduce"]
        bad = []
        unknown = []
        for c in calls:
            a0 = src(c.args[0]).replace(" ", "")
            opk = [src(k.value) for k in c.keywords if k.arg == "op"]
            if not opk or opk[0] != op:
                bad.append(f"`{src(c)[:60]}` does not reduce with {op}")
            gs = [(src(t).replace(" ", "").replace("(", "").replace(")", ""), pol) for t, pol, k in guards_of(c)]
            owns = True
            for gtxt, pol in gs:
                if gtxt == "self._f.size==0" and pol:
                    owns = False
                if gtxt == "hasData" and not pol:
                    owns = False
            literal = a0 in ("np.inf", "-np.inf", "0", "0.0", "np.nan", "None") or a0.lstrip("-").replace(".", "").isdigit()
            if owns:
                if not (a0.startswith(red + "(np.real(self._f")):
                    if literal or a0.startswith(("np.amin(", "np.amax(", "np.min(", "np.max(")):
                        bad.append(f"owning arm contributes `{a0}` instead of {red}(real(local values))")
                    else:
                        unknown.append(a0)
            else:
                if a0 != neutral:
                    if literal:
                        bad.append(f"non-owning arm contributes `{a0}` instead of the neutral element {neutral}")
                    else:
                        unknown.append(a0)
        okn = False if bad else (True if len(calls) == 4 and not unknown else None)
        chk.ob("E7-neutral-element", fn, f"Grid.{m}: contributions of the {len(calls)} arms", okn,
               f"ranks that own part of the slice contribute their local extremum, all others the neutral element {neutral}" if okn
               else ("; ".join(bad) or f"{len(calls)} reduce arm(s) found; contributions {unknown or ''} not recognised"), file=U.GRID, func=f"Grid.{m}")
        # ownership flag: latched False as soon as one fixed index is outside the local block
        inits = [n for n in ast.walk(fn) if isinstance(n, ast.Assign) and src(n.targets[0]) == "hasData"]
        loop = [n for n in ast.walk(fn) if isinstance(n, ast.For)]
        in_loop = [n for n in inits if loop and any(n in ast.walk(l) for l in loop)]
        pre = [n for n in inits if n not in in_loop]
        okl = len(pre) == 1 and src(pre[0].value) == "True" and in_loop and all(src(n.value) == "False" for n in in_loop)
        if not inits:
            okl = None
        elif not okl and not (in_loop and any(src(n.value) != "False" for n in in_loop)):
            okl = None
        chk.ob("E7-ownership-latch", fn, f"Grid.{m}: hasData", okl,
               "hasData starts True and can only be cleared inside the loop over fixed axes: a rank owns the slice iff it owns every fixed index"
               if okl else "hasData is re-assigned from the last fixed axis only: a rank that misses an earlier fixed index but owns the "
               "last one contributes values from outside the slice", file=U.GRID, func=f"Grid.{m}")
        t = src(fn).replace(" ", "").replace("\n", ";")
        oki = "dim=self._layout.inv_dims_order[ax]" in t and "idx[dim]=(fix-self._layout.starts[dim],)" in t and \
            "if(fix>=self._layout.starts[dim]andfix<self._layout.ends[dim])" in t.replace("iffix>=", "if(fix>=").replace("ends[dim]:", "ends[dim]):")
        chk.pat("E7-slice-index", fn, f"Grid.{m}: fixed index -> local index", oki,
                "the fixed global index of dimension ax is looked up on the axis carrying ax and converted to a local index with that axis' start",
                file=U.GRID, func=f"Grid.{m}")


def run(chk):
    chk.explanation = (
        "Engine C on the four diagnostic constructors: local weights are the [start:end) windows of the global trapezoid weights "
        "of r and v taken on the axes carrying r and v, and the flat (C-order) fill of the (r,v) outer product distinguishes the "
        "two axis orders; formula conformance of trapezoid weights, r Jacobian, dq dz (and v^2/2) and of the four integrands, "
        "agreeing across the sibling classes; rows/ops/arrays/column order of DiagnosticCollector and sqrt only after reduction; "
        "neutral elements, ownership latch and index conversion of Grid.getMin/getMax. The slot<->step relation of the driver's "
        "printing and the analytic volume factors are not decided.")
    chk.in_file(U.NORMS)
    weight_windows(chk)
    weight_formulas(chk)
    collector(chk)
    extrema(chk)
    chk.floor("C-window", 12)
    chk.floor("C-axis-placement", 10)
    chk.floor("F9-", 18)
    chk.floor("E6-", 5)
    chk.floor("E7-", 6)
