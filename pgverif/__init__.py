"""pgverif - repository-specific static checkers for pygyro (properties C01-C20).

Nothing under /repo is imported or executed: every check parses the sources
with ``ast`` on each run and discharges obligations against the syntax tree.
"""
