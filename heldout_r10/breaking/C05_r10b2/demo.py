import sys, os; sys.path.insert(0, os.getcwd())
import types
import itertools
import numpy as np

# ---------------------------------------------------------------- fake mpi4py
_mpi4py = types.ModuleType('mpi4py')
_MPI = types.ModuleType('mpi4py.MPI')


class _Comm:
    def Get_rank(self):
        return 0

    def Get_size(self):
        return 1


_MPI.Comm = _Comm
_MPI.Intracomm = _Comm
_MPI.Cartcomm = _Comm
_MPI.COMM_WORLD = _Comm()
_MPI.__dict__['__getattr__'] = lambda name: _Comm
_mpi4py.MPI = _MPI
sys.modules['mpi4py'] = _mpi4py
sys.modules['mpi4py.MPI'] = _MPI

import pygyro  # noqa: E402
assert os.path.realpath(pygyro.__file__).startswith(os.path.realpath(os.getcwd()) + os.sep), pygyro.__file__

from math import pi  # noqa: E402
from pygyro import splines as spl  # noqa: E402
from pygyro.model.layout import Layout  # noqa: E402
from pygyro.model.grid import Grid  # noqa: E402
from pygyro.initialisation.constants import Constants  # noqa: E402


# ------------------------------------------------- serial simulation of ranks
class Manager:
    """ Minimal layout manager: the layouts of ONE simulated rank """

    def __init__(self, layouts):
        self._layouts = {l.name: l for l in layouts}
        self.bufferSize = max(l.size for l in layouts)

    def getLayout(self, name):
        return self._layouts[name]


def make_constants(npts, iotaVal):
    c = Constants()
    c.npts = list(npts)
    c.iotaVal = iotaVal
    return c


def make_space(constants):
    domain = [[constants.rMin, constants.rMax], [0, 2*pi],
              [constants.zMin, constants.zMax], [constants.vMin, constants.vMax]]
    degree = constants.splineDegrees
    period = [False, True, True, False]
    nkts = [n+1+d*(int(p)-1) for (n, d, p) in zip(constants.npts, degree, period)]
    breaks = [np.linspace(*lims, num=num) for (lims, num) in zip(domain, nkts)]
    knots = [spl.make_knots(b, d, p) for (b, d, p) in zip(breaks, degree, period)]
    bsplines = [spl.BSplines(k, d, p, True) for (k, d, p) in zip(knots, degree, period)]
    eta_grids = [b.greville for b in bsplines]
    return eta_grids, bsplines


def local_grid(name, dims_order, nprocs, coords, eta_grids, bsplines, dtype=float):
    """ Grid of the simulated rank with cartesian coordinates coords """
    lay = Layout(name, list(nprocs), list(dims_order), eta_grids, list(coords))
    g = Grid(eta_grids, bsplines, Manager([lay]), name, _Comm(), dtype=dtype)
    return g, lay


def block(lay):
    return tuple(slice(s, e) for s, e in zip(lay.starts, lay.ends))


def ranks(nprocs):
    return itertools.product(*[range(n) for n in nprocs])


def maxdiff(a, b):
    return float(np.max(np.abs(a-b)))

# ============================================================= poisson demo
from pygyro.poisson.poisson_solver import DensityFinder, QuasiNeutralitySolver  # noqa: E402
from pygyro.initialisation import initialiser_funcs as ifun  # noqa: E402
from pygyro.splines.spline_interpolators import SplineInterpolator1D  # noqa: E402

NPTS = [10, 8, 4, 9]
GRIDS = [(1, 1), (2, 1), (1, 2), (2, 2), (4, 1), (3, 2), (8, 1), (8, 4), (5, 3)]
TOL = 1e-12


def run_density(nprocs, F, eta, bspl, cst):
    out = np.empty(F.shape[:3], complex)
    for c in ranks(nprocs):
        g, lay = local_grid('v_parallel', [0, 2, 1, 3], nprocs, c, eta, bspl)
        rho, rlay = local_grid('v_parallel_2d', [0, 2, 1], nprocs, c, eta[:3], bspl[:3], dtype=complex)
        g.getAllData()[:] = F[block(lay)]
        DensityFinder(6, bspl[3], eta, cst).getPerturbedRho(g, rho)
        out[block(rlay)] = rho.getAllData()
    return out


def run_modes_and_solve(nprocs, RHO, eta, bspl, cst, ncalls=2):
    """ RHO [r,z,theta] -> Fourier modes -> quasi-neutrality solve, [theta,z,r] """
    modes = np.empty_like(RHO)
    for c in ranks(nprocs):
        rho, rlay = local_grid('v_parallel_2d', [0, 2, 1], nprocs, c, eta[:3], bspl[:3], dtype=complex)
        rho.getAllData()[:] = RHO[block(rlay)]
        QuasiNeutralitySolver.getModes(rho)
        modes[block(rlay)] = rho.getAllData()
    M = np.ascontiguousarray(modes.transpose(2, 1, 0))   # the remap to 'mode_solve'
    out = np.empty_like(M)
    for c in ranks(nprocs):
        rho, rlay = local_grid('mode_solve', [1, 2, 0], nprocs, c, eta[:3], bspl[:3], dtype=complex)
        phi, play = local_grid('mode_solve', [1, 2, 0], nprocs, c, eta[:3], bspl[:3], dtype=complex)
        solver = QuasiNeutralitySolver(eta[:3], 7, bspl[0], cst, chi=0)
        for _ in range(ncalls):      # the solver object is reused every time step
            rho.getAllData()[:] = M[block(rlay)]
            phi.getAllData()[:] = 0
            solver.solveEquation(phi, rho)
        out[block(play)] = phi.getAllData()
    return out


def ref_density(F, eta, bspl, cst):
    q = SplineInterpolator1D(bspl[3]).get_quadrature_coefficients()
    feq = np.array([[ifun.f_eq(r, v, cst.CN0, cst.kN0, cst.deltaRN0, cst.rp, cst.CTi, cst.kTi, cst.deltaRTi)
                     for v in eta[3]] for r in eta[0]])
    return np.einsum('rzqv,v->rzq', F-feq[:, None, None, :], q).astype(complex)


def ref_solve(RHO, eta, bspl, cst):
    """ every (mode, z) line solved on its own by a brand-new solver: no state
        can be carried from one mode to another """
    M = np.ascontiguousarray(np.fft.fft(RHO, axis=2).transpose(2, 1, 0))
    out = np.empty_like(M)
    full = (NPTS[1], NPTS[2])
    for c in ranks(full):
        rho, rlay = local_grid('mode_solve', [1, 2, 0], full, c, eta[:3], bspl[:3], dtype=complex)
        phi, play = local_grid('mode_solve', [1, 2, 0], full, c, eta[:3], bspl[:3], dtype=complex)
        rho.getAllData()[:] = M[block(rlay)]
        QuasiNeutralitySolver(eta[:3], 7, bspl[0], cst, chi=0).solveEquation(phi, rho)
        out[block(play)] = phi.getAllData()
    return out


def poisson_check(expected=None):
    bad = []
    cst = make_constants(NPTS, 0.0)
    eta, bspl = make_space(cst)
    rng = np.random.default_rng(99)
    nr, nq, nz, nv = NPTS
    feq = np.array([[ifun.f_eq(r, v, cst.CN0, cst.kN0, cst.deltaRN0, cst.rp, cst.CTi, cst.kTi, cst.deltaRTi)
                     for v in eta[3]] for r in eta[0]])
    F = feq[:, None, None, :]*(1+0.1*rng.standard_normal((nr, nz, nq, nv)))
    rrho = ref_density(F, eta, bspl, cst)
    rphi = ref_solve(rrho, eta, bspl, cst)
    scale = np.max(np.abs(rphi))
    assert scale > 0
    for nprocs in GRIDS:
        d = {'density': maxdiff(run_density(nprocs, F, eta, bspl, cst), rrho)/np.max(np.abs(rrho)),
             'quasi-neutrality': maxdiff(run_modes_and_solve(nprocs, rrho, eta, bspl, cst), rphi)/scale}
        for k, v in d.items():
            if not v <= TOL:
                bad.append((nprocs, k, v))
    for b in bad:
        print("MISMATCH process grid %s operator %s: relative max diff %.3e" % b)
    return bad


if __name__ == '__main__':
    bad = poisson_check()
    print("C05 density / quasi-neutrality vs global reference:", "VIOLATED" if bad else "holds")
    sys.exit(1 if bad else 0)
