"""Engine B: SPMD collective matching (rank-variation labels + balanced arms).

Every value gets a *variation label*: the set of sources by which it may differ
between the ranks of one communicator.  A collective call site must not be
control dependent on a non-uniform condition unless the region it governs is
*balanced* (every alternative issues the same sequence of collectives).
See DESIGN.md 4.1.
"""
from __future__ import annotations

import ast
import re
from dataclasses import dataclass, field

from .core import src, parent, AnalysisError
from .resolve import Program
from . import units as U

RANK, AXIS, DATA, CLOCK, FS, HASH = "RANK", "AXIS", "DATA", "CLOCK", "FS", "HASH"
NONUNIFORM = {RANK, AXIS, DATA, CLOCK, HASH}      # FS is uniform under the shared-file-system assumption

COLLECTIVE_OPS = {
    "Create_cart", "Create_graph", "Sub", "Split", "Dup", "Create", "Barrier", "barrier",
    "Alltoall", "Alltoallv", "Alltoallw", "alltoall", "Allgather", "Allgatherv", "allgather",
    "Allreduce", "allreduce", "Reduce", "reduce", "Reduce_scatter", "Bcast", "bcast",
    "Gather", "gather", "Gatherv", "Scatter", "scatter", "Scatterv", "Scan", "Exscan", "scan", "exscan",
}
ROOTED = {"Reduce", "reduce", "Bcast", "bcast", "Gather", "gather", "Gatherv", "Scatter", "scatter", "Scatterv"}
# result identical on all ranks of the communicator
SANITISERS = {"Allreduce", "allreduce", "Bcast", "bcast", "allgather", "Allgather", "Get_size"}
# root position when passed positionally (after the buffers)
ROOT_POS = {"Reduce": 3, "reduce": 2, "Bcast": 1, "bcast": 1, "Gather": 2, "gather": 1, "Gatherv": 2,
            "Scatter": 2, "scatter": 1, "Scatterv": 2}
COMM_RE = re.compile(r"comm|topology|COMM_WORLD|cart", re.I)

RANKDEP_ATTR = {"starts": AXIS, "ends": AXIS, "shape": AXIS, "size": AXIS, "ranks": RANK, "mpiCoords": RANK,
                "_mpi_coords": RANK, "rank": RANK, "_f": DATA, "_starts": AXIS, "_ends": AXIS, "_shape": AXIS,
                "_size": AXIS, "_ranks": RANK, "_my_data": DATA}
UNIFORM_ATTR = {"max_block_shape", "max_block_size", "fullShape", "nprocs", "dims_order", "inv_dims_order",
                "ndims", "name", "nProcs", "nDistributedDirections", "_max_shape", "_max_size", "_full_shape",
                "_nprocs", "_dims_order", "_inv_dims_order", "_ndims", "_name", "nLayouts", "availableLayouts",
                "mpi_size", "nGlobalCoords", "_nGlobalCoords", "eta_grid", "_Vals", "hasSaveMemory"}
UNIFORM_CALLS = {"mpi_starts", "mpi_lengths", "Get_size", "len", "range", "isinstance", "hasattr", "int", "float",
                 "str", "format", "max", "min", "sum", "abs", "list", "tuple", "dict", "sorted", "enumerate", "zip"}

# the single reasoned exemption of DESIGN 4.1
EXEMPT_GUARDS = {
    ("self._buffer_size == 0", "transpose"):
        "zero only on the plot-only rank, whose communicators are singletons (precondition p <= n)",
}


# ---------------------------------------------------------------------------------------------------------------------------
# AUDIT (label domain).  A label set is a MAY description: "the value can differ between ranks through these sources".  Two more
# elements make the domain three-valued:
#   "!L"  (L one of NONUNIFORM): the label L was ESTABLISHED: it comes from an explicit source the engine models (Get_rank, a
#         clock, the block geometry read from an object known to be a layout / grid, the iteration order of a set of strings)
#         through constructs the engine models.  L without "!L" is a label attached by a heuristic (an attribute called `size`
#         read from an object of unknown type, hash() of a value of unknown type, a random draw in a unit that seeds a generator,
#         a trip count read off the CONTENT labels of an iterable): it says "may vary", it does not establish it.
#   UNK   the value went through a construct the engine does not model (a call it cannot resolve and does not know, an attribute
#         of an object of unknown type with no assignment in the class, star-expanded arguments, a `match` statement, ...): nothing
#         is known about its variation.
# Verdicts are taken with decide(): VIOLATED needs an established label, HOLDS needs the absence of every non-uniform label and
# of UNK, everything else is UNDECIDED.  nonuniform() keeps its meaning (labels of NONUNIFORM, established or not) for the
# callers in props/C06.py.
# ---------------------------------------------------------------------------------------------------------------------------
UNK = "UNK"


def S(label) -> set:
    """an established label"""
    return {label, "!" + label}


def established(labels) -> set:
    return {l for l in labels if l in NONUNIFORM and ("!" + l) in labels}


def decide(labels):
    """True: rank-uniform; False: established to depend on the rank; None: not decided (heuristic labels / unmodelled constructs)"""
    if established(labels):
        return False
    if UNK in labels or any(l in NONUNIFORM for l in labels):
        return None
    return True


def show(labels) -> list:
    """labels as printed in messages and facts (the markers of establishment are internal)"""
    return sorted(l for l in labels if not l.startswith("!"))


def weaken(labels) -> set:
    """the same labels, none of them established"""
    return {l for l in labels if not l.startswith("!")}


def is_comm_expr(e) -> bool:
    return bool(COMM_RE.search(src(e)))


@dataclass
class Event:
    kind: str              # 'coll' | 'call' | 'loop'
    sig: tuple
    node: ast.AST
    body: list = field(default_factory=list)

    def __eq__(self, o):
        return isinstance(o, Event) and self.kind == o.kind and self.sig == o.sig and self.body == o.body

    def __repr__(self):
        if self.kind == "loop":
            return f"loop[{self.sig}]{self.body}"
        return f"{self.sig}"


@dataclass
class Path:
    choices: tuple          # ((test_src, polarity), ...)
    events: tuple
    exited: str | None      # None | 'return' | 'raise' | 'break' | 'continue'


class FuncInfo:
    def __init__(self, rel, qual, node, cls):
        self.rel, self.qual, self.node, self.cls = rel, qual, node, cls
        self.params = [a.arg for a in node.args.posonlyargs + node.args.args + node.args.kwonlyargs]
        if node.args.vararg:
            self.params.append(node.args.vararg.arg)
        if node.args.kwarg:
            self.params.append(node.args.kwarg.arg)
        self.collective_sites: list[ast.Call] = []      # direct collective calls
        self.callee_sites: list[tuple[ast.Call, list]] = []   # calls to collective functions
        self.is_collective = False
        self.required_uniform: dict[str, str] = {}      # param -> reason
        self.required_strong: set = set()               # those whose influence on collectives is established
        self.return_labels: set = set()
        self.labels_at: dict[ast.AST, set] = {}
        self.outer = None                                # enclosing FuncInfo of a nested function


class SPMD:
    def __init__(self, prog: Program, chk, units: list[str], b4_ok_funcs=()):
        self.prog = prog
        self.chk = chk
        self.units = units
        self.b4_ok = set(b4_ok_funcs)
        self.funcs: dict[tuple[str, str], FuncInfo] = {}
        self.class_attr: dict[tuple[str, str], set] = {}
        for rel in units:
            m = prog.mods[rel]
            for q, n in m.functions().items():
                cls = q.split(".")[0] if "." in q and q.split(".")[0] in m.classes() else None
                self.funcs[(rel, q)] = FuncInfo(rel, q, n, cls)
        self._by_node = {fi.node: fi for fi in self.funcs.values()}
        for fi in self.funcs.values():
            o = self._owner(fi.node)
            if isinstance(o, (ast.FunctionDef, ast.AsyncFunctionDef)) and o in self._by_node:
                fi.outer = self._by_node[o]
                if fi.cls is None:
                    fi.cls = fi.outer.cls
        # classes whose size / shape / starts / ... describe the rank's own block: those of the layout and grid units
        self.geometry_classes = {c for c, (rel, _) in prog.classes.items() if rel in (U.LAYOUT, U.GRID)}
        self.attr_struct = {}
        self._find_collectives()
        self._class_attr_labels()

    # ---------------------------------------------------------------- sites
    def _h5_collective(self, fn):
        """calls that are collective because a parallel (mpio) HDF5 file is open in fn"""
        opened = False
        for c in ast.walk(fn):
            if isinstance(c, ast.Call) and src(c.func).endswith("File") and \
                    any(k.arg == "driver" and src(k.value) in ("'mpio'", '"mpio"') for k in c.keywords):
                opened = True
        res = []
        if opened:
            for c in ast.walk(fn):
                if isinstance(c, ast.Call) and isinstance(c.func, ast.Attribute):
                    if c.func.attr in ("create_dataset", "close", "create_group", "require_dataset") or \
                            (c.func.attr == "create" and src(c.func.value).endswith(".attrs")):
                        res.append(c)
                    elif c.func.attr == "File" and any(k.arg == "driver" for k in c.keywords):
                        res.append(c)
        return res

    def direct_collectives(self, fn):
        res = []
        for c in ast.walk(fn):
            if isinstance(c, ast.Call) and isinstance(c.func, ast.Attribute) and c.func.attr in COLLECTIVE_OPS \
                    and is_comm_expr(c.func.value) and not src(c.func.value).startswith(("np.", "numpy.")):
                res.append(c)
        res.extend(self._h5_collective(fn))
        own = [c for c in res if self._owner(c) is fn]
        own.sort(key=lambda c: (c.lineno, c.col_offset))
        return own

    def _owner(self, node):
        p = parent(node)
        while p is not None and not isinstance(p, (ast.FunctionDef, ast.AsyncFunctionDef, ast.Lambda)):
            p = parent(p)
        return p

    def _find_collectives(self):
        for fi in self.funcs.values():
            fi.collective_sites = self.direct_collectives(fi.node)
            fi.is_collective = bool(fi.collective_sites)
        self.calls: dict[tuple[str, str], list[tuple[ast.Call, list]]] = {}
        for key, fi in self.funcs.items():
            lst = []
            for c in ast.walk(fi.node):
                if isinstance(c, ast.Call) and self._owner(c) is fi.node:
                    tg = self.resolve(c, fi)
                    if tg:
                        lst.append((c, tg))
            self.calls[key] = lst
        changed = True
        while changed:
            changed = False
            for key, fi in self.funcs.items():
                if fi.is_collective:
                    continue
                for c, tg in self.calls[key]:
                    if any(self.funcs[t].is_collective for t in tg):
                        fi.is_collective = True
                        changed = True
                        break
        for key, fi in self.funcs.items():
            fi.callee_sites = [(c, tg) for c, tg in self.calls[key] if any(self.funcs[t].is_collective for t in tg)]

    # ---------------------------------------------------------------- labels
    def _class_attr_labels(self):
        for _ in range(4):
            before = {k: set(v) for k, v in self.class_attr.items()}
            for fi in self.funcs.values():
                if fi.cls is None:
                    continue
                LabelFlow(self, fi, collect_attrs=True).run()
            # summaries computed while the attribute labels were still incomplete are not kept
            for fi in self.funcs.values():
                fi._ret_done = False
            for k in ("_ever", "_modname", "_flat"):
                self.__dict__.pop(k, None)
            if before == self.class_attr:
                break

    def attr_label(self, cls, attr):
        out = set()
        for c in self.prog.mro(cls) + self.prog.subclasses(cls):
            out |= self.class_attr.get((c, attr), set())
        return out

    def analyse(self, fi: FuncInfo):
        lf = LabelFlow(self, fi)
        lf.run()
        fi.labels_at = lf.at
        fi.return_labels = lf.ret
        return lf

    def return_labels(self, key, depth=0):
        fi = self.funcs[key]
        if getattr(fi, "_ret_done", False):
            return fi.return_labels
        if getattr(fi, "_ret_busy", False):
            # a recursive call: the summary computed so far (the flow is run a second time when this happened, so that the labels
            # of one more unfolding are in)
            fi._ret_recursive = True
            return set(fi.return_labels)
        if depth > 6:
            return {UNK}                      # AUDIT: call depth exhausted: nothing is known about what the callee returns
        fi._ret_busy = True
        fi._ret_recursive = False
        fi.return_labels = set()
        for _ in range(3):
            lf = LabelFlow(self, fi, depth=depth + 1)
            lf.run()
            grown = (lf.ret | lf._generator_labels(fi, lf)) - fi.return_labels
            fi.return_labels = fi.return_labels | lf.ret | lf._generator_labels(fi, lf)
            if not fi._ret_recursive or not grown:
                break
        fi.yield_elems = lf.yield_elems if lf.yield_elems else None
        fi.yield_len = set(lf.yield_len) if lf._generator_labels(fi, lf) and UNK not in lf._generator_labels(fi, lf) - lf.yielded else None
        fi.ret_elems = lf.ret_elems if lf._ret_shapes and -1 not in lf._ret_shapes and len(lf._ret_shapes) == 1 and \
            not fi._ret_recursive else None
        fi._ret_busy = False
        fi._ret_done = True
        return fi.return_labels

    # ---------------------------------------------------------------- program facts used by the label flow
    def resolve(self, call, fi):
        """callee candidates of a call inside `fi`: the program index, plus functions defined inside the enclosing function(s)
        (closures) called by their bare name -> list of keys of self.funcs"""
        cache = self.__dict__.setdefault("_res_cache", {})
        if call not in cache:
            cache[call] = self._resolve(call, fi)
        return list(cache[call])

    def _resolve(self, call, fi):
        f = call.func
        if isinstance(f, ast.Name):
            o = fi
            while o is not None:
                key = (o.rel, o.qual + "." + f.id)
                if key in self.funcs and self.funcs[key].outer is o:
                    # the name must not be rebound to something else in that function
                    stores = [n for n in ast.walk(o.node) if isinstance(n, ast.Name) and n.id == f.id and
                              isinstance(n.ctx, ast.Store) and self._owner(n) is o.node]
                    defs = [n for n in ast.walk(o.node) if isinstance(n, (ast.FunctionDef, ast.AsyncFunctionDef)) and n.name == f.id
                            and self._owner(n) is o.node]
                    return [key] if not stores and len(defs) == 1 else []
                if f.id in self._local_names(o):
                    return []                 # a local of that name that is not a nested def: a computed callee
                o = o.outer
        tg = self.prog.resolve(call, fi.rel)
        return [(r, q) for r, q, n in tg if (r, q) in self.funcs]

    def _local_names(self, fi):
        c = self.__dict__.setdefault("_locals_cache", {})
        if fi.node not in c:
            names = {a.arg for a in ast.walk(fi.node.args) if isinstance(a, ast.arg)}
            for n in ast.walk(fi.node):
                if isinstance(n, ast.Name) and isinstance(n.ctx, ast.Store) and self._owner(n) is fi.node:
                    names.add(n.id)
            c[fi.node] = names
        return c[fi.node]

    def _stub_flow(self, rel):
        """a label flow with no locals, to label an expression evaluated at module / class level of `rel`"""
        c = self.__dict__.setdefault("_stubs", {})
        if rel not in c:
            node = ast.parse("def _module_level_():\n    pass").body[0]
            c[rel] = LabelFlow(self, FuncInfo(rel, "<module>", node, None), depth=3)
        return c[rel]

    def module_bindings(self, rel):
        c = self.__dict__.setdefault("_modbind", {})
        if rel not in c:
            b = {}
            tree = self.prog.mods[rel].tree

            def walk(body, cond):
                for st in body:
                    if isinstance(st, (ast.Import, ast.ImportFrom)):
                        for a in st.names:
                            b.setdefault((a.asname or a.name).split(".")[0], []).append(("import", st, a))
                    elif isinstance(st, (ast.FunctionDef, ast.AsyncFunctionDef, ast.ClassDef)):
                        b.setdefault(st.name, []).append(("def", st, None))
                    elif isinstance(st, ast.Assign):
                        for t in st.targets:
                            if isinstance(t, ast.Name):
                                b.setdefault(t.id, []).append(("assign", st, st.value))
                            else:
                                for x in ast.walk(t):
                                    if isinstance(x, ast.Name) and isinstance(x.ctx, ast.Store):
                                        b.setdefault(x.id, []).append(("other", st, None))
                    elif isinstance(st, ast.AnnAssign) and isinstance(st.target, ast.Name) and st.value is not None:
                        b.setdefault(st.target.id, []).append(("assign", st, st.value))
                    elif isinstance(st, (ast.If, ast.Try, ast.With)):
                        for f_ in ("body", "orelse", "finalbody"):
                            walk(getattr(st, f_, []) or [], True)
                        for h in getattr(st, "handlers", []) or []:
                            walk(h.body, True)
                    else:
                        for x in ast.walk(st):
                            if isinstance(x, ast.Name) and isinstance(x.ctx, ast.Store):
                                b.setdefault(x.id, []).append(("other", st, None))
            walk(tree.body, False)
            c[rel] = b
        return c[rel]

    def module_name(self, rel, name, depth=0):
        """labels of a module-level name, or None when the module does not bind it"""
        bs = self.module_bindings(rel).get(name)
        if not bs:
            return None
        cache = self.__dict__.setdefault("_modname", {})
        if (rel, name) in cache:
            return set(cache[(rel, name)])
        cache[(rel, name)] = {UNK}            # while it is being computed (cyclic definitions)
        out = set()
        for kind, st, v in bs:
            if kind in ("import", "def"):
                continue
            if kind == "other" or depth > 6:
                out |= {UNK}
                continue
            out |= self._stub_flow(rel).expr(v, {})
        # rebound from inside a function through `global`
        for n in ast.walk(self.prog.mods[rel].tree):
            if isinstance(n, ast.Global) and name in n.names:
                out |= {UNK}
        cache[(rel, name)] = out
        return set(out)

    def _mutated_in(self, tree, text):
        for n in ast.walk(tree):
            if isinstance(n, (ast.Subscript, ast.Attribute)) and isinstance(n.ctx, (ast.Store, ast.Del)) and src(n.value) == text:
                return True
            if isinstance(n, ast.Call) and isinstance(n.func, ast.Attribute) and src(n.func.value) == text and \
                    n.func.attr in ("append", "extend", "insert", "add", "update", "remove", "pop", "clear", "setdefault", "popitem", "sort",
                                    "reverse", "discard"):
                return True
            if isinstance(n, ast.AugAssign) and src(n.target) == text:
                return True
        return False

    def module_const(self, rel, name):
        """the value node of a module-level name bound exactly once and never changed in place in the module, else None"""
        cache = self.__dict__.setdefault("_mc_cache", {})
        if (rel, name) not in cache:
            cache[(rel, name)] = self._module_const(rel, name)
        return cache[(rel, name)]

    def _module_const(self, rel, name):
        bs = self.module_bindings(rel).get(name)
        if not bs or len(bs) != 1 or bs[0][0] != "assign":
            return None
        tree = self.prog.mods[rel].tree
        if self._mutated_in(tree, name) or any(isinstance(n, ast.Global) and name in n.names for n in ast.walk(tree)):
            return None
        return bs[0][2]

    def class_const(self, cls, attr):
        """the value node of a class attribute bound exactly once (class body or `self.attr = ...`) in the hierarchy and never changed
        in place, else None"""
        cache = self.__dict__.setdefault("_cc_cache", {})
        if (cls, attr) not in cache:
            cache[(cls, attr)] = self._class_const(cls, attr)
        return cache[(cls, attr)]

    def _class_const(self, cls, attr):
        vals = []
        for c in self.prog.mro(cls) + self.prog.subclasses(cls):
            if c not in self.prog.classes:
                continue
            rel, node = self.prog.classes[c]
            for st in node.body:
                if isinstance(st, ast.Assign) and any(isinstance(t, ast.Name) and t.id == attr for t in st.targets):
                    vals.append(st.value)
                elif isinstance(st, ast.AnnAssign) and isinstance(st.target, ast.Name) and st.target.id == attr and st.value is not None:
                    vals.append(st.value)
            for n in ast.walk(node):
                if isinstance(n, ast.Attribute) and n.attr == attr and isinstance(n.ctx, (ast.Store, ast.Del)) and \
                        isinstance(n.value, ast.Name) and n.value.id in ("self", "cls", c):
                    p = parent(n)
                    if isinstance(p, ast.Assign) and len(p.targets) == 1 and p.targets[0] is n:
                        vals.append(p.value)
                    else:
                        return None
            if self._mutated_in(node, "self." + attr) or self._mutated_in(node, "cls." + attr) or self._mutated_in(node, c + "." + attr):
                return None
        return vals[0] if len(vals) == 1 else None

    def outer_name(self, fi, name):
        """labels of a free name of a nested function: what the enclosing function(s) ever bind it to; None when they do not"""
        o = fi.outer
        while o is not None:
            if name in self._local_names(o) or name in o.params:
                cache = self.__dict__.setdefault("_ever", {})
                key = (o.rel, o.qual)
                if key not in cache:
                    cache[key] = None                 # busy
                    lf = LabelFlow(self, o, depth=2)
                    lf.run()
                    cache[key] = lf.ever
                ev = cache[key]
                if ev is None:
                    return {UNK}
                return set(ev.get(name, set())) | ({f"P:{name}"} & set())
            # a function nested in `o` under that name
            if (o.rel, o.qual + "." + name) in self.funcs:
                return set()
            o = o.outer
        return None

    def attr_known(self, cls, attr):
        return any((c, attr) in self.class_attr or (c, "*") in self.class_attr for c in self.prog.mro(cls) + self.prog.subclasses(cls))

    def is_method(self, cls, attr):
        try:
            if self.prog.find_method(cls, attr):
                return True
        except KeyError:
            return False
        for c in self.prog.mro(cls):
            if c in self.prog.classes:
                for st in self.prog.classes[c][1].body:
                    if isinstance(st, (ast.Assign, ast.AnnAssign)):
                        tg = st.targets if isinstance(st, ast.Assign) else [st.target]
                        if any(isinstance(t, ast.Name) and t.id == attr for t in tg):
                            return True
                    if isinstance(st, ast.ClassDef) and st.name == attr:
                        return True
        return False

    def property_labels(self, cls, attr, depth=0):
        """labels a property adds to those of its receiver, or None when `attr` is not a property of the class"""
        if cls not in self.prog.classes:
            return None
        out, hit = set(), False
        for r, c, n in self.prog.find_method(cls, attr):
            if any(src(d) in ("property", "cached_property", "functools.cached_property") for d in n.decorator_list):
                key = (r, f"{c}.{attr}")
                if key in self.funcs:
                    hit = True
                    rl = self.return_labels(key, depth)
                    out |= {l for l in rl if not l.startswith("P:")}
        return out if hit else None

    def attr_only_in_geometry(self, attr):
        c = self.__dict__.setdefault("_attr_homes", {})
        if attr not in c:
            homes = set()
            for cname, (rel, node) in self.prog.classes.items():
                for n in ast.walk(node):
                    if isinstance(n, ast.Attribute) and n.attr == attr and isinstance(n.ctx, ast.Store) and \
                            isinstance(n.value, ast.Name) and n.value.id == "self":
                        homes.add(cname)
                    elif isinstance(n, ast.FunctionDef) and n.name == attr and parent(n) is node:
                        homes.add(cname)
                    elif isinstance(n, ast.Assign) and parent(n) is node and any(isinstance(t, ast.Name) and t.id == attr for t in n.targets):
                        homes.add(cname)
                    elif isinstance(n, ast.AnnAssign) and parent(n) is node and isinstance(n.target, ast.Name) and n.target.id == attr:
                        homes.add(cname)
            # record types made by namedtuple(...)
            for rel, m in self.prog.mods.items():
                for n in ast.walk(m.tree):
                    if isinstance(n, ast.Call) and src(n.func).split(".")[-1] in ("namedtuple", "make_dataclass") and \
                            any(isinstance(x, ast.Constant) and isinstance(x.value, str) and attr in re.split(r"[,\s]+", x.value)
                                for a in n.args[1:] for x in ast.walk(a)):
                        homes.add("<namedtuple>")
            c[attr] = bool(homes) and homes <= self.geometry_classes
        return c[attr]

    def attr_kind(self, cls, attr):
        """is self.<attr> a layout / grid object (True), known to be something else (False: every assignment is an array / display),
        or unknown (None)"""
        cache = self.__dict__.setdefault("_ak_cache", {})
        if (cls, attr) not in cache:
            cache[(cls, attr)] = self._attr_kind(cls, attr)
        return cache[(cls, attr)]

    def type_of(self, expr, fn, cls):
        cache = self.__dict__.setdefault("_to_cache", {})
        if expr not in cache:
            cache[expr] = self.prog.type_of(expr, fn, cls)
        return cache[expr]

    def _attr_kind(self, cls, attr):
        vals = []
        for c in self.prog.mro(cls) + self.prog.subclasses(cls):
            if c not in self.prog.classes:
                continue
            for n in ast.walk(self.prog.classes[c][1]):
                if isinstance(n, ast.Assign):
                    for t in n.targets:
                        if isinstance(t, ast.Attribute) and t.attr == attr and isinstance(t.value, ast.Name) and t.value.id == "self":
                            vals.append(n.value)
                        elif isinstance(t, (ast.Tuple, ast.List)) and any(isinstance(x, ast.Attribute) and x.attr == attr for x in ast.walk(t)):
                            return None
        if not vals:
            return None

        def arrayish(v):
            if isinstance(v, (ast.List, ast.Tuple, ast.Dict, ast.ListComp, ast.DictComp, ast.Constant, ast.JoinedStr)):
                return not (isinstance(v, ast.Constant) and v.value is None) or len(vals) > 1
            return isinstance(v, ast.Call) and isinstance(v.func, ast.Attribute) and isinstance(v.func.value, ast.Name) and \
                v.func.value.id in ("np", "numpy")
        return False if all(arrayish(v) for v in vals) else None

    def unit_seeds(self, rel):
        c = self.__dict__.setdefault("_seeds", {})
        if rel not in c:
            c[rel] = any(isinstance(n, ast.Call) and src(n.func).split(".")[-1] in ("seed", "default_rng", "RandomState", "SeedSequence")
                         for n in ast.walk(self.prog.mods[rel].tree))
        return c[rel]

    def import_origin(self, rel, name):
        """(module, original name) of a name imported with `from module import name [as alias]` in the unit, else None"""
        for kind, st, a in self.module_bindings(rel).get(name, []):
            if kind == "import" and isinstance(st, ast.ImportFrom):
                return ("." * st.level + (st.module or ""), a.name)
        return None

    def external_kind(self, rel, name):
        """'pure' when the name is imported from a module whose functions compute from their arguments only: a standard / numerical
        library module, or a module of the repository outside the analysed units whose source touches neither MPI nor clocks, random
        numbers, process ids or hashes (checked on the source text).  'unknown' otherwise"""
        c = self.__dict__.setdefault("_extkind", {})
        if (rel, name) in c:
            return c[(rel, name)]
        kind = "unknown"
        for k, st, a in self.module_bindings(rel).get(name, []):
            mod = None
            if k == "import" and isinstance(st, ast.ImportFrom):
                mod, level = st.module or "", st.level
            elif k == "import":
                mod, level = a.name, 0
            if mod is None:
                continue
            root = mod.split(".")[0]
            if level == 0 and root in {"math", "argparse", "numpy", "scipy", "itertools", "functools", "collections", "operator", "json",
                                      "copy", "typing", "abc", "dataclasses", "enum", "warnings", "re", "string", "textwrap", "numbers",
                                      "fractions", "decimal", "bisect", "heapq", "io", "logging", "cProfile", "pstats", "matplotlib",
                                      "pathlib", "sys", "h5py", "contextlib"}:
                kind = "pure"
                continue
            # a module of the repository
            base = (self.prog.repo.root / rel).parent
            if level > 0:
                for _ in range(level - 1):
                    base = base.parent
            else:
                base = self.prog.repo.root
            cands = []
            parts = [p for p in mod.split(".") if p]
            p0 = base.joinpath(*parts) if parts else base
            cands += [p0.with_suffix(".py"), p0 / "__init__.py"]
            if k == "import" and isinstance(st, ast.ImportFrom):
                cands += [p0 / (a.name + ".py"), p0 / a.name / "__init__.py"]
            text = None
            for cp in cands:
                try:
                    if cp.is_file():
                        text = (text or "") + cp.read_text()
                except OSError:
                    pass
            if text is not None and not re.search(r"mpi4py|\bMPI\b|\brandom\b|\btime\b|getpid|\bhash\(|\bid\(|datetime|urandom|uuid", text):
                kind = "pure"
            else:
                kind = "unknown"
                break
        c[(rel, name)] = kind
        return kind

    def default_labels(self, callee, d):
        try:
            return self._stub_flow(callee.rel).expr(d, {})
        except Exception:
            return {UNK}

    def record_fields(self, call, fi):
        """field names, in order, of the record type a call constructs (namedtuple / NamedTuple / dataclass of the unit), else None"""
        f = call.func
        nm = f.id if isinstance(f, ast.Name) else None
        if nm is None:
            return None
        c = self.__dict__.setdefault("_records", {})
        if (fi.rel, nm) not in c:
            flds = None
            for n in ast.walk(self.prog.mods[fi.rel].tree):
                if isinstance(n, ast.Assign) and len(n.targets) == 1 and isinstance(n.targets[0], ast.Name) and n.targets[0].id == nm and \
                        isinstance(n.value, ast.Call) and src(n.value.func).split(".")[-1] == "namedtuple" and len(n.value.args) >= 2:
                    spec = n.value.args[1]
                    if isinstance(spec, ast.Constant) and isinstance(spec.value, str):
                        flds = [x for x in re.split(r"[,\s]+", spec.value) if x]
                    elif isinstance(spec, (ast.List, ast.Tuple)) and all(isinstance(x, ast.Constant) and isinstance(x.value, str) for x in spec.elts):
                        flds = [x.value for x in spec.elts]
                elif isinstance(n, ast.ClassDef) and n.name == nm:
                    is_rec = any(src(b).split(".")[-1] == "NamedTuple" for b in n.bases) or \
                        any(src(d).split("(")[0].split(".")[-1] == "dataclass" for d in n.decorator_list)
                    if is_rec and not any(isinstance(st, ast.FunctionDef) and st.name in ("__init__", "__new__", "__post_init__") for st in n.body):
                        flds = [st.target.id for st in n.body if isinstance(st, ast.AnnAssign) and isinstance(st.target, ast.Name)]
            c[(fi.rel, nm)] = flds
        return c[(fi.rel, nm)]

    def note_attr_structure(self, cls, attr, lf, value, lab, env):
        """per-column labels of a `self.attr` bound to a list of rows / records of one arity (kept while every store agrees)"""
        key = (cls, attr)
        st = self.attr_struct
        if value is None:
            st[key] = None
            return
        cols = None
        if isinstance(value, ast.Name) and env.get("#col:" + value.id):
            cols = env["#col:" + value.id]
        elif isinstance(value, ast.ListComp) and isinstance(value.elt, ast.Call):
            flds = self.record_fields(value.elt, lf.fi)
            if flds is not None and not any(isinstance(a, ast.Starred) for a in value.elt.args) and \
                    all(k.arg in flds for k in value.elt.keywords) and len(value.elt.args) <= len(flds):
                got = {flds[i]: lf.at.get(a, set()) for i, a in enumerate(value.elt.args)}
                got.update({k.arg: lf.at.get(k.value, set()) for k in value.elt.keywords})
                cols = tuple(frozenset(got.get(f_, set())) for f_ in flds)
        elif isinstance(value, ast.ListComp) and isinstance(value.elt, (ast.Tuple, ast.List)) and \
                not any(isinstance(x, ast.Starred) for x in value.elt.elts):
            cols = tuple(frozenset(lf.at.get(x, set())) for x in value.elt.elts)
        if cols is None:
            st[key] = None
            return
        cols = tuple(frozenset(l for l in c_ if not l.startswith("P:")) for c_ in cols)
        if key in st and st[key] is None:
            return
        if key in st and len(st[key]) == len(cols):
            st[key] = tuple(frozenset(a | b) for a, b in zip(st[key], cols))
        elif key in st:
            st[key] = None
        else:
            st[key] = cols

    def attr_presence(self, cls, attr):
        return None


    def flat_summary(self, key, depth=0):
        """the flat collective sequences (operation, root, reduction op - without the communicator, whose name is local to each
        function) a call of the function can issue, calls expanded; None when that is not a finite set the engine can enumerate
        (loops around collectives, unresolved structure, recursion)"""
        cache = self.__dict__.setdefault("_flat", {})
        if key in cache:
            return cache[key]
        if depth > 4 or key not in self.funcs:
            return None
        fi = self.funcs[key]
        if not fi.is_collective:
            cache[key] = {()}
            return cache[key]
        cache[key] = None                     # recursion: not enumerated
        try:
            tr = Tracer(self, fi, LabelFlow(self, fi), chk=_NullCheck())
            out = set()
            for p_ in tr.paths(fi.node.body):
                if p_.exited == "raise":
                    continue
                f = tr.flatten(p_.events, depth + 1)
                if f is None:
                    out = None
                    break
                out |= f
                if len(out) > 64:
                    out = None
                    break
        except AnalysisError:
            out = None
        cache[key] = out
        return out


class _NullCheck:
    """stands for the Check while a summary is computed: obligations are discharged where the function itself is analysed"""
    def ob(self, *a, **k):
        return None


def nonuniform(labels) -> set:
    return {l for l in labels if l in NONUNIFORM}


def params_of(labels) -> set:
    return {l[2:] for l in labels if l.startswith("P:")}


# --------------------------------------------------------------------------
# tables of the label flow
# --------------------------------------------------------------------------
# builtins whose result is a function of their arguments only
_PURE_BUILTINS = UNIFORM_CALLS | {
    "bool", "any", "all", "round", "divmod", "reversed", "set", "frozenset", "repr", "type", "print", "map", "filter", "slice",
    "complex", "pow", "ord", "chr", "bytes", "callable", "issubclass", "iter", "next", "dir", "vars", "super", "object",
    "ValueError", "RuntimeError", "TypeError", "KeyError", "IndexError", "NotImplementedError", "AssertionError", "Exception",
    "ArgumentError", "OSError", "IOError", "FileNotFoundError", "StopIteration", "Warning", "UserWarning", "DeprecationWarning"}
# namespaces (module aliases) whose functions are deterministic functions of their arguments (np.random / np.load* apart)
_PURE_MODULES = {"np", "numpy", "math", "operator", "itertools", "functools", "collections", "json", "argparse", "io", "warnings",
                 "scipy", "sp", "re", "string", "copy", "pstats", "cProfile", "MPI", "sparse", "la", "linalg", "abc", "typing",
                 "dataclasses", "enum", "textwrap", "logging", "sys", "pathlib", "Path", "shutil", "h5py", "os", "glob"}
# methods of the built-in containers / strings / arrays: the result is a function of the receiver and the arguments
_PURE_METHODS = {"append", "extend", "insert", "add", "update", "remove", "pop", "copy", "count", "index", "items", "keys", "values",
                 "get", "format", "join", "split", "rsplit", "strip", "lstrip", "rstrip", "startswith", "endswith", "replace",
                 "lower", "upper", "reshape", "flatten", "ravel", "astype", "transpose", "sum", "prod", "min", "max", "all", "any",
                 "mean", "dot", "conj", "real", "imag", "fill", "tolist", "item", "view", "squeeze", "swapaxes", "argmax", "argmin",
                 "argsort", "sort", "cumsum", "nonzero", "round", "clip", "take", "repeat", "setdefault", "clear", "discard",
                 "union", "intersection", "difference", "symmetric_difference", "issubset", "issuperset", "isdisjoint", "reverse",
                 "encode", "decode", "zfill", "title", "isdigit", "find", "rfind", "partition", "most_common", "popitem",
                 "add_argument", "parse_args", "parse_known_args", "set_defaults", "add_mutually_exclusive_group",
                 "warn", "close", "flush", "write", "writelines", "read", "readline", "readlines", "seek", "getvalue",
                 "enable", "disable", "print_stats", "sort_stats", "create_dataset", "create_group", "require_dataset", "create",
                 "debug", "info", "warning", "error", "exists", "is_dir", "is_file", "mkdir", "iterdir", "glob", "with_suffix",
                 "resolve", "joinpath", "open", "read_text", "write_text", "unlink", "touch", "Get_size", "Get_group", "Get_name",
                 "Get_dim", "Free", "Clone", "Set_name", "Is_inter", "tobytes", "byteswap", "isoformat", "total_seconds"}
_FS_WRITE_CALLS = {"os.mkdir", "os.makedirs", "os.remove", "os.unlink", "os.rmdir", "os.rename", "os.replace", "shutil.rmtree",
                   "shutil.move", "shutil.copy", "shutil.copyfile", "os.removedirs", "np.save", "np.savetxt", "np.savez",
                   "numpy.save", "numpy.savetxt", "numpy.savez"}
_FS_WRITE_METHODS = {"mkdir", "unlink", "rmdir", "rename", "replace", "touch", "write_text", "write_bytes", "makedirs"}
_FS_READ_METHODS = {"exists", "is_dir", "is_file", "iterdir", "glob", "rglob", "stat", "read_text", "read_bytes", "lstat"}
# attributes that exist on numpy arrays / builtins as well: the name alone says nothing about the object
_AMBIGUOUS_ATTR = {"shape", "size", "rank", "_shape", "_size", "name", "ndims", "_name", "_ndims"}
_POINT_TO_POINT = {"recv", "Recv", "irecv", "Irecv", "sendrecv", "Sendrecv", "Sendrecv_replace", "Probe", "Iprobe", "probe", "iprobe"}
_GEOMETRY_NAME = re.compile(r"layout|(^|[^a-z])grid(?![a-z_]*(vals|pts|points))|distribFunc|manager|handler|swapper", re.I)


def _const_int(n):
    if isinstance(n, ast.Constant) and type(n.value) is int:
        return n.value
    if isinstance(n, ast.UnaryOp) and isinstance(n.op, ast.USub) and isinstance(n.operand, ast.Constant) and type(n.operand.value) is int:
        return -n.operand.value
    return None


class LabelFlow:
    """Flow-sensitive forward propagation of variation labels through one
    function (structured traversal; loops to fixpoint; implicit flows via pc).

    The environment maps a local name to its labels.  Auxiliary keys (never names of the program):
      "?x"      labels of the predicate `x is None` (presence, tracked apart from content)
      "#x"      tuple of label sets, one per field, while x is bound to a tuple / record of known arity
      "#col:x"  tuple of label sets, one per column, while x is a list of rows of one known arity
      "#len:x"  labels of the NUMBER of elements of the container x (apart from what the elements hold)
      "#fld:x"  dict field name -> labels while x is bound to a record built with keyword fields (namedtuple / dataclass)"""

    def __init__(self, spmd: SPMD, fi: FuncInfo, collect_attrs=False, depth=0, closure=None):
        self.s = spmd
        self.fi = fi
        self.collect_attrs = collect_attrs
        self.depth = depth
        self.closure = closure            # labels of the names of the enclosing function(s) (nested functions)
        self.at: dict[ast.AST, set] = {}
        self.ret: set = set()
        self.ret_elems = None          # per-element labels when every return is a tuple of one length
        self._ret_shapes = set()
        self.setvars: dict[str, str] = {}       # set-typed locals -> element kind 'str' | 'int' | '?'
        self.ever: dict[str, set] = {}          # every label a local name ever carried (what closures over it may see)
        self.fs_written = False
        self.inexact_binding: set = set()       # calls whose actuals could not be matched with the callee's parameters
        self.star_fields: dict = {}             # Starred actual -> per-position labels when the expanded tuple has known fields
        self.yield_elems = None                 # per-field labels when every yield is a tuple of one arity
        self.yielded: set = set()               # labels of what a generator function yields (values and number)
        self.yield_len: set = set()             # labels of the NUMBER of values it yields
        self.trip_len: dict[ast.AST, bool] = {}  # loop iterables whose labels are those of their LENGTH
        fn = fi.node
        self._locals = {a.arg for a in ast.walk(fn.args) if isinstance(a, ast.arg)}
        self._declared_out = set()              # names declared global / nonlocal here or in a function nested here
        self._local_imports = {}                # names bound by import statements inside the function
        for n in ast.walk(fn):
            if isinstance(n, ast.Name) and isinstance(n.ctx, (ast.Store, ast.Del)) and spmd._owner(n) is fn:
                self._locals.add(n.id)
            elif isinstance(n, (ast.FunctionDef, ast.AsyncFunctionDef, ast.ClassDef)) and n is not fn and spmd._owner(n) is fn:
                self._locals.add(n.name)
            elif isinstance(n, (ast.Import, ast.ImportFrom)) and spmd._owner(n) is fn:
                for a in n.names:
                    self._locals.add((a.asname or a.name).split(".")[0])
                    self._local_imports[(a.asname or a.name).split(".")[0]] = \
                        (("." * n.level + (n.module or "")) if isinstance(n, ast.ImportFrom) else None, a.name)
            elif isinstance(n, (ast.Global, ast.Nonlocal)):
                self._declared_out |= set(n.names)

    def trip_known(self, it) -> bool:
        return bool(self.trip_len.get(it))

    def _is_range(self, it):
        """range(...) and enumerate / zip / reversed of it: the labels of the arguments are those of the number of passes"""
        if isinstance(it, ast.Call) and isinstance(it.func, ast.Name) and it.func.id not in self._locals:
            if it.func.id == "range":
                return True
            if it.func.id in ("enumerate", "reversed", "list", "tuple", "zip", "iter", "sorted") and it.args and not it.keywords:
                return all(self._is_range(a) for a in it.args)
        return False

    def _module_alias(self, name):
        """is the name bound (only) by an `import x [as name]` statement, in the function or at module level?"""
        stores = self.__dict__.setdefault("_store_count", {})
        if name in self._local_imports:
            if name not in stores:
                stores[name] = sum(1 for n in ast.walk(self.fi.node) if isinstance(n, ast.Name) and n.id == name and isinstance(n.ctx, ast.Store))
            return self._local_imports[name][0] is None and stores[name] == 0 and name not in self.fi.params
        if name in self._locals:
            return False
        bs = self.s.module_bindings(self.fi.rel).get(name)
        if bs is None:
            o = self.fi.outer
            return False if o is None else LabelFlow(self.s, o, depth=9)._module_alias(name)
        return all(k == "import" and not isinstance(st, ast.ImportFrom) for k, st, a in bs)

    def run(self):
        env = {p: {f"P:{p}"} for p in self.fi.params}
        if "self" in env:
            env["self"] = set()
        for k, v in env.items():
            self.ever[k] = set(v)
        self.block(self.fi.node.body, env, set())

    # -- statements
    def block(self, stmts, env, pc):
        """returns env after the block; pc grows after statements that may exit early"""
        env, _ = self.block2(stmts, env, pc)
        return env

    def block2(self, stmts, env, pc):
        pc = set(pc)
        extra_all = set()
        for st in stmts:
            env, extra = self.stmt(st, env, pc)
            pc |= extra
            extra_all |= extra
        return env, extra_all

    def has_exit(self, stmts, kinds=("return", "break", "continue")):
        for st in stmts:
            for n in ast.walk(st):
                if isinstance(n, (ast.FunctionDef, ast.Lambda)):
                    continue
                if (isinstance(n, ast.Return) and "return" in kinds) or \
                        (isinstance(n, ast.Break) and "break" in kinds) or \
                        (isinstance(n, ast.Continue) and "continue" in kinds):
                    return True
        return False

    def stmt(self, st, env, pc):
        extra = set()
        self._pc_now = set(pc)
        if isinstance(st, ast.Assign):
            lab = self.expr(st.value, env) | pc
            elems = None
            if isinstance(st.value, ast.Call):
                n_ = len(st.targets[0].elts) if len(st.targets) == 1 and isinstance(st.targets[0], (ast.Tuple, ast.List)) else None
                elems = self.call_elems(st.value, env, n_)
            for t in st.targets:
                if elems is not None and isinstance(t, (ast.Tuple, ast.List)) and len(t.elts) == len(elems) and \
                        not any(isinstance(x, ast.Starred) for x in t.elts):
                    for e, l in zip(t.elts, elems):
                        self.assign(e, l | pc, env, None)
                else:
                    self.assign(t, lab, env, st.value)
                if isinstance(t, ast.Name):
                    self._mark_set(t.id, st.value, env)
                    if elems is not None:
                        env["#" + t.id] = tuple(frozenset(l | pc) for l in elems)
                    # presence (is it None?) is tracked apart from content: it depends on which assignment was reached (pc) and,
                    # for a copied name / a call result, on that value's own presence - not on the content of an array
                    v_ = st.value
                    if isinstance(v_, ast.Constant):
                        nl = set()
                    elif isinstance(v_, ast.Name):
                        nl = self.noneness(v_, env)
                    elif isinstance(v_, (ast.Subscript, ast.List, ast.Tuple, ast.Dict, ast.BinOp, ast.Compare, ast.ListComp)):
                        nl = set()
                    else:
                        nl = {l_ for l_ in lab if not l_.startswith("P:")}
                    env["?" + t.id] = nl | {l_ for l_ in pc if not l_.startswith("P:")} | {l_ for l_ in nl | pc if l_.startswith("P:")}
        elif isinstance(st, ast.AugAssign):
            lab = self.expr(st.value, env) | self.expr(st.target, env) | pc
            keep_len = None
            if isinstance(st.target, ast.Name) and isinstance(st.op, ast.Add) and ("#len:" + st.target.id) in env:
                # x += [..] / x += other: the number of elements grows by that of the operand, under pc
                keep_len = set(env["#len:" + st.target.id]) | pc | self.len_labels(st.value, env)
            self.assign(st.target, lab, env, None)
            if keep_len is not None:
                env["#len:" + st.target.id] = keep_len
        elif isinstance(st, ast.AnnAssign):
            if st.value is not None:
                self.assign(st.target, self.expr(st.value, env) | pc, env, st.value)
                if isinstance(st.target, ast.Name):
                    self._mark_set(st.target.id, st.value, env)
        elif isinstance(st, ast.Expr) and isinstance(st.value, (ast.Yield, ast.YieldFrom)):
            # a generator: what it yields, and how often (the conditions under which each yield is reached), make up the labels of
            # the iterable a call of the function returns; the value sent back in is not used by a yield statement
            if st.value.value is not None:
                self.yielded |= self.expr(st.value.value, env)
            yv = st.value.value
            if isinstance(st.value, ast.Yield) and isinstance(yv, ast.Tuple) and not any(isinstance(x, ast.Starred) for x in yv.elts):
                el = [self.at.get(x, set()) | pc for x in yv.elts]
                if self.yield_elems is None:
                    self.yield_elems = el
                elif self.yield_elems and len(self.yield_elems) == len(el):
                    self.yield_elems = [a | b for a, b in zip(self.yield_elems, el)]
                else:
                    self.yield_elems = []
            else:
                self.yield_elems = []
            self.yielded |= pc
            self.yield_len |= pc
            if isinstance(st.value, ast.YieldFrom):
                l_ = self.len_labels(st.value.value, env)
                self.yield_len |= l_ if l_ is not None else self.at.get(st.value.value, set())
            self.at[st.value] = set()
        elif isinstance(st, ast.Expr):
            self.expr(st.value, env)
            # mutating method calls on a local: x.append(e) etc.
            v = st.value
            if isinstance(v, ast.Call) and isinstance(v.func, ast.Attribute) and \
                    v.func.attr in ("append", "extend", "insert", "add", "update", "remove", "pop", "setdefault", "discard", "clear",
                                    "sort", "reverse", "fill", "popitem", "appendleft", "extendleft"):
                lab = set(pc)
                for a in v.args:
                    lab |= self.expr(a, env)
                for k in v.keywords:
                    lab |= self.expr(k.value, env)
                recv = v.func.value
                cols = lens = None
                if isinstance(recv, ast.Name):
                    # a list of rows stays a table of known columns under append(<display of the same arity>)
                    oc, ol = env.get("#col:" + recv.id), env.get("#len:" + recv.id)
                    if v.func.attr == "append" and len(v.args) == 1 and not v.keywords:
                        a0 = v.args[0]
                        if ol is not None:
                            lens = set(ol) | pc
                        if isinstance(a0, (ast.Tuple, ast.List)) and not any(isinstance(x, ast.Starred) for x in a0.elts) and \
                                oc is not None and (len(oc) == len(a0.elts) or oc == ()):
                            row = [self.at.get(x, set()) | pc for x in a0.elts]
                            cols = tuple(frozenset(r) for r in row) if oc == () else tuple(frozenset(a | b) for a, b in zip(oc, row))
                    elif v.func.attr in ("sort", "reverse") and not v.args:
                        cols, lens = oc, ol
                    elif v.func.attr in ("extend", "insert", "add", "update", "remove", "pop", "discard", "clear", "popitem") and ol is not None:
                        lens = set(ol) | lab
                self.assign(recv, lab | self.expr(recv, env), env, None, weak=True)
                if isinstance(recv, ast.Name):
                    if cols is not None:
                        env["#col:" + recv.id] = cols
                    if lens is not None:
                        env["#len:" + recv.id] = lens
            elif isinstance(v, ast.Call) and isinstance(v.func, ast.Name) and v.func.id == "setattr" and len(v.args) == 3:
                # setattr(obj, name, value): any attribute of the object may now hold the value
                lab = self.expr(v.args[2], env) | self.expr(v.args[1], env) | pc
                tgt = v.args[0]
                if isinstance(tgt, ast.Name) and tgt.id == "self" and self.fi.cls:
                    nm = v.args[1].value if isinstance(v.args[1], ast.Constant) and isinstance(v.args[1].value, str) else "*"
                    self.assign(ast.Attribute(value=tgt, attr=nm, ctx=ast.Store()), lab, env, None, weak=True)
                else:
                    self.assign(tgt, lab, env, None, weak=True)
        elif isinstance(st, ast.If):
            tl = self.expr(st.test, env)
            self.at[st.test] = tl
            e1, x1 = self.block2(st.body, dict(env), pc | tl)
            e2, x2 = self.block2(st.orelse, dict(env), pc | tl)
            env = self.join(e1, e2)
            extra |= x1 | x2
        elif isinstance(st, (ast.For, ast.AsyncFor)):
            il = self.expr(st.iter, env)
            rows = self._literal_rows(st.iter)
            trip = self.len_labels(st.iter, env)
            if rows is not None:
                # a literal table: the number of iterations is fixed by the source text, whatever the entries hold
                il = set()
            elif trip is not None:
                # the number of passes is known apart from what the elements hold
                il = set(trip)
            self.at[st.iter] = il
            self.trip_len[st.iter] = rows is not None or trip is not None or self._is_range(st.iter)
            order = self._hash_order(st.iter, env)          # iteration in the order of a set
            for _ in range(3):
                e = dict(env)
                bound = self._bind_rows(st.target, rows) if rows is not None else None
                cols = self._columns(st.iter, env) if rows is None else None
                if bound is not None:
                    for t_, nodes in bound:
                        lab_k = set()
                        for r in nodes:
                            lab_k |= self.expr(r, e)
                        self.assign(t_, lab_k | pc, e, None)
                elif rows is not None:
                    lab_all = set()
                    for r in rows:
                        lab_all |= self.expr(r, e)
                    self.assign(st.target, lab_all | pc, e, None)
                elif cols is not None and isinstance(st.target, (ast.Tuple, ast.List)) and len(cols) == len(st.target.elts) and \
                        not any(isinstance(x, ast.Starred) for x in st.target.elts):
                    for t_, l_ in zip(st.target.elts, cols):
                        self.assign(t_, set(l_) | il | pc | order, e, None)
                else:
                    self.assign(st.target, self._expr(st.iter, e) | il | pc | order, e, None)
                    if cols is not None and isinstance(st.target, ast.Name):
                        e["#" + st.target.id] = tuple(frozenset(set(l_) | il | pc | order) for l_ in cols)
                e, x = self.block2(st.body, e, pc | il)
                extra |= x
                env = self.join(env, e)
            env = self.join(env, self.block(st.orelse, dict(env), pc | il))
        elif isinstance(st, ast.While):
            for _ in range(3):
                tl = self.expr(st.test, env)
                self.at[st.test] = tl
                e, x = self.block2(st.body, dict(env), pc | tl)
                extra |= x
                env = self.join(env, e)
            tl = self.expr(st.test, env)
            self.at[st.test] = tl
            if st.orelse:
                env = self.join(env, self.block(st.orelse, dict(env), pc | tl))
        elif isinstance(st, ast.Return):
            if st.value is not None:
                self.ret |= self.expr(st.value, env) | pc
                if isinstance(st.value, ast.Tuple) and not any(isinstance(x, ast.Starred) for x in st.value.elts):
                    self._ret_shapes.add(len(st.value.elts))
                    el = [self.at.get(v, set()) | pc for v in st.value.elts]
                    if self.ret_elems is None:
                        self.ret_elems = el
                    elif len(self.ret_elems) == len(el):
                        self.ret_elems = [a | b for a, b in zip(self.ret_elems, el)]
                elif isinstance(st.value, ast.Name) and ("#" + st.value.id) in env:
                    el = [set(x) | pc for x in env["#" + st.value.id]]
                    self._ret_shapes.add(len(el))
                    if self.ret_elems is None:
                        self.ret_elems = el
                    elif len(self.ret_elems) == len(el):
                        self.ret_elems = [a | b for a, b in zip(self.ret_elems, el)]
                else:
                    self._ret_shapes.add(-1)
            else:
                self._ret_shapes.add(-1)
            self.at[st] = set(pc)
            # ranks that return here are gone: among the ranks that go on, values assigned later do not depend on the condition
            # of this exit (whether later collectives are still matched is the subject of B1-early-return, decided on at[st])
        elif isinstance(st, (ast.With, ast.AsyncWith)):
            for it in st.items:
                l = self.expr(it.context_expr, env)
                if it.optional_vars is not None:
                    self.assign(it.optional_vars, l | pc, env, None)
            env, x = self.block2(st.body, env, pc)
            extra |= x
        elif isinstance(st, ast.Try) or st.__class__.__name__ == "TryStar":
            # AUDIT: whether a statement of the body raises is an event of the rank (the state of the file system when it looked,
            # its data): what a handler (or the else part, which runs when nothing was raised) assigns depends on it
            env0 = dict(env)
            env, x = self.block2(st.body, env, pc)
            extra |= x
            exc_pc = pc | ({UNK} if st.handlers else set())
            after = self.join(env0, env)
            out_env = env
            for h in st.handlers:
                eh = dict(after)
                if h.type is not None:
                    self.expr(h.type, eh)
                if h.name:
                    eh[h.name] = {UNK}
                    eh.pop("?" + h.name, None)
                eh, x = self.block2(h.body, eh, exc_pc)
                extra |= x
                out_env = self.join(out_env, eh)
            env = out_env
            if st.orelse:
                env, x = self.block2(st.orelse, env, exc_pc)
                extra |= x
            env, x = self.block2(st.finalbody, env, pc)
            extra |= x
        elif isinstance(st, ast.Assert):
            self.expr(st.test, env)
            if st.msg is not None:
                self.expr(st.msg, env)
        elif isinstance(st, (ast.FunctionDef, ast.AsyncFunctionDef, ast.ClassDef)):
            self._assign_name(st.name, set(pc), env, weak=False)
            for d in st.decorator_list:
                self.expr(d, env)
        elif isinstance(st, (ast.Import, ast.ImportFrom)):
            for a in st.names:
                self._assign_name((a.asname or a.name).split(".")[0], set(), env, weak=False)
        elif isinstance(st, ast.Raise):
            if st.exc is not None:
                self.expr(st.exc, env)
            self.at[st] = set(pc)
        elif isinstance(st, (ast.Break, ast.Continue)):
            self.at[st] = set(pc)
            extra |= pc
        elif isinstance(st, ast.Delete):
            for t in st.targets:
                if isinstance(t, ast.Name):
                    self._forget(t.id, env)
                elif isinstance(t, (ast.Subscript, ast.Attribute)):
                    self.assign(t, set(pc) | self.expr(t.value, env), env, None, weak=True)
        elif st.__class__.__name__ == "Match":
            sl = self.expr(st.subject, env)
            outs = []
            for case in st.cases:
                e = dict(env)
                for n in ast.walk(case.pattern):
                    nm = getattr(n, "name", None) or getattr(n, "rest", None)
                    if isinstance(nm, str):
                        self._assign_name(nm, sl | pc, e, weak=False)
                    if isinstance(n, ast.expr):
                        self.expr(n, e)
                gl = self.expr(case.guard, e) if case.guard is not None else set()
                e, x = self.block2(case.body, e, pc | sl | gl)
                extra |= x
                outs.append(e)
            for e in outs:
                env = self.join(env, e)
        elif isinstance(st, (ast.Global, ast.Nonlocal, ast.Pass)):
            pass
        else:
            # AUDIT: a statement kind the flow does not model: every name it may bind is unknown from here on
            for n in ast.walk(st):
                if isinstance(n, ast.Name) and isinstance(n.ctx, ast.Store):
                    self._assign_name(n.id, {UNK} | pc, env, weak=False)
        return env, extra

    # -- sets (iteration order = hash order)
    def _elem_kind(self, nodes):
        ks = set()
        for x in nodes:
            if isinstance(x, ast.Constant) and isinstance(x.value, str):
                ks.add("str")
            elif isinstance(x, ast.Constant) and type(x.value) is int:
                ks.add("int")
            else:
                ks.add("?")
        return ks.pop() if len(ks) == 1 else "?"

    def _set_kind(self, v, env, depth=0):
        """element kind of a set-valued expression ('str' | 'int' | '?'), or None when the expression is not known to be a set.
        '?' covers what the analysis does not determine; the nodes of the connection graph handed to the layout managers are layout
        names (strings: documented API, assumption of C06), which is how a set built from the keys / entries of a parameter reads."""
        if depth > 4 or v is None:
            return None
        if isinstance(v, ast.Set):
            return self._elem_kind(v.elts)
        if isinstance(v, ast.SetComp):
            return self._iter_kind(v.generators[0].iter, env, depth + 1) if len(v.generators) == 1 and isinstance(v.elt, ast.Name) and \
                isinstance(v.generators[0].target, ast.Name) and v.elt.id == v.generators[0].target.id else "?"
        if isinstance(v, ast.Call) and isinstance(v.func, ast.Name) and v.func.id in ("set", "frozenset"):
            if not v.args:
                return "?"
            return self._iter_kind(v.args[0], env, depth + 1)
        if isinstance(v, ast.Name) and v.id in self.setvars:
            return self.setvars[v.id]
        if isinstance(v, ast.BinOp) and isinstance(v.op, (ast.Sub, ast.BitAnd, ast.BitOr, ast.BitXor)):
            a, b = self._set_kind(v.left, env, depth + 1), self._set_kind(v.right, env, depth + 1)
            if a is None and b is None:
                return None
            if a is None or b is None:
                # set algebra with a dict view (d.keys() - {...}) is a set
                other = v.right if a is not None else v.left
                if not (isinstance(other, ast.Call) and isinstance(other.func, ast.Attribute) and other.func.attr in ("keys", "items")):
                    return None
                return a or b if isinstance(v.op, (ast.Sub, ast.BitAnd)) and a is not None else "?"
            return a if a == b or isinstance(v.op, ast.Sub) else "?"
        if isinstance(v, ast.Call) and isinstance(v.func, ast.Attribute) and \
                v.func.attr in ("union", "intersection", "difference", "symmetric_difference", "copy"):
            return self._set_kind(v.func.value, env, depth + 1)
        if isinstance(v, ast.IfExp):
            a, b = self._set_kind(v.body, env, depth + 1), self._set_kind(v.orelse, env, depth + 1)
            return None if a is None and b is None else (a if a == b else "?")
        return None

    def _iter_kind(self, it, env, depth=0):
        """kind of the elements an iterable yields"""
        if depth > 4:
            return "?"
        if isinstance(it, (ast.List, ast.Tuple, ast.Set)):
            return self._elem_kind(it.elts)
        if isinstance(it, ast.Call) and isinstance(it.func, ast.Name) and it.func.id == "range":
            return "int"
        if isinstance(it, ast.Call) and isinstance(it.func, ast.Name) and it.func.id in ("list", "tuple", "sorted", "set", "frozenset",
                                                                                         "reversed", "iter") and len(it.args) == 1:
            return self._iter_kind(it.args[0], env, depth + 1)
        k = self._set_kind(it, env, depth + 1)
        if k is not None:
            return k
        if isinstance(it, ast.Dict):
            return self._elem_kind([x for x in it.keys if x is not None])
        if isinstance(it, ast.Name):
            v = self._single_def(it.id)
            if v is not None and not isinstance(v, ast.Name):
                return self._iter_kind(v, env, depth + 1)
        return "?"

    def _mark_set(self, name, v, env):
        k = self._set_kind(v, env)
        if k is not None:
            self.setvars[name] = k
        else:
            self.setvars.pop(name, None)

    def _hash_label(self, kind):
        """labels of a value that depends on the iteration order of a set of the given element kind"""
        fq = self.fi.qual.split(".")[-1]
        if fq in self.s.b4_ok or self.fi.qual in self.s.b4_ok or kind == "int":
            return set()           # compensated by a total tie-break (decided by B4) / small integers hash to themselves
        # AUDIT: the iteration order of a set differs between interpreters for strings (salted hashes).  Established for string
        # literals; a set whose elements the analysis did not determine may hold strings: not established ('?')
        return S(HASH) if kind == "str" else {HASH}

    def _hash_order(self, it, env):
        x = it
        while isinstance(x, ast.Call) and isinstance(x.func, ast.Name) and x.func.id in ("enumerate", "list", "tuple", "reversed", "iter", "zip") \
                and x.args:
            x = x.args[0]
        k = self._set_kind(x, env)
        return self._hash_label(k) if k is not None else set()

    # -- tables written out in the source
    def _single_def(self, name):
        """the value of a local assigned exactly once in the function (and not a parameter), else None"""
        cache = self.s.__dict__.setdefault("_sd_cache", {})
        k = (self.fi.node, name)
        if k not in cache:
            cache[k] = self._single_def_(name)
        return cache[k]

    def _single_def_(self, name):
        if name in self.fi.params:
            return None
        defs = [n for n in ast.walk(self.fi.node) if isinstance(n, ast.Assign) and len(n.targets) == 1
                and isinstance(n.targets[0], ast.Name) and n.targets[0].id == name]
        stores = [n for n in ast.walk(self.fi.node) if isinstance(n, ast.Name) and n.id == name and isinstance(n.ctx, (ast.Store, ast.Del))]
        if len(defs) == 1 and len(stores) == 1 and self.s._owner(defs[0]) is self.fi.node and name not in self._declared_out:
            return defs[0].value
        return None

    def _mutated(self, name):
        """is the local changed in place somewhere in the function (element store, mutating method, augmented assignment)?"""
        cache = self.s.__dict__.setdefault("_mut_cache", {})
        k = (self.fi.node, name)
        if k not in cache:
            cache[k] = self._mutated_(name)
        return cache[k]

    def _mutated_(self, name):
        for n in ast.walk(self.fi.node):
            if isinstance(n, (ast.Subscript, ast.Attribute)) and isinstance(n.ctx, (ast.Store, ast.Del)) and \
                    isinstance(n.value, ast.Name) and n.value.id == name:
                return True
            if isinstance(n, ast.Call) and isinstance(n.func, ast.Attribute) and isinstance(n.func.value, ast.Name) and \
                    n.func.value.id == name and n.func.attr in ("append", "extend", "insert", "add", "update", "remove", "pop", "clear",
                                                                "setdefault", "popitem", "sort", "reverse", "discard"):
                return True
            if isinstance(n, ast.AugAssign) and isinstance(n.target, ast.Name) and n.target.id == name:
                return True
        return False

    def _const_table(self, e, depth=0):
        """the display (list / tuple / dict / set node) an expression denotes when that is fixed by the source text: the display
        itself, a local assigned once and never changed in place, a module-level name or a class attribute assigned once"""
        if depth > 4:
            return None
        if isinstance(e, (ast.Tuple, ast.List, ast.Dict)):
            return e
        if isinstance(e, ast.Name):
            if e.id in self._locals:
                v = self._single_def(e.id)
                if v is None or self._mutated(e.id):
                    return None
                return self._const_table(v, depth + 1)
            v = self.s.module_const(self.fi.rel, e.id)
            return self._const_table(v, depth + 1) if v is not None else None
        if isinstance(e, ast.Attribute) and isinstance(e.value, ast.Name) and e.value.id in ("self", "cls") and self.fi.cls:
            v = self.s.class_const(self.fi.cls, e.attr)
            return self._const_table(v, depth + 1) if v is not None else None
        if isinstance(e, ast.Attribute) and isinstance(e.value, ast.Name) and e.value.id in self.s.prog.classes:
            v = self.s.class_const(e.value.id, e.attr)
            return self._const_table(v, depth + 1) if v is not None else None
        return None

    def _literal_rows(self, it, depth=0):
        """rows of a loop over a table written out in the source: list / tuple display, dict display and its items() / keys() /
        values(), enumerate / zip / reversed / list / tuple of such tables, range(<constant>); directly or through a name bound
        once to it (local never changed in place, module constant, class attribute).  The number of rows is fixed by the source
        text.  -> list of row nodes, or None"""
        if depth > 4 or it is None:
            return None
        if isinstance(it, (ast.Name, ast.Attribute)):
            t = self._const_table(it)
            return self._literal_rows(t, depth + 1) if t is not None else None
        if isinstance(it, (ast.Tuple, ast.List)):
            return None if any(isinstance(x, ast.Starred) for x in it.elts) else list(it.elts)
        if isinstance(it, ast.Dict):
            return None if any(k is None for k in it.keys) else list(it.keys)
        if isinstance(it, ast.Call) and isinstance(it.func, ast.Attribute) and it.func.attr in ("items", "keys", "values") and \
                not it.args and not it.keywords:
            d = self._const_table(it.func.value)
            if isinstance(d, ast.Dict) and not any(k is None for k in d.keys):
                if it.func.attr == "items":
                    return [ast.Tuple(elts=[k, v], ctx=ast.Load()) for k, v in zip(d.keys, d.values)]
                return list(d.keys if it.func.attr == "keys" else d.values)
            return None
        if isinstance(it, ast.Call) and isinstance(it.func, ast.Name) and not any(isinstance(a, ast.Starred) for a in it.args):
            if it.func.id == "enumerate" and it.args:
                rows = self._literal_rows(it.args[0], depth + 1)
                st = it.args[1] if len(it.args) > 1 else next((k.value for k in it.keywords if k.arg == "start"), ast.Constant(value=0))
                if rows is None or _const_int(st) is None:
                    return None
                return [ast.Tuple(elts=[ast.Constant(value=_const_int(st) + i), r], ctx=ast.Load()) for i, r in enumerate(rows)]
            if it.func.id == "zip" and it.args and not it.keywords:
                cols = [self._literal_rows(a, depth + 1) for a in it.args]
                if any(c is None for c in cols) or len({len(c) for c in cols}) != 1:
                    return None
                return [ast.Tuple(elts=list(r), ctx=ast.Load()) for r in zip(*cols)]
            if it.func.id in ("reversed", "list", "tuple", "sorted") and len(it.args) == 1 and not it.keywords:
                rows = self._literal_rows(it.args[0], depth + 1)
                if rows is None:
                    return None
                if it.func.id == "sorted" and not all(isinstance(r, ast.Constant) for r in rows):
                    return None
                return list(reversed(rows)) if it.func.id == "reversed" else rows
            if it.func.id == "range" and len(it.args) == 1 and not it.keywords and _const_int(it.args[0]) is not None:
                return [ast.Constant(value=i) for i in range(max(0, min(_const_int(it.args[0]), 64)))]
        return None

    def _bind_rows(self, target, rows):
        """[(target leaf node, [the nodes it takes, row by row])], or None when the rows do not have the shape of the target"""
        out, index = [], {}

        def go(t, n):
            if isinstance(t, (ast.Name, ast.Attribute, ast.Subscript)):
                if id(t) not in index:
                    index[id(t)] = len(out)
                    out.append((t, []))
                out[index[id(t)]][1].append(n)
                return True
            if isinstance(t, (ast.Tuple, ast.List)) and isinstance(n, (ast.Tuple, ast.List)) and len(t.elts) == len(n.elts) and \
                    not any(isinstance(x, ast.Starred) for x in list(t.elts) + list(n.elts)):
                return all(go(a, b) for a, b in zip(t.elts, n.elts))
            return False
        if not rows or not isinstance(target, (ast.Tuple, ast.List)):
            return None
        return out if all(go(target, r) for r in rows) else None

    def _columns(self, it, env):
        """per-column labels of the rows an iterable yields, when known (a local list of rows of one arity; enumerate / zip)"""
        if isinstance(it, ast.Name):
            c = env.get("#col:" + it.id)
            return c if c else None
        if isinstance(it, ast.Call) and isinstance(it.func, ast.Name) and not it.keywords and \
                not any(isinstance(a, ast.Starred) for a in it.args):
            if it.func.id == "enumerate" and len(it.args) == 1:
                return (frozenset(), frozenset(self._elem_labels(it.args[0], env)))
            if it.func.id == "zip" and it.args:
                return tuple(frozenset(self._elem_labels(a, env)) for a in it.args)
            if it.func.id in ("reversed", "list", "tuple", "sorted") and len(it.args) == 1:
                return self._columns(it.args[0], env)
        if isinstance(it, ast.Call):
            tg = self.s.resolve(it, self.fi)
            if tg and self.depth < 5:
                out = None
                for key in tg:
                    callee = self.s.funcs[key]
                    if callee.outer is not None and callee.outer is self.fi:
                        return None
                    self.s.return_labels(key, self.depth)
                    el = getattr(callee, "yield_elems", None)
                    if not el or (out is not None and len(out) != len(el)):
                        return None
                    if out is None:
                        out = [set() for _ in el]
                    pmap = self.bind(it, callee, env)
                    for i, rl in enumerate(el):
                        out[i] |= {l for l in rl if not l.startswith("P:")}
                        for p in params_of(rl):
                            out[i] |= pmap.get(p, set())
                return tuple(frozenset(x) for x in out) if out else None
        return None

    def _elem_labels(self, it, env):
        """labels of one element of the iterable"""
        hl = self._hash_order(it, env)
        if isinstance(it, ast.Call) and isinstance(it.func, ast.Name) and it.func.id == "range":
            return self.at.get(it, set()) | hl
        return self.at.get(it, self.expr(it, env)) | hl

    def len_labels(self, it, env, depth=0):
        """labels of the NUMBER of elements an iterable yields, or None when only the content labels are known"""
        if depth > 4 or it is None:
            return None
        rows = self._literal_rows(it)
        if rows is not None:
            return set()
        if isinstance(it, ast.Name):
            l = env.get("#len:" + it.id)
            return set(l) if l is not None else None
        if isinstance(it, (ast.List, ast.Tuple)) and not any(isinstance(x, ast.Starred) for x in it.elts):
            return set()
        if isinstance(it, ast.Call) and isinstance(it.func, ast.Name) and not it.keywords and \
                not any(isinstance(a, ast.Starred) for a in it.args):
            if it.func.id in ("enumerate", "reversed", "list", "tuple", "sorted", "iter") and it.args:
                return self.len_labels(it.args[0], env, depth + 1)
            if it.func.id == "zip" and it.args:
                ls = [self.len_labels(a, env, depth + 1) for a in it.args]
                return None if any(l is None for l in ls) else set().union(*ls)
            if it.func.id == "range":
                out = set()
                for a in it.args:
                    out |= self.at.get(a, self.expr(a, env))
                return out
        if isinstance(it, ast.Call) and isinstance(it.func, ast.Attribute) and it.func.attr in ("items", "keys", "values") and not it.args:
            return self.len_labels(it.func.value, env, depth + 1)
        if isinstance(it, ast.Subscript) and isinstance(it.slice, ast.Slice):
            l = self.len_labels(it.value, env, depth + 1)
            return None if l is None else l | self.at.get(it.slice, self.expr(it.slice, env))
        if isinstance(it, ast.BinOp) and isinstance(it.op, ast.Add):
            a, b = self.len_labels(it.left, env, depth + 1), self.len_labels(it.right, env, depth + 1)
            return None if a is None or b is None else a | b
        if isinstance(it, ast.Call):
            # a call of a generator function of the program: the number of values it yields
            tg = self.s.resolve(it, self.fi)
            if tg and self.depth < 5:
                out = set()
                for key in tg:
                    callee = self.s.funcs[key]
                    if callee.outer is not None and callee.outer is self.fi:
                        return None
                    self.s.return_labels(key, self.depth)
                    yl = getattr(callee, "yield_len", None)
                    if yl is None:
                        return None
                    out |= {l for l in yl if not l.startswith("P:")}
                    pmap = self.bind(it, callee, env)
                    for p in params_of(yl):
                        out |= pmap.get(p, set())
                return out
        return None

    def join(self, a, b):
        out = dict(a)
        for k, v in b.items():
            if k[0] == "#":
                if k in a and k.startswith("#len:"):
                    out[k] = set(a[k]) | set(v)
                elif k in a and k.startswith("#fld:") and set(a[k]) == set(v):
                    out[k] = {f: frozenset(a[k][f] | v[f]) for f in v}
                elif k in a and not k.startswith("#fld:") and isinstance(a[k], tuple) and len(a[k]) == len(v):
                    out[k] = tuple(frozenset(x | y) for x, y in zip(a[k], v))
                else:
                    out.pop(k, None)
                continue
            out[k] = out.get(k, set()) | v
        for k in list(out):
            if k[0] == "#" and k not in b:
                del out[k]
        return out

    def _forget(self, name, env):
        for pre in ("#", "#col:", "#len:", "#fld:", "?"):
            env.pop(pre + name, None)

    def _assign_name(self, name, lab, env, weak):
        if weak:
            env[name] = env.get(name, set()) | lab
            for pre in ("#", "#col:", "#fld:"):
                env.pop(pre + name, None)
            if ("#len:" + name) in env:
                env["#len:" + name] = set(env["#len:" + name]) | lab
        else:
            env[name] = set(lab)
            self._forget(name, env)
        self.ever[name] = self.ever.get(name, set()) | lab

    def _structure(self, name, value, lab, env):
        """per-field / per-column / length labels of a name bound to a display, a comprehension or a copy of a known structure"""
        pcx = None
        if isinstance(value, (ast.Tuple, ast.List)) and not any(isinstance(x, ast.Starred) for x in value.elts):
            labs = [self.at.get(v, set()) for v in value.elts]
            pcx = lab - set().union(*labs) if labs else set(lab)
            env["#" + name] = tuple(frozenset(l | pcx) for l in labs)
            env["#len:" + name] = set(pcx)
            if isinstance(value, ast.List):
                rows = [v for v in value.elts]
                if not rows:
                    env["#col:" + name] = ()
                elif all(isinstance(r, (ast.Tuple, ast.List)) and len(r.elts) == len(rows[0].elts) and
                         not any(isinstance(x, ast.Starred) for x in r.elts) for r in rows):
                    env["#col:" + name] = tuple(frozenset(set().union(*[self.at.get(r.elts[k], set()) for r in rows]) | pcx)
                                               for k in range(len(rows[0].elts)))
        elif isinstance(value, ast.Name):
            for pre in ("#", "#col:", "#len:", "#fld:"):
                if (pre + value.id) in env:
                    env[pre + name] = env[pre + value.id]
        elif isinstance(value, (ast.ListComp, ast.SetComp, ast.DictComp, ast.GeneratorExp)):
            ll = set()
            for g in value.generators:
                l_ = self.len_labels(g.iter, env)
                ll |= l_ if l_ is not None else self.at.get(g.iter, set())
                for c in g.ifs:
                    ll |= self.at.get(c, set())
            pcx = {l for l in lab if l in self._pc_now}
            env["#len:" + name] = ll | pcx
            if isinstance(value, ast.ListComp) and isinstance(value.elt, (ast.Tuple, ast.List)) and \
                    not any(isinstance(x, ast.Starred) for x in value.elt.elts):
                env["#col:" + name] = tuple(frozenset(self.at.get(x, set()) | ll | pcx) for x in value.elt.elts)
        elif isinstance(value, ast.Call) and isinstance(value.func, ast.Name) and value.func.id in ("list", "tuple", "dict", "set", "sorted") \
                and not value.keywords:
            if not value.args:
                env["#len:" + name] = {l for l in lab}
                if value.func.id == "list":
                    env["#col:" + name] = ()
            elif len(value.args) == 1:
                l_ = self.len_labels(value.args[0], env)
                if l_ is not None and value.func.id != "set":
                    env["#len:" + name] = l_ | {l for l in lab if l in self._pc_now}
        elif isinstance(value, ast.Dict) and not any(k is None for k in value.keys):
            labs = set()
            for v in list(value.keys) + list(value.values):
                labs |= self.at.get(v, set())
            env["#len:" + name] = lab - labs
        elif isinstance(value, ast.Call):
            flds = self.s.record_fields(value, self.fi)
            if flds is not None:
                got = {}
                for i, a in enumerate(value.args):
                    if isinstance(a, ast.Starred) or i >= len(flds):
                        return
                    got[flds[i]] = frozenset(self.at.get(a, set()))
                for k in value.keywords:
                    if k.arg is None or k.arg not in flds:
                        return
                    got[k.arg] = frozenset(self.at.get(k.value, set()))
                env["#fld:" + name] = {f: got.get(f, frozenset()) for f in flds}
                env["#" + name] = tuple(got.get(f, frozenset()) for f in flds)

    _pc_now: set = set()

    def assign(self, t, lab, env, value, weak=False):
        if isinstance(t, ast.Name):
            self._assign_name(t.id, lab, env, weak)
            if not weak and value is not None:
                try:
                    self._structure(t.id, value, lab, env)
                except Exception:
                    self._forget_structure(t.id, env)
        elif isinstance(t, (ast.Tuple, ast.List)):
            star = any(isinstance(x, ast.Starred) for x in t.elts)
            if isinstance(value, (ast.Tuple, ast.List)) and len(value.elts) == len(t.elts) and not star and \
                    not any(isinstance(x, ast.Starred) for x in value.elts):
                labs = [self.expr(v, env) for v in value.elts]
                pcx = lab - set().union(*labs) if labs else lab
                for e, l, v in zip(t.elts, labs, value.elts):
                    self.assign(e, l | pcx, env, v)
            elif isinstance(value, ast.Name) and not star and len(env.get("#" + value.id, ())) == len(t.elts) and t.elts:
                # unpacking a tuple / record of known fields: each target takes its own field
                labs = [set(x) for x in env["#" + value.id]]
                pcx = lab - env.get(value.id, set())
                for e, l in zip(t.elts, labs):
                    self.assign(e, l | pcx, env, None)
            else:
                for e in t.elts:
                    self.assign(e, lab, env, None)
        elif isinstance(t, ast.Starred):
            self.assign(t.value, lab, env, None)
        elif isinstance(t, ast.Subscript):
            lab2 = lab | self.expr(t.slice, env)
            self.assign(t.value, lab2, env, None, weak=True)
        elif isinstance(t, ast.Attribute):
            if isinstance(t.value, ast.Name) and t.value.id == "self" and self.fi.cls:
                if self.collect_attrs:
                    clean = {l for l in lab if not l.startswith("P:")}
                    if self.fi.qual.split(".")[-1] in self.s.b4_ok or self.fi.qual in self.s.b4_ok:
                        clean.discard(HASH)
                        clean.discard("!" + HASH)
                    key = (self.fi.cls, t.attr)
                    self.s.class_attr[key] = self.s.class_attr.get(key, set()) | clean
                    if value is not None and not weak:
                        self.s.note_attr_structure(self.fi.cls, t.attr, self, value, lab, env)
                    else:
                        self.s.note_attr_structure(self.fi.cls, t.attr, self, None, lab, env)
                env["self." + t.attr] = (env.get("self." + t.attr, set()) | lab) if weak else set(lab)
            else:
                self.assign(t.value, lab, env, None, weak=True)

    def _forget_structure(self, name, env):
        for pre in ("#", "#col:", "#len:", "#fld:"):
            env.pop(pre + name, None)

    # -- expressions
    def expr(self, e, env) -> set:
        lab = self._expr(e, env)
        self.at[e] = lab
        return lab

    def _free_name(self, name) -> set:
        """labels of a name that is not a local of this function: a name of an enclosing function (closure), of the module, a builtin"""
        if self.closure is not None and name in self.closure:
            return set(self.closure[name])
        out = self.s.outer_name(self.fi, name)
        if out is not None:
            return out
        m = self.s.module_name(self.fi.rel, name, self.depth)
        if m is not None:
            return m
        import builtins
        if hasattr(builtins, name):
            return set()
        # AUDIT: a name with no binding the engine can see (star import, injected global): nothing is known about it
        return {UNK}

    def _typed_geometry(self, recv, env, depth=0):
        """is the receiver known to be a layout / layout manager / grid object (the objects whose size, shape, starts, ... are those of
        the rank's own block)?  True / False (known to be something else: an array, a display) / None (unknown)"""
        if depth > 3:
            return None
        if isinstance(recv, ast.Name) and recv.id == "self":
            return True if self.fi.cls in self.s.geometry_classes else False if self.fi.cls else None
        types = self.s.type_of(recv, self.fi.node, self.fi.cls)
        if types:
            return True if any(t in self.s.geometry_classes for t in types) else False
        if isinstance(recv, (ast.List, ast.Tuple, ast.Dict, ast.Set, ast.ListComp, ast.Constant, ast.BinOp, ast.JoinedStr, ast.Compare)):
            return False
        if isinstance(recv, ast.IfExp):
            a, b = self._typed_geometry(recv.body, env, depth + 1), self._typed_geometry(recv.orelse, env, depth + 1)
            return a if a == b else None
        if isinstance(recv, ast.NamedExpr):
            return self._typed_geometry(recv.value, env, depth + 1)
        if isinstance(recv, ast.Call):
            f = recv.func
            if isinstance(f, ast.Attribute) and isinstance(f.value, ast.Name) and f.value.id in ("np", "numpy"):
                return False
            if isinstance(f, ast.Name) and f.id in ("list", "tuple", "dict", "set", "sorted", "range", "len", "zip", "enumerate", "str", "int", "float"):
                return False
            tg = self.s.resolve(recv, self.fi)
            if tg and all(q.endswith(".__init__") for _, q in tg):
                return True if any(q.split(".")[0] in self.s.geometry_classes for _, q in tg) else False
            if isinstance(f, ast.Attribute) and f.attr in ("getLayout", "getLayoutHandler"):
                return True
            return None
        if isinstance(recv, ast.Subscript):
            # an element of a table of layouts is a layout; a slice / element of an array is an array or a number
            inner = self._typed_geometry(recv.value, env, depth + 1)
            if inner is not None:
                return inner
        if isinstance(recv, ast.Attribute) and recv.attr in UNIFORM_ATTR and recv.attr not in _AMBIGUOUS_ATTR and \
                recv.attr not in ("availableLayouts",):
            return False          # eta_grid, fullShape, ... of a layout: arrays / lists of global quantities
        if isinstance(recv, ast.Attribute) and isinstance(recv.value, ast.Name) and recv.value.id == "self" and self.fi.cls:
            k = self.s.attr_kind(self.fi.cls, recv.attr)
            if k is not None:
                return k
        if isinstance(recv, ast.Name):
            if recv.id in self._locals and recv.id not in self.fi.params:
                vals = [n.value for n in ast.walk(self.fi.node) if isinstance(n, ast.Assign) and
                        any(isinstance(t, ast.Name) and t.id == recv.id for t in n.targets)]
                stores = [n for n in ast.walk(self.fi.node) if isinstance(n, ast.Name) and n.id == recv.id and isinstance(n.ctx, ast.Store)]
                if vals and len(vals) == len(stores):
                    ks = {self._typed_geometry(v, env, depth + 1) for v in vals}
                    if len(ks) == 1:
                        k = ks.pop()
                        if k is not None:
                            return k
        # naming convention of the repository (documented API: arguments called layout / grid / manager are such objects)
        if _GEOMETRY_NAME.search(src(recv).split(".")[-1].split("[")[0]):
            return True
        return None

    def _attribute(self, e, env) -> set:
        attr = e.attr
        if isinstance(e.value, ast.Name) and e.value.id == "self" and self.fi.cls:
            k = "self." + attr
            base = set()
            if attr in RANKDEP_ATTR:
                # AUDIT: by name the attribute is block geometry / field data only on the classes of the layout and grid units
                base = S(RANKDEP_ATTR[attr]) if self.fi.cls in self.s.geometry_classes else set()
            if k in env:
                return env[k] | base
            known = self.s.attr_known(self.fi.cls, attr)
            lab = self.s.attr_label(self.fi.cls, attr) | base
            if not known and not base and attr not in UNIFORM_ATTR:
                prop = self.s.property_labels(self.fi.cls, attr, self.depth)
                if prop is not None:
                    return lab | prop
                if not self.s.is_method(self.fi.cls, attr):
                    # AUDIT: no assignment to self.<attr> anywhere in the class hierarchy inside the analysed units (defined in a base
                    # class outside them, by setattr, in __slots__/dataclass fields ...): unknown
                    return lab | {UNK}
            return lab
        if isinstance(e.value, ast.Name) and self._module_alias(e.value.id):
            return set()                       # an attribute of a module
        if isinstance(e.value, ast.Name) and e.value.id in self.s.prog.classes and e.value.id not in self._locals:
            return set()                       # class attribute / enum member / method object: fixed by the source text
        inner = self.expr(e.value, env)
        # a field of a record bound to a local
        if isinstance(e.value, ast.Name) and ("#fld:" + e.value.id) in env and attr in env["#fld:" + e.value.id]:
            return set(env["#fld:" + e.value.id][attr])
        typed = self._typed_geometry(e.value, env)
        if attr in UNIFORM_ATTR:
            # AUDIT: `nprocs`, `fullShape`, `eta_grid`, ... are the same on every rank on layouts / grids / managers (global quantities
            # of the decomposition).  On an object of unknown type the name says nothing: the labels of the object stand
            if typed is True or (typed is None and attr not in _AMBIGUOUS_ATTR):
                return set()
            return inner
        if attr in RANKDEP_ATTR:
            L = RANKDEP_ATTR[attr]
            if typed is True:
                return inner | S(L)
            if typed is False:
                return inner               # size / shape of an array, a list: a function of how it was made (labels of the value)
            if attr not in _AMBIGUOUS_ATTR and self.s.attr_only_in_geometry(attr):
                return inner | S(L)        # the attribute exists on the layout / grid classes only
            return inner | {L}             # by name only: not established
        types = self.s.type_of(e.value, self.fi.node, self.fi.cls)
        if types:
            out, hit = set(inner), False
            for t in types:
                if self.s.attr_known(t, attr):
                    out |= self.s.attr_label(t, attr)
                    hit = True
                else:
                    prop = self.s.property_labels(t, attr, self.depth)
                    if prop is not None:
                        out |= prop
                        hit = True
                    elif self.s.is_method(t, attr):
                        hit = True
            if hit:
                return out
        return inner

    def _expr(self, e, env) -> set:
        if e is None or isinstance(e, ast.Constant):
            return set()
        if isinstance(e, ast.Name):
            if ("?" + e.id) in env:
                self.__dict__.setdefault("none_at", {})[e] = set(env["?" + e.id])
            if e.id in env:
                out = set(env[e.id])
                if e.id in self._declared_out:
                    out |= {UNK}          # rebound through a global / nonlocal declaration somewhere: not followed
                return out
            if e.id in self._locals:
                return set()              # a local read before any assignment on this path (assigned later in a loop): no value yet
            return self._free_name(e.id)
        if isinstance(e, ast.Attribute):
            return self._attribute(e, env)
        if isinstance(e, ast.Call):
            return self.call(e, env)
        if isinstance(e, ast.Subscript):
            vl, sl = self.expr(e.value, env), self.expr(e.slice, env)
            if isinstance(e.value, ast.Name):
                k = _const_int(e.slice)
                flds = env.get("#" + e.value.id)
                if k is not None and flds is not None and -len(flds) <= k < len(flds):
                    return set(flds[k])                     # one field of a tuple / record of known arity
            rows = self._literal_rows(e.value) if isinstance(e.value, (ast.Name, ast.Attribute)) else None
            if rows is not None and isinstance(e.value, ast.Name) is False or (rows is not None and e.value.id not in env):
                # an entry of a table fixed by the source text (module constant / class attribute): the labels of the entries
                t = self._const_table(e.value)
                out = set(sl)
                vals = list(t.values) if isinstance(t, ast.Dict) else rows
                for r in vals:
                    out |= self.expr(r, env)
                return out
            return vl | sl
        if isinstance(e, ast.Slice):
            return self.expr(e.lower, env) | self.expr(e.upper, env) | self.expr(e.step, env)
        if isinstance(e, (ast.BinOp,)):
            return self.expr(e.left, env) | self.expr(e.right, env)
        if isinstance(e, ast.UnaryOp):
            return self.expr(e.operand, env)
        if isinstance(e, ast.BoolOp):
            out = set()
            for v in e.values:
                out |= self.expr(v, env)
            return out
        if isinstance(e, ast.Compare):
            if len(e.ops) == 1 and isinstance(e.ops[0], (ast.Is, ast.IsNot)) and \
                    isinstance(e.comparators[0], ast.Constant) and e.comparators[0].value is None:
                self.expr(e.left, env)
                return self.noneness(e.left, env)
            out = self.expr(e.left, env)
            for c in e.comparators:
                out |= self.expr(c, env)
            return out
        if isinstance(e, ast.IfExp):
            return self.expr(e.test, env) | self.expr(e.body, env) | self.expr(e.orelse, env)
        if isinstance(e, (ast.Tuple, ast.List, ast.Set)):
            out = set()
            for v in e.elts:
                out |= self.expr(v, env)
            return out
        if isinstance(e, ast.Dict):
            out = set()
            for v in list(e.keys) + list(e.values):
                if v is not None:
                    out |= self.expr(v, env)
            return out
        if isinstance(e, ast.Starred):
            return self.expr(e.value, env)
        if isinstance(e, (ast.ListComp, ast.SetComp, ast.GeneratorExp, ast.DictComp)):
            env2 = dict(env)
            out = set()
            for g in e.generators:
                il = self.expr(g.iter, env2)
                order = self._hash_order(g.iter, env2)
                rows = self._literal_rows(g.iter)
                bound = self._bind_rows(g.target, rows) if rows is not None else None
                cols = self._columns(g.iter, env2) if rows is None else None
                if bound is not None:
                    for t_, nodes in bound:
                        lab_k = set()
                        for r in nodes:
                            lab_k |= self.expr(r, env2)
                        self.assign(t_, lab_k, env2, None)
                elif cols is not None and isinstance(g.target, (ast.Tuple, ast.List)) and len(cols) == len(g.target.elts) and \
                        not any(isinstance(x, ast.Starred) for x in g.target.elts):
                    ll = self.len_labels(g.iter, env2)
                    for t_, l_ in zip(g.target.elts, cols):
                        self.assign(t_, set(l_) | order | (ll if ll is not None else il), env2, None)
                else:
                    self.assign(g.target, il | order, env2, None)
                # what the comprehension holds depends on the elements; how many it holds on the number of passes and the filters
                ll = self.len_labels(g.iter, env2)
                out |= (ll if ll is not None and (bound is not None or cols is not None) else il) | (order if not isinstance(e, ast.SetComp) else set())
                for c in g.ifs:
                    out |= self.expr(c, env2)
            if isinstance(e, ast.DictComp):
                out |= self.expr(e.key, env2) | self.expr(e.value, env2)
            else:
                out |= self.expr(e.elt, env2)
            return out
        if isinstance(e, ast.Lambda):
            env2 = dict(env)
            for a in ast.walk(e.args):
                if isinstance(a, ast.arg):
                    env2[a.arg] = set()
                    self._forget(a.arg, env2)
            for d in list(e.args.defaults) + [d for d in e.args.kw_defaults if d is not None]:
                self.expr(d, env)
            return self.expr(e.body, env2)
        if isinstance(e, ast.JoinedStr):
            out = set()
            for v in e.values:
                out |= self.expr(v, env)
            return out
        if isinstance(e, ast.FormattedValue):
            return self.expr(e.value, env) | (self.expr(e.format_spec, env) if e.format_spec is not None else set())
        if isinstance(e, ast.NamedExpr):
            l = self.expr(e.value, env)
            self.assign(e.target, l | self._pc_now, env, e.value)
            return l
        if isinstance(e, (ast.Await, ast.Yield, ast.YieldFrom)):
            # AUDIT: what a generator is sent / an awaitable returns is not modelled
            if getattr(e, "value", None) is not None:
                self.expr(e.value, env)
            return {UNK}
        # AUDIT: an expression kind the flow does not model: the labels of its parts, and unknown on top
        out = {UNK}
        for ch in ast.iter_child_nodes(e):
            if isinstance(ch, ast.expr):
                out |= self.expr(ch, env)
        return out

    def noneness(self, x, env) -> set:
        """labels of the predicate `x is None` (presence, not content)"""
        if isinstance(x, ast.Constant):
            return set()
        if isinstance(x, ast.Name):
            return self._none_of_name(x.id, env.get(x.id, set()), env.get("?" + x.id))
        if isinstance(x, ast.Attribute) and isinstance(x.value, ast.Name) and x.value.id == "self":
            pres = self.s.attr_presence(self.fi.cls, x.attr) if self.fi.cls and ("self." + x.attr) not in env else None
            if pres is not None:
                return pres
            return self._expr(x, env)
        if isinstance(x, (ast.List, ast.Tuple, ast.Dict, ast.Set, ast.ListComp, ast.BinOp, ast.Compare, ast.JoinedStr)):
            return set()
        # AUDIT: presence of any other expression (a call result, a subscript, an attribute of another object): its content labels,
        # which cover whatever decided it
        return self._expr(x, env)

    def _fs_write(self, e, s, name, recv):
        if s in _FS_WRITE_CALLS:
            return True
        if name in ("open", "File") and (recv is None or src(recv) in ("h5py", "io")):
            mode = e.args[1] if len(e.args) > 1 else next((k.value for k in e.keywords if k.arg == "mode"), None)
            if mode is None:
                return False
            if isinstance(mode, ast.Constant) and isinstance(mode.value, str):
                return any(ch in mode.value for ch in "wax+")
            return True
        if recv is not None and name in _FS_WRITE_METHODS and not is_comm_expr(recv):
            return name not in ("replace", "rename") or not isinstance(recv, ast.Constant)
        return False

    def _fs_read_label(self, argl):
        # AUDIT: the state of the shared file system is the same for every rank only while nobody changes it.  After the function has
        # modified the file system what a rank sees depends on when it looks: not established uniform (label CLOCK, not established)
        return argl | {FS} | ({CLOCK} if self.fs_written else set())

    def call(self, e: ast.Call, env) -> set:
        f = e.func
        argl = set()
        star = False
        for a in e.args:
            argl |= self.expr(a, env)
            star = star or isinstance(a, ast.Starred)
            if isinstance(a, ast.Starred) and isinstance(a.value, ast.Name) and ("#" + a.value.id) in env:
                # *t with t a tuple / record of known fields: the expansion is known position by position
                old_ = self.star_fields.get(a)
                new_ = tuple(env["#" + a.value.id])
                self.star_fields[a] = new_ if old_ is None else \
                    (tuple(frozenset(x | y) for x, y in zip(old_, new_)) if len(old_) == len(new_) else ())
            elif isinstance(a, ast.Starred) and isinstance(a.value, (ast.Tuple, ast.List)) and \
                    not any(isinstance(x, ast.Starred) for x in a.value.elts):
                self.star_fields[a] = tuple(frozenset(self.at.get(x, set())) for x in a.value.elts)
            elif isinstance(a, ast.Starred):
                self.star_fields[a] = ()
        for k in e.keywords:
            argl |= self.expr(k.value, env)
            star = star or k.arg is None
        name = f.id if isinstance(f, ast.Name) else f.attr if isinstance(f, ast.Attribute) else ""
        recv = f.value if isinstance(f, ast.Attribute) else None
        s = src(f)
        local_callee = isinstance(f, ast.Name) and f.id in self._locals
        # sources
        if recv is not None and name in ("Get_rank", "Get_coords", "Get_topo"):
            return S(RANK)
        if recv is not None and name == "Get_cart_rank":
            return argl | self.expr(recv, env)            # the rank AT the given coordinates: a function of the coordinates
        if s in ("time.time", "time.perf_counter", "time.monotonic", "time.process_time", "time.clock", "time.time_ns",
                 "time.perf_counter_ns", "MPI.Wtime") or \
                (name in ("time", "perf_counter", "now", "today", "utcnow") and recv is not None and src(recv) in ("time", "datetime", "datetime.datetime")):
            return S(CLOCK)
        if self._fs_write(e, s, name, recv):
            self.fs_written = True
        if s.startswith(("os.path.", "os.listdir", "os.stat", "os.getcwd", "os.scandir", "os.access", "os.walk", "glob.")) or \
                name in ("glob", "iglob") or (name == "File" and recv is not None and src(recv) == "h5py") or \
                (name == "open" and not local_callee) or s in ("np.load", "np.loadtxt", "np.fromfile", "np.genfromtxt", "json.load") or \
                (recv is not None and name in _FS_READ_METHODS and not is_comm_expr(recv) and
                 self._typed_geometry(recv, env) is not True and not (isinstance(recv, ast.Name) and ("#len:" + recv.id) in env)):
            return self._fs_read_label(argl | (self.expr(recv, env) if recv is not None and name in _FS_READ_METHODS else set()))
        if s in ("os.getpid", "os.getppid", "id", "os.urandom", "uuid.uuid4", "uuid.uuid1", "socket.gethostname", "platform.node") \
                and not local_callee:
            return S(RANK)
        if (s == "hash" and not local_callee):
            # AUDIT: the hash of a string is salted per interpreter; the hash of an integer is the integer
            a0 = e.args[0] if e.args else None
            if isinstance(a0, ast.Constant) and isinstance(a0.value, (int, float)) or \
                    (isinstance(a0, ast.Call) and isinstance(a0.func, ast.Name) and a0.func.id in ("int", "len", "float")):
                return argl
            if isinstance(a0, (ast.JoinedStr,)) or (isinstance(a0, ast.Constant) and isinstance(a0.value, str)) or \
                    (isinstance(a0, ast.Call) and isinstance(a0.func, ast.Name) and a0.func.id in ("str", "repr")):
                return argl | S(HASH)
            return argl | {HASH}
        if s.startswith(("random.", "np.random.", "numpy.random.")) or (isinstance(f, ast.Attribute) and src(f.value).endswith("random")
                                                                         and is_comm_expr(f.value) is False and name in
                                                                         ("random", "rand", "randn", "randint", "choice", "shuffle", "uniform", "normal", "sample", "permutation")):
            if name in ("seed", "default_rng", "RandomState", "Random", "SeedSequence"):
                return argl
            # AUDIT: a generator that was never seeded draws from the entropy of the process; after a seed every rank draws the same
            # numbers if the seed is the same: established only when the unit never seeds
            return argl | (S(RANK) if not self.s.unit_seeds(self.fi.rel) else {RANK})
        # unordered choices
        if name in ("min", "max", "next", "list", "tuple", "iter", "sorted", "enumerate", "zip", "reversed") and e.args and isinstance(f, ast.Name):
            k = self._set_kind(e.args[0], env)
            if k is not None and name != "sorted":
                total = name in ("min", "max") and len(e.args) == 1 and not any(kw.arg == "key" for kw in e.keywords)
                fq = self.fi.qual.split(".")[-1]
                if fq not in self.s.b4_ok and not total:     # min / max without a key: the element itself, whatever the order
                    argl = argl | self._hash_label(k)
        if name == "pop" and recv is not None and not e.args and self._set_kind(recv, env) is not None:
            return argl | self.expr(recv, env) | self._hash_label(self._set_kind(recv, env))
        # sanitisers
        # AUDIT: the result of Allreduce / bcast / allgather / Get_size is the same on every rank OF THAT communicator; collectives
        # governed by it on the same communicator or on one of its sub-communicators are matched (a quantity of a sub-communicator
        # used to govern a collective of the parent is the subject of B11 in the props file, not of the labels)
        if recv is not None and name in SANITISERS and is_comm_expr(recv):
            return set()
        if recv is not None and name in COLLECTIVE_OPS and is_comm_expr(recv):
            if name in ("Create_cart", "Sub", "Split", "Dup", "Create_graph", "Create"):
                return set()          # a communicator object
            return S(RANK)            # rooted results exist at the root only; scattered / scanned results differ by construction
        if recv is not None and is_comm_expr(recv) and name in _POINT_TO_POINT:
            self.expr(recv, env)
            return argl | {RANK, DATA}     # what another rank sent: not modelled further (not established)
        recl = self.expr(recv, env) if recv is not None else set()
        if name in ("mpi_starts", "mpi_lengths"):
            return {l for l in argl}
        if name == "len" and isinstance(f, ast.Name) and not local_callee and len(e.args) == 1:
            ll = self.len_labels(e.args[0], env)
            if ll is not None:
                return ll
        if name == "getattr" and isinstance(f, ast.Name) and not local_callee and len(e.args) >= 2 and \
                isinstance(e.args[1], ast.Constant) and isinstance(e.args[1].value, str):
            fake = ast.Attribute(value=e.args[0], attr=e.args[1].value, ctx=ast.Load())
            return self._attribute(fake, env) | (self.at.get(e.args[2], set()) if len(e.args) > 2 else set())
        # resolved repo function: use its return summary
        tg = self.s.resolve(e, self.fi)
        if tg and self.depth < 5:
            out = set()
            for key in tg:
                callee = self.s.funcs[key]
                if callee.outer is not None and callee.outer is self.fi:
                    # a function defined inside this one: its free names are the locals of this function as they are now
                    sub = LabelFlow(self.s, callee, depth=self.depth + 1, closure=self._closure_view(env))
                    sub.run()
                    rl = sub.ret | (self._generator_labels(callee, sub))
                    self.fs_written = self.fs_written or sub.fs_written
                else:
                    rl = self.s.return_labels(key, self.depth)
                out |= {l for l in rl if not l.startswith("P:")}
                pmap = self.bind(e, callee, env)
                for p in params_of(rl):
                    out |= pmap.get(p, set())
                if "self" in params_of(rl) or callee.cls:
                    out |= {l for l in recl if not l.startswith("P:")} if callee.qual.endswith("__init__") is False else set()
            return out
        if tg:
            return argl | recl | {UNK}      # AUDIT: call depth exhausted: the callee's summary was not computed
        return self._unresolved_call(e, f, name, recv, argl, recl, env, local_callee)

    def _closure_view(self, env):
        view = dict(self.closure or {})
        for k, v in env.items():
            if k[0] not in "#?":
                view[k] = v
        return view

    def _generator_labels(self, callee, sub):
        """labels of the iterable a generator function returns: what it yields; UNK when a yield is used as an expression (values sent
        into the generator are not followed)"""
        ys = [n for n in ast.walk(callee.node) if isinstance(n, (ast.Yield, ast.YieldFrom)) and self.s._owner(n) is callee.node]
        if not ys:
            return set()
        as_stmt = all(isinstance(parent(n), ast.Expr) for n in ys)
        return set(sub.yielded) | (set() if as_stmt else {UNK})

    def _unresolved_call(self, e, f, name, recv, argl, recl, env, local_callee):
        """AUDIT: a call the program index does not resolve.  The result is taken to be a function of the receiver and the arguments
        only for the callees listed as such (builtins, numpy / math / ... namespaces, methods of the built-in containers and arrays,
        functions of repository modules outside the analysed units that do not touch MPI / clocks / random); anything else: unknown"""
        if isinstance(f, ast.Name):
            if local_callee:
                # a local bound to a lambda / a function object / a class: what it computes is in its own labels (lambda bodies are
                # labelled where they are written) - when it is a parameter or the result of a call, unknown
                v = self._single_def(f.id)
                if isinstance(v, ast.Lambda):
                    return argl | env.get(f.id, set())
                return argl | env.get(f.id, set()) | {UNK}
            import builtins
            if f.id in _PURE_BUILTINS or (hasattr(builtins, f.id) and f.id not in ("input", "eval", "exec", "id", "hash", "open", "globals",
                                                                                "locals", "__import__", "compile", "breakpoint")):
                return argl
            if f.id in self.s.prog.classes or self.s.record_fields(e, self.fi) is not None:
                return argl                 # a class of the program without __init__ in the units / a record type (namedtuple)
            k = self.s.external_kind(self.fi.rel, f.id)
            if k == "pure":
                return argl
            return argl | {UNK}
        if isinstance(f, ast.Attribute):
            root = f.value
            while isinstance(root, ast.Attribute):
                root = root.value
            if isinstance(root, ast.Name) and root.id in _PURE_MODULES and self._module_alias(root.id):
                return argl
            if isinstance(root, ast.Name) and root.id not in self._locals and self.s.external_kind(self.fi.rel, root.id) == "pure":
                return argl
            if is_comm_expr(recv) and name not in _PURE_METHODS:
                return argl | recl | {UNK}
            # AUDIT: a method the program index does not resolve, on a receiver that is not a communicator: a method of a built-in
            # container / string / array / library object (methods of the classes of the analysed units are resolved by the index,
            # by type or by the uniqueness of their name): its result is a function of the receiver and the arguments
            return argl | recl
        # f(...)(...), table[k](...), (lambda ...)(...): the callee is a computed value
        fl = self.expr(f, env)
        if isinstance(f, ast.Lambda):
            return argl | fl
        return argl | fl | {UNK}

    def call_elems(self, e: ast.Call, env, n):
        """per-element labels of a tuple-returning repo call, or None"""
        tg = self.s.resolve(e, self.fi)
        if not tg or self.depth >= 5:
            return None
        out = None
        for key in tg:
            callee = self.s.funcs[key]
            if callee.outer is not None and callee.outer is self.fi:
                return None
            self.s.return_labels(key, self.depth)
            el = getattr(callee, "ret_elems", None)
            if el is None or (n is not None and len(el) != n):
                return None
            if out is None:
                out = [set() for _ in el]
            elif len(out) != len(el):
                return None
            pmap = self.bind(e, callee, env)
            for i, rl in enumerate(el):
                out[i] |= {l for l in rl if not l.startswith("P:")}
                for p in params_of(rl):
                    out[i] |= pmap.get(p, set())
        return out

    def bind(self, call: ast.Call, callee: FuncInfo, env):
        """actual labels per callee parameter"""
        params = list(callee.params)
        if callee.cls and params and params[0] == "self" and not isinstance(call.func, ast.Name) \
                and not (isinstance(call.func, ast.Attribute) and isinstance(call.func.value, ast.Name)
                         and call.func.value.id == callee.cls):
            params = params[1:]
        elif callee.cls and params and params[0] == "self" and isinstance(call.func, ast.Name):
            params = params[1:]      # constructor call Class(...)
        out = {}
        va = callee.node.args.vararg.arg if callee.node.args.vararg else None
        kw = callee.node.args.kwarg.arg if callee.node.args.kwarg else None
        kwonly = {a.arg for a in callee.node.args.kwonlyargs}
        pos = [p for p in params if p not in (va, kw) and p not in kwonly]
        named = [p for p in params if p not in (va, kw)]
        flat_args = []
        for a in call.args:
            sf = self.star_fields.get(a) if isinstance(a, ast.Starred) else None
            if isinstance(a, ast.Starred) and sf:
                flat_args.extend(("fields", l) for l in sf)
            else:
                flat_args.append(("node", a))
        if not any(k == "node" and isinstance(a, ast.Starred) for k, a in flat_args) and not any(k.arg is None for k in call.keywords) \
                and any(k == "fields" for k, a in flat_args):
            # every star-expanded actual is a tuple of known fields: bound position by position
            for i, (k_, a) in enumerate(flat_args):
                if k_ == "node":
                    l = self.at.get(a)
                    if l is None:
                        l = self.expr(a, env)
                    nn = self.noneness_actual(a)
                else:
                    l, nn = set(a), {x for x in a if not x.startswith("P:")} | {x + "?" for x in a if x.startswith("P:") and not x.endswith("?")}
                if i < len(pos):
                    out[pos[i]] = out.get(pos[i], set()) | l
                    out[pos[i] + "?"] = nn
                elif va:
                    out[va] = out.get(va, set()) | l
            for k in call.keywords:
                l = self.at.get(k.value)
                if l is None:
                    l = self.expr(k.value, env)
                if k.arg in named:
                    out[k.arg] = out.get(k.arg, set()) | l
                    out[k.arg + "?"] = self.noneness_actual(k.value)
                elif kw:
                    out[kw] = out.get(kw, set()) | l
            return out
        if any(isinstance(a, ast.Starred) for a in call.args) or any(k.arg is None for k in call.keywords):
            self.inexact_binding.add(call)
            # AUDIT: star-expanded actuals: which parameter takes which value is not read off the call.  Every parameter that is not
            # bound by an explicit keyword may take any of the expanded values: their labels, none of them established, and UNK
            pool = {UNK}
            for a in list(call.args) + [k.value for k in call.keywords if k.arg is None]:
                l = self.at.get(a)
                if l is None:
                    l = self.expr(a, env)
                pool |= weaken(l)
            explicit = {}
            for k in call.keywords:
                if k.arg is not None:
                    l = self.at.get(k.value)
                    explicit[k.arg] = l if l is not None else self.expr(k.value, env)
            for p in named + [x for x in (va, kw) if x]:
                out[p] = set(explicit[p]) if p in explicit else set(pool)
                out[p + "?"] = {UNK}
            return out
        for i, a in enumerate(call.args):
            l = self.at.get(a)
            if l is None:
                l = self.expr(a, env)
            if i < len(pos):
                out[pos[i]] = out.get(pos[i], set()) | l
                out[pos[i] + "?"] = self.noneness_actual(a)
            elif va:
                out[va] = out.get(va, set()) | l
        for k in call.keywords:
            l = self.at.get(k.value)
            if l is None:
                l = self.expr(k.value, env)
            if k.arg in named:
                out[k.arg] = out.get(k.arg, set()) | l
                out[k.arg + "?"] = self.noneness_actual(k.value)
            elif kw:
                out[kw] = out.get(kw, set()) | l
        # parameters left to their default value: the default expression, evaluated once where the function is defined
        a_ = callee.node.args
        defaults = dict(zip([x.arg for x in (a_.posonlyargs + a_.args)][len(a_.posonlyargs + a_.args) - len(a_.defaults):], a_.defaults))
        defaults.update({x.arg: d for x, d in zip(a_.kwonlyargs, a_.kw_defaults) if d is not None})
        for p, d in defaults.items():
            if p not in out and not isinstance(d, ast.Constant):
                out[p] = self.s.default_labels(callee, d)
        return out

    def _maybe_none_local(self, name):
        for n in ast.walk(self.fi.node):
            if isinstance(n, ast.Assign) and isinstance(n.value, ast.Constant) and n.value.value is None:
                if any(isinstance(t, ast.Name) and t.id == name for t in n.targets):
                    return True
        return False

    def _none_of_name(self, name, l, tracked=None):
        if tracked is not None:
            return {(x + "?" if x.startswith("P:") and not x.endswith("?") else x) for x in tracked}
        if name in self.fi.params and l == {f"P:{name}"}:
            return {f"P:{name}?"}
        out = {(x + "?" if x.startswith("P:") and not x.endswith("?") else x) for x in l if x.startswith("P:")}
        if self._maybe_none_local(name):
            out |= {x for x in l if not x.startswith("P:")}
        return out

    def noneness_actual(self, a):
        if isinstance(a, ast.Name):
            return self._none_of_name(a.id, self.at.get(a, set()), getattr(self, "none_at", {}).get(a))
        if isinstance(a, ast.Attribute) and isinstance(a.value, ast.Name) and a.value.id == "self":
            pres = self.s.attr_presence(self.fi.cls, a.attr) if self.fi.cls else None
            if pres is not None:
                return pres
            return set(self.at.get(a, set()))
        return set()


# --------------------------------------------------------------------------
# collective traces and the balance rule
# --------------------------------------------------------------------------

def kwarg(call, name):
    for k in call.keywords:
        if k.arg == name:
            return k.value
    return None


def coll_sig(call: ast.Call):
    op = call.func.attr
    comm = src(call.func.value)
    root = kwarg(call, "root")
    if root is None and op in ROOT_POS and len(call.args) > ROOT_POS[op]:
        root = call.args[ROOT_POS[op]]
    rop = kwarg(call, "op")
    return (op, comm, src(root) if root is not None else None, src(rop) if rop is not None else None)


class Tracer:
    """Builds the set of collective traces of a function and discharges B1/B2/B3.

    paths(stmts, after): all (uniform-choice, event-sequence, exit-kind) triples of a
    statement list; `after` is the continuation in the enclosing blocks, used only to
    compare an arm that exits early with the arm that falls through."""

    def __init__(self, spmd: SPMD, fi: FuncInfo, lf: LabelFlow, chk=None):
        self.s, self.fi, self.lf = spmd, fi, lf
        self.chk = chk if chk is not None else spmd.chk
        self.required: dict[str, str] = {}
        self.required_strong: set[str] = set()      # parameters whose influence on the collectives is established
        self.ev_nodes = set(fi.collective_sites) | {c for c, _ in fi.callee_sites}
        self.callee_of = {c: tg for c, tg in fi.callee_sites}
        self._cont_cache = {}

    def labels(self, node):
        return self.lf.at.get(node, set())

    def has_events(self, stmts) -> bool:
        for st in stmts:
            for n in ast.walk(st):
                if n in self.ev_nodes:
                    return True
        return False

    def has_ret(self, stmts, kinds=(ast.Return,)) -> bool:
        for st in stmts:
            for n in ast.walk(st):
                if isinstance(n, kinds) and self.s._owner(n) is self.fi.node:
                    return True
        return False

    def events_of(self, st, within=None):
        evs = []
        nodes = [n for n in ast.walk(within if within is not None else st)
                 if n in self.ev_nodes and self._stmt_of(n) is st]
        nodes.sort(key=lambda c: (c.end_lineno, c.end_col_offset))
        for n in nodes:
            if n in self.callee_of:
                tg = self.callee_of[n]
                commargs = tuple(src(a) for a in n.args if is_comm_expr(a)) + \
                    tuple(f"{k.arg}={src(k.value)}" for k in n.keywords if is_comm_expr(k.value))
                evs.append(Event("call", (tuple(sorted({q.split('.')[-1] for _, q in tg})), commargs), n))
            elif isinstance(n.func, ast.Attribute) and n.func.attr in COLLECTIVE_OPS and is_comm_expr(n.func.value):
                evs.append(Event("coll", coll_sig(n), n))
            else:
                evs.append(Event("coll", ("h5:" + n.func.attr if isinstance(n.func, ast.Attribute) else src(n.func),
                                          None, None, None), n))
        return evs

    def _stmt_of(self, n):
        p = n
        while p is not None and not isinstance(p, ast.stmt):
            p = parent(p)
        return p

    def note_required(self, labels, why, established_dependency=True):
        """the parameters in `labels` govern collectives.  When the dependency itself is not established (the labels are those of
        the CONTENT of an iterable whose length decides the trip count), the requirement is recorded as weak: an actual that
        differs between ranks is then UNDECIDED, not VIOLATED"""
        for p in params_of(labels):
            if p != "self":
                self.required.setdefault(p, why)
                if established_dependency:
                    self.required_strong.add(p)

    @staticmethod
    def _consistent(a, b):
        d = dict(a)
        return all(d.get(k, v) == v for k, v in b)

    @staticmethod
    def _merge(a, b):
        d = dict(a)
        d.update(dict(b))
        return tuple(sorted(d.items()))

    @staticmethod
    def _dedupe(ps):
        seen, out = set(), []
        for p in ps:
            k = (p.choices, repr(p.events), p.exited)
            if k not in seen:
                seen.add(k)
                out.append(p)
        return out

    def _seq(self, ps, qs):
        out = []
        for p in ps:
            if p.exited:
                out.append(p)
                continue
            for q in qs:
                if self._consistent(p.choices, q.choices):
                    out.append(Path(self._merge(p.choices, q.choices), p.events + q.events, q.exited))
        out = self._dedupe(out)
        if len(out) > 5000:
            raise AnalysisError(f"path explosion in {self.fi.qual}")
        return out

    def paths(self, stmts, after=()) -> list[Path]:
        cur = [Path((), (), None)]
        stmts = list(stmts)
        for i, st in enumerate(stmts):
            if all(p.exited for p in cur):
                break
            new = self.stmt_paths(st, stmts[i + 1:], list(after))
            if new is None:
                continue
            cur = self._seq(cur, new)
        return cur

    def cont_paths(self, rest, after):
        key = (tuple(id(x) for x in rest), tuple(id(x) for x in after))
        if key not in self._cont_cache:
            self._cont_cache[key] = self.paths(list(rest) + list(after), ())
        return self._cont_cache[key]

    def stmt_paths(self, st, rest, after):
        """None when the statement is irrelevant (no events, no exits)."""
        if isinstance(st, ast.If):
            exits = self.has_ret(st.body + st.orelse, (ast.Return, ast.Break, ast.Continue))
            if not (self.has_events(st.body) or self.has_events(st.orelse) or exits):
                return None
            tl = self.labels(st.test)
            pa = self.paths(st.body, rest + after)
            pb = self.paths(st.orelse, rest + after)
            nu = nonuniform(tl)
            tsrc = src(st.test)
            if not nu:
                if UNK in tl and (self.has_events(st.body) or self.has_events(st.orelse) or (exits and self.has_events(rest + after))):
                    # AUDIT: the guard went through a construct the label flow does not model: whether it is the same on every rank is
                    # not known.  Harmless when both alternatives issue the same collectives; otherwise UNDECIDED
                    cont_ = self.cont_paths(rest, after) if any(p.exited for p in pa + pb) else [Path((), (), None)]
                    ok_, why_ = self._balanced(self._with_cont(pa, cont_), self._with_cont(pb, cont_))
                    if not ok_:
                        self.chk.ob("B1-balanced-region", st, tsrc, None,
                                    "the guard depends on a value the label analysis does not follow (an unresolved call, an attribute of "
                                    "an object of unknown type, star-expanded arguments): whether it is rank-uniform is not decided, and "
                                    "its alternatives issue different collective sequences: " + why_[:200],
                                    file=self.fi.rel, func=self.fi.qual, facts={"labels": show(tl)})
                if self.has_events(st.body) or self.has_events(st.orelse) or \
                        (exits and self.has_events(rest + after)):
                    # a guard whose alternatives issue the same collectives (after expanding the functions they call) may differ
                    # between ranks: only a guard that really selects between different sequences has to be uniform
                    same = False
                    if params_of(tl) and not exits:
                        try:
                            fa_ = [self.flatten(p_.events) for p_ in pa if p_.exited != "raise"]
                            fb_ = [self.flatten(p_.events) for p_ in pb if p_.exited != "raise"]
                            if fa_ and fb_ and all(f is not None for f in fa_ + fb_):
                                sa_, sb_ = set().union(*fa_), set().union(*fb_)
                                same = sa_ == sb_
                        except Exception:
                            same = False
                    if not same:
                        self.note_required(tl, f"guard `{tsrc}` governs collectives in {self.fi.qual}")
                res = [Path(self._merge(p.choices, ((tsrc, True),)), p.events, p.exited) for p in pa
                       if self._consistent(p.choices, ((tsrc, True),))]
                res += [Path(self._merge(p.choices, ((tsrc, False),)), p.events, p.exited) for p in pb
                        if self._consistent(p.choices, ((tsrc, False),))]
                return res
            # non-uniform guard: everything it governs must be balanced
            cont = self.cont_paths(rest, after) if any(p.exited for p in pa + pb) else [Path((), (), None)]
            full_a = self._with_cont(pa, cont)
            full_b = self._with_cont(pb, cont)
            involved = any(p.events for p in full_a + full_b) and \
                (self.has_events(st.body) or self.has_events(st.orelse) or
                 any(p.exited in ("return", "break", "continue") for p in pa + pb))
            if involved:
                ok, why = self._balanced(full_a, full_b)
                if not ok:
                    # AUDIT: VIOLATED says "ranks take different alternatives AND the alternatives issue different collectives".
                    # (1) the guard differs between ranks: at least one of its labels is ESTABLISHED (explicit source through
                    #     modelled constructs), else UNDECIDED;
                    # (2) the sequences differ: compared event by event (operation, communicator, root, reduction op; calls by callee).
                    #     A difference that is only one of SPELLING (another name for the communicator / root, another callee that
                    #     issues the same flat sequence of collectives) is not a difference: re-compared on the flat sequences
                    #     with locals resolved; when that comparison cannot be made (loops, unresolved calls) and the operations
                    #     are the same in the same order, UNDECIDED.
                    ok = self._recheck_balance(full_a, full_b, ok, established(tl))
                exempt = None
                for (g, fn), reason in EXEMPT_GUARDS.items():
                    if tsrc == g and self.fi.qual.split(".")[-1] == fn:
                        exempt = reason
                if exempt and not ok:
                    self.chk.ob("B1-exempt-guard", st, tsrc, True,
                                f"named exemption: {exempt}", file=self.fi.rel, func=self.fi.qual,
                                facts={"labels": show(tl)})
                else:
                    self.chk.ob("B1-balanced-region", st, tsrc, ok,
                                ("rank-dependent guard (labels %s); " % sorted(nu)) +
                                ("all alternatives issue the same collective sequence" if ok else
                                 "alternatives issue different collective sequences: " + why if ok is False else
                                 "the alternatives are written with different collective sequences (" + why[:160] + "); " +
                                 ("the labels of the guard come from heuristics only (an attribute name on an object of unknown type, "
                                  "a value the analysis does not follow): that it differs between ranks is not established"
                                  if not established(tl) else
                                  "they differ in spelling only (same operations in the same order): whether they are the same "
                                  "collectives was not established")),
                                file=self.fi.rel, func=self.fi.qual,
                                facts={"labels": show(tl), "arm_true": [repr(p.events) for p in full_a][:4],
                                       "arm_false": [repr(p.events) for p in full_b][:4]})
            return self._dedupe(pa + pb)
        if isinstance(st, (ast.For, ast.AsyncFor, ast.While)):
            ctl = st.iter if isinstance(st, (ast.For, ast.AsyncFor)) else st.test
            body_all = st.body + st.orelse
            if not self.has_events(body_all):
                rets = [n for n in ast.walk(st) if isinstance(n, ast.Return) and self.s._owner(n) is self.fi.node]
                if not rets:
                    return None
                lab = set()
                for r in rets:
                    lab |= self.labels(r)
                nu = nonuniform(lab)
                cont = self.cont_paths(rest, after)
                if any(p.events for p in cont):
                    # AUDIT: a return statement of this function inside a loop that issues no collective, collectives follow the
                    # loop, and the conditions under which the return is reached (enclosing tests, the loop itself, earlier
                    # break / continue) carry an ESTABLISHED rank-dependent label; heuristic labels / unknown values: UNDECIDED
                    self.chk.ob("B1-early-return", st, src(ctl), decide(lab),
                                "early return inside a loop, before later collectives, is taken under " +
                                ("rank-uniform conditions" if decide(lab) else f"rank-dependent conditions {sorted(nu)}" if decide(lab) is False
                                 else f"conditions whose variation between ranks is not established (labels {show(lab)})"),
                                file=self.fi.rel, func=self.fi.qual, facts={"labels": show(lab)})
                    self.note_required(lab, f"early return in loop `{src(ctl)}` of {self.fi.qual}")
                mark = f"<return inside loop {src(ctl)}>"
                return [Path(((mark, True),), (), "return"), Path(((mark, False),), (), None)]
            tl = self.labels(ctl)
            nu = nonuniform(tl)
            # AUDIT: the labels of a `while` test / of the arguments of range() are those of the number of passes.  For any other
            # iterable the flow records the labels of its LENGTH when it knows them (displays, tables, lists built by append /
            # comprehension); when it only has the labels of the CONTENT (an array of rank-local data has the same number of rows
            # everywhere) a rank-dependent label does not establish a rank-dependent trip count: UNDECIDED
            verdict = decide(tl)
            if verdict is False and isinstance(st, (ast.For, ast.AsyncFor)) and not self.lf.trip_known(st.iter):
                verdict = None
            self.chk.ob("B1-loop-trip-uniform", st, src(ctl), verdict,
                        "loop containing collectives has a rank-uniform trip condition" if verdict else
                        f"loop containing collectives has a rank-dependent trip condition (labels {sorted(nu)})" if verdict is False else
                        f"loop containing collectives: the labels {show(tl)} of `{src(ctl)[:60]}` do not establish whether every rank "
                        "makes the same number of passes (labels of the content of the iterable / heuristic labels / unmodelled values)",
                        file=self.fi.rel, func=self.fi.qual, facts={"labels": show(tl)})
            self.note_required(tl, f"loop bound `{src(ctl)}` governs collectives in {self.fi.qual}",
                               not isinstance(st, (ast.For, ast.AsyncFor)) or self.lf.trip_known(st.iter))
            body = self.paths(st.body, rest + after)
            for p in body:
                if p.exited == "break":
                    lab = set()
                    for n in ast.walk(st):
                        if isinstance(n, ast.Break):
                            lab |= self.labels(n)
                    if nonuniform(lab) or UNK in lab:
                        # AUDIT: a break statement of this loop is reached under conditions with an ESTABLISHED rank-dependent label
                        self.chk.ob("B1-loop-trip-uniform", st, "break in " + src(ctl), False if decide(lab) is False else None,
                                    f"loop containing collectives is left by a rank-dependent break {sorted(nonuniform(lab))}"
                                    if decide(lab) is False else
                                    f"loop containing collectives is left by a break whose conditions (labels {show(lab)}) are not "
                                    "established to be the same on every rank",
                                    file=self.fi.rel, func=self.fi.qual)
                    break
            bsig = sorted({repr((p.choices, p.events, p.exited)) for p in body})
            ev = Event("loop", src(ctl), st, bsig)
            out = [Path((), (ev,), None)]
            if any(p.exited == "return" for p in body):
                mark = f"<return inside loop {src(ctl)}>"
                out = [Path(((mark, False),), (ev,), None), Path(((mark, True),), (ev,), "return")]
            return out
        if isinstance(st, ast.Return):
            return [Path((), tuple(self.events_of(st)), "return")]
        if isinstance(st, ast.Raise):
            return [Path((), (), "raise")]
        if isinstance(st, ast.Break):
            return [Path((), (), "break")]
        if isinstance(st, ast.Continue):
            return [Path((), (), "continue")]
        if isinstance(st, (ast.With, ast.AsyncWith)):
            evs = []
            for it in st.items:
                evs.extend(self.events_of(st, within=it.context_expr))
            inner = self.paths(st.body, rest + after)
            if not evs and not self.has_events(st.body) and not any(p.exited for p in inner):
                return None
            return [Path(p.choices, tuple(evs) + p.events, p.exited) for p in inner]
        if isinstance(st, ast.Try):
            body = st.body + st.orelse + st.finalbody
            hb = [s2 for h in st.handlers for s2 in h.body]
            if not self.has_events(body + hb) and not self.has_ret(body + hb, (ast.Return, ast.Break, ast.Continue)):
                return None
            if self.has_events(hb):
                self.chk.ob("B1-collective-in-handler", st, "try/except", None,
                            "collective inside an exception handler is outside the enumerated idioms",
                            file=self.fi.rel, func=self.fi.qual)
            return self.paths(body, rest + after)
        if isinstance(st, (ast.FunctionDef, ast.AsyncFunctionDef, ast.ClassDef)):
            return None
        if st.__class__.__name__ in ("Match", "TryStar"):
            # AUDIT: statement kinds whose alternatives the trace does not enumerate
            inner = [x for x in ast.walk(st) if x in self.ev_nodes]
            if inner or self.has_ret([st], (ast.Return, ast.Break, ast.Continue)):
                self.chk.ob("B1-unmodelled-statement", st, st.__class__.__name__.lower(), None,
                            f"collectives / exits inside a `{st.__class__.__name__.lower()}` statement are outside the enumerated idioms",
                            file=self.fi.rel, func=self.fi.qual)
            return [Path((), tuple(Event("coll", ("?" + src(x.func), None, None, None), x) for x in inner), None)] if inner else None
        evs = self.events_of(st)
        if not evs:
            return None
        self._conditional_events(st, evs)
        return [Path((), tuple(evs), None)]

    def _conditional_events(self, st, evs):
        """AUDIT: an event inside a conditional expression, the later operands of and / or, a comprehension or a generator expression
        is issued conditionally / several times; the trace counts it once, unconditionally.  That is right when the governing
        test / iterable is rank-uniform (then every rank evaluates it alike: the parameters it reads are required uniform);
        otherwise the event list of the statement is not what every rank issues: UNDECIDED"""
        for ev in evs:
            ch, p = ev.node, parent(ev.node)
            while p is not None and p is not st:
                labs = None
                if isinstance(p, ast.IfExp) and ch is not p.test:
                    labs = self.labels(p.test)
                elif isinstance(p, ast.BoolOp) and p.values and ch is not p.values[0]:
                    labs = set()
                    for v in p.values[:p.values.index(ch)] if ch in p.values else p.values:
                        labs |= self.labels(v)
                elif isinstance(p, (ast.ListComp, ast.SetComp, ast.DictComp, ast.GeneratorExp)):
                    labs = set()
                    for g in p.generators:
                        labs |= self.labels(g.iter)
                        for c in g.ifs:
                            labs |= self.labels(c)
                    if isinstance(p, ast.GeneratorExp):
                        labs = labs | {UNK}          # evaluated lazily, where it is consumed
                elif isinstance(p, ast.Lambda):
                    labs = {UNK}
                if labs is not None:
                    v = decide(labs)
                    if v is True:
                        self.note_required(labs, f"conditional expression around `{src(ev.node)[:40]}` in {self.fi.qual}")
                    else:
                        self.chk.ob("B1-conditional-collective", ev.node, src(p)[:80], None,
                                    f"the collective `{src(ev.node)[:50]}` sits inside `{src(p)[:60]}`, evaluated under conditions labelled "
                                    f"{show(labs)}: whether every rank issues it the same number of times is not decided",
                                    file=self.fi.rel, func=self.fi.qual, facts={"labels": show(labs)})
                ch, p = p, parent(p)

    def _with_cont(self, ps, cont):
        out = []
        for p in ps:
            if p.exited:
                out.append(p)
            else:
                for q in cont:
                    if self._consistent(p.choices, q.choices):
                        out.append(Path(self._merge(p.choices, q.choices), p.events + q.events, q.exited))
        return out

    def flatten(self, events, depth=0):
        """events -> set of flat collective sequences (calls expanded through the callees' summaries), or None"""
        seqs = {()}
        for ev in events:
            if ev.kind == "coll":
                item = {((ev.sig[0],) + tuple(ev.sig[2:]),)}
            elif ev.kind == "call":
                tg = self.callee_of.get(ev.node)
                if not tg:
                    return None
                item = set()
                for t in tg:
                    sm = self.s.flat_summary(t, depth)
                    if sm is None:
                        return None
                    item |= set(sm)
            else:
                return None
            seqs = {a + b for a in seqs for b in item}
            if len(seqs) > 64:
                return None
        return seqs

    def _flat_balanced(self, a, b):
        """both alternatives can issue exactly the same flat collective sequences (calls expanded)"""
        fa, fb = set(), set()
        for ps, acc in ((a, fa), (b, fb)):
            for p_ in ps:
                if p_.exited == "raise":
                    continue
                f = self.flatten(p_.events)
                if f is None:
                    return False
                acc |= f
        return fa == fb and all(len(x) <= 1 or True for x in fa)

    def _resolved(self, e):
        """source text of an expression with the single-assignment locals of the function written out"""
        if e is None:
            return None
        try:
            from .resolve import inline_locals, expand
            env = self.__dict__.get("_inl")
            if env is None:
                env = self._inl = {k: v for k, v in inline_locals(self.fi.node).items()
                                   if not any(isinstance(x, (ast.Call, ast.Lambda)) for x in ast.walk(v))}
            t = expand(e, env)

            class _Pick(ast.NodeTransformer):
                def visit_Subscript(self, node):
                    self.generic_visit(node)
                    k = _const_int(node.slice)
                    if isinstance(node.value, (ast.Tuple, ast.List)) and k is not None and -len(node.value.elts) <= k < len(node.value.elts) \
                            and not any(isinstance(x, ast.Starred) for x in node.value.elts):
                        return node.value.elts[k]          # (a, b)[1] -> b
                    return node
            import copy
            t = _Pick().visit(copy.deepcopy(t))
            return src(t)
        except Exception:
            return src(e)

    def _direct_seq(self, events):
        """[(op, communicator, root, reduction op)] with locals resolved when every event is a direct collective, else None"""
        out = []
        for ev in events:
            if ev.kind == "call":
                # a function defined inside this one (closure) with a single straight-line sequence of direct collectives whose
                # communicator / root / op do not mention its own parameters or locals: the same expressions as written here
                tg = self.callee_of.get(ev.node) or []
                if len(tg) != 1 or self.s.funcs[tg[0]].outer is not self.fi:
                    return None
                cfi = self.s.funcs[tg[0]]
                sub = Tracer(self.s, cfi, LabelFlow(self.s, cfi), chk=_NullCheck())
                ps = [p_ for p_ in sub.paths(cfi.node.body) if p_.exited != "raise"]
                if len(ps) != 1:
                    return None
                inner = sub._direct_seq(ps[0].events)
                own = self.s._local_names(cfi) | set(cfi.params)
                if inner is None or any(t_ is not None and (set(re.findall(r"[A-Za-z_]\w*", t_)) & own) for x in inner for t_ in x[1:]):
                    return None
                out.extend(inner)
                continue
            if ev.kind != "coll" or not isinstance(ev.node, ast.Call) or not isinstance(ev.node.func, ast.Attribute) or \
                    ev.node.func.attr not in COLLECTIVE_OPS:
                return None
            c = ev.node
            root = kwarg(c, "root")
            if root is None and ev.sig[0] in ROOT_POS and len(c.args) > ROOT_POS[ev.sig[0]]:
                root = c.args[ROOT_POS[ev.sig[0]]]
            out.append((ev.sig[0], self._resolved(c.func.value), self._resolved(root), self._resolved(kwarg(c, "op"))))
        return tuple(out)

    def _ops_only(self, events):
        """the operations in order, calls expanded through the callees' flat summaries where that is possible (else the callee names)"""
        seqs = {()}
        for ev in events:
            if ev.kind == "coll":
                item = {(str(ev.sig[0]),)}
            elif ev.kind == "call":
                item = None
                tg = self.callee_of.get(ev.node)
                if tg:
                    sms = [self.s.flat_summary(t) for t in tg]
                    if all(sm is not None for sm in sms):
                        item = {tuple(str(x[0]) for x in q) for sm in sms for q in sm}
                if item is None:
                    item = {("call:" + "/".join(ev.sig[0]),)}
            else:
                item = {("loop:" + repr(ev.body),)}
            seqs = {a + b for a in seqs for b in item}
            if len(seqs) > 64:
                return None
        return seqs

    def _recheck_balance(self, a, b, ok, est):
        """second look at two alternatives whose event lists differ: True (the same collectives after all), False (established
        difference under an established rank-dependent guard), None (not decided).  Pair by pair, like _balanced."""
        a = [p for p in a if p.exited != "raise"]
        b = [p for p in b if p.exited != "raise"]
        worst = True
        for p in a:
            for q in b:
                if not self._consistent(p.choices, q.choices) or p.events == q.events:
                    continue
                k = self._pair_difference(p.events, q.events)
                if k == "real":
                    return False if est else None
                if k == "unknown":
                    worst = None
        return worst

    @staticmethod
    def _call_names(events):
        return [ev.sig for ev in events]

    @staticmethod
    def _strictly_nested(ea, eb):
        """one event list is the other with events removed (an alternative that skips collectives the other issues)"""
        sa, sb = [repr(e) for e in ea], [repr(e) for e in eb]
        if len(sa) == len(sb):
            return False
        short, long_ = (sa, sb) if len(sa) < len(sb) else (sb, sa)
        it = iter(long_)
        return all(x in it for x in short)

    def _pair_difference(self, ea, eb):
        """'same' (the same collectives, spelt through locals), 'real' (different operations / number of operations / an explicit
        root or reduction op against none or against another constant), 'unknown' (same operations in the same order, the
        communicators / roots are different expressions that may denote the same object; or calls whose sequences were not expanded)"""
        da, db = self._direct_seq(ea), self._direct_seq(eb)
        if da is not None and db is not None:
            if da == db:
                return "same"
            if len(da) != len(db) or [x[0] for x in da] != [x[0] for x in db]:
                return "real"
            kind = "same"
            for x, y in zip(da, db):
                for i in (1, 2, 3):
                    if x[i] == y[i]:
                        continue
                    lit = lambda t: t is None or re.fullmatch(r"-?\d+|MPI\.[A-Z_]+|None|True|False", t) is not None
                    if lit(x[i]) or lit(y[i]):
                        return "real"
                    kind = "unknown"       # two expressions: may be two names of one communicator / root
            return kind
        oa, ob_ = self._ops_only(ea), self._ops_only(eb)
        if oa is None or ob_ is None:
            return "unknown"
        expanded = not any(y.startswith(("call:", "loop:")) for sq in oa | ob_ for y in sq)
        if oa == ob_:
            return "unknown"
        # different operation sequences: established when every call was expanded to the collectives it issues, or when even the
        # callee names / loops agree nowhere
        unexp_a = any(y.startswith(("call:", "loop:")) for sq in oa for y in sq)
        unexp_b = any(y.startswith(("call:", "loop:")) for sq in ob_ for y in sq)
        if expanded or (not (oa & ob_) and not (unexp_a and unexp_b)):
            return "real"
        # both alternatives go through calls / loops that were not expanded to the collectives they issue: not compared
        # (the engine's event comparison - by callee name, loop by loop - found them different)
        return "real" if not (oa & ob_) and self._call_names(ea) != self._call_names(eb) and self._strictly_nested(ea, eb) else "unknown"

    def _balanced(self, a, b):
        a = [p for p in a if p.exited != "raise"]
        b = [p for p in b if p.exited != "raise"]
        for p in a:
            for q in b:
                if self._consistent(p.choices, q.choices) and p.events != q.events:
                    return False, f"{list(p.events)} vs {list(q.events)}"
        return True, ""


# ---------------------------------------------------------------------------------------------------------------------------
# AUDIT: every place of this engine that can produce VIOLATED, the assumptions under which the diagnosis is true, how each is checked
#
#  B1-balanced-region (Tracer.stmt_paths, If)   (1) the guard differs between ranks: one of its labels is ESTABLISHED (decide /
#       established): explicit sources only - Get_rank / Get_coords, clocks, os.getpid / id, hash of a string, random in a unit
#       that never seeds, block geometry read from an object KNOWN to be a layout / grid (self in the classes of the layout and
#       grid units, program index types, single-assignment locals, the attribute exists on those classes only, naming
#       convention), iteration order of a set of string literals.  Heuristic labels / UNK -> UNDECIDED.
#       (2) the alternatives issue different collectives: _recheck_balance / _pair_difference: single-assignment locals and
#       constant subscripts of displays written out, closures spliced in; different operations / number of operations / an
#       explicit root or op against none or a literal = real; two different EXPRESSIONS for communicator / root, or calls /
#       loops that were not expanded on both sides = UNDECIDED.
#       (3) the event list of a statement is what every rank issues: events inside conditional expressions, later operands of
#       and / or, comprehensions, lambdas, match statements, exception handlers give B1-conditional-collective /
#       B1-unmodelled-statement / B1-collective-in-handler UNDECIDED unless the governing test is rank-uniform.
#  B1-early-return           conditions of the return (pc: enclosing tests, loop, earlier break / continue) ESTABLISHED rank-dependent.
#  B1-loop-trip-uniform      labels of a while test / of range() arguments / of the LENGTH of the iterable (displays, tables,
#       lists built by append / comprehension, generator functions: number of yields) ESTABLISHED; when only the labels of the
#       CONTENT of the iterable are known -> UNDECIDED, and the parameters read there are required uniform WEAKLY.
#  B1-loop-trip-uniform (break)  pc of a break statement of the loop ESTABLISHED rank-dependent.
#  B2-root-uniform / B2-op-uniform  the root / op expression is the keyword or the positional argument at mpi4py's position
#       (star-expanded arguments -> UNDECIDED) and carries an ESTABLISHED label.
#  B1-arg-uniform            the parameter governs collectives in the callee through an established dependency (required_strong,
#       propagated), the actual is matched with it exactly (positional / keyword; star-expanded tuples of known fields position
#       by position; any other unpacking -> inexact_binding -> UNDECIDED) and carries an ESTABLISHED label.
#  Facts (labels) that callers turn into verdicts: see the AUDIT comments in LabelFlow (attributes by name, unresolved calls,
#       unbound names, try / match / yield / await, global / nonlocal, call depth, recursion, file-system reads after writes).
# ---------------------------------------------------------------------------------------------------------------------------
def run_spmd(chk, prog: Program, units: list[str], b4_ok_funcs=()):
    """Discharge B1-B3 over every collective function of the given units."""
    s = SPMD(prog, chk, units, b4_ok_funcs)
    tracers = {}
    for key, fi in s.funcs.items():
        if not fi.is_collective:
            continue
        chk.functions.add(f"{fi.rel}:{fi.qual}")
        lf = s.analyse(fi)
        tr = Tracer(s, fi, lf)
        tr.paths(fi.node.body)
        tracers[key] = tr
        # direct collective sites: existence + argument uniformity (B2/B3)
        for c in fi.collective_sites:
            starred = any(isinstance(a, ast.Starred) for a in c.args) or any(k.arg is None for k in c.keywords)
            sig = coll_sig(c) if isinstance(c.func, ast.Attribute) and c.func.attr in COLLECTIVE_OPS else ("h5", src(c.func), None, None)
            op = sig[0]
            if op in ROOTED:
                root = kwarg(c, "root")
                if root is None and len(c.args) > ROOT_POS[op]:
                    root = c.args[ROOT_POS[op]]
                if root is not None:
                    rl = lf.at.get(root, set())
                    # AUDIT: the root is the keyword `root` or the positional argument at the position mpi4py gives it for this
                    # operation (star-expanded arguments: not read); VIOLATED needs an established rank-dependent label
                    chk.ob("B2-root-uniform", c, src(c), None if starred else decide(rl),
                           f"root expression `{src(root)}` labels {show(rl)}" + (" (arguments passed by unpacking: not read)" if starred else ""),
                           file=fi.rel, func=fi.qual, facts={"labels": show(rl)})
                    tr.note_required(rl, f"root of `{src(c)[:60]}`")
            ropn = kwarg(c, "op")
            if ropn is not None:
                rl = lf.at.get(ropn, set())
                chk.ob("B2-op-uniform", c, src(c), decide(rl), f"reduction op `{src(ropn)}` labels {show(rl)}",
                       file=fi.rel, func=fi.qual, nontrivial=False)
            if op in ("Split",):
                pass
            chk.ob("B0-collective-site", c, src(c)[:120], True, "collective call site covered by the trace analysis",
                   file=fi.rel, func=fi.qual, nontrivial=False, facts={"sig": list(map(str, sig))})
        fi.required_uniform = tr.required
        fi.required_strong = set(tr.required_strong)
    # interprocedural: parameters that must be uniform are uniform at every call site
    changed = True
    rounds = 0
    while changed and rounds < 8:
        changed = False
        rounds += 1
        for key, fi in s.funcs.items():
            if not fi.is_collective:
                continue
            lf = tracers[key].lf
            for c, tg in fi.callee_sites:
                for t in tg:
                    callee = s.funcs[t]
                    pmap = lf.bind(c, callee, {})
                    for p, why in callee.required_uniform.items():
                        al = pmap.get(p)
                        if al is None:
                            continue
                        for q in params_of(al):
                            if q != "self" and q not in fi.required_uniform:
                                fi.required_uniform[q] = f"passed as `{p}` to {callee.qual} ({why})"
                                changed = True
                            if q != "self" and p in getattr(callee, "required_strong", set()) and q not in fi.required_strong and \
                                    c not in lf.inexact_binding:
                                fi.required_strong.add(q)
                                changed = True
    for key, fi in s.funcs.items():
        if not fi.is_collective:
            continue
        lf = tracers[key].lf
        for c, tg in fi.callee_sites:
            for t in tg:
                callee = s.funcs[t]
                pmap = lf.bind(c, callee, {})
                for p, why in callee.required_uniform.items():
                    al = pmap.get(p)
                    if al is None:
                        continue
                    # AUDIT: `p` governs collectives in the callee (guard / loop bound / root, transitively) and the value bound to it
                    # at this call (positional / keyword binding read off the call; star-expanded actuals give UNK) carries an
                    # ESTABLISHED rank-dependent label
                    verdict = decide(al)
                    if verdict is False and (p not in getattr(callee, "required_strong", set()) or c in lf.inexact_binding):
                        verdict = None      # the influence of `p` on the collectives is itself not established (content labels)
                    chk.ob("B1-arg-uniform", c, f"{src(c.func)}(... {p}=...)", verdict,
                           f"actual for `{p}` of {callee.qual} must be rank-uniform ({why}); labels {show(al)}" +
                           ("" if verdict is not None or decide(al) is not False else
                            "; how the parameter governs the collectives was read off the labels of the content of an iterable: not established"),
                           file=fi.rel, func=fi.qual, facts={"labels": show(al), "param": p})
    return s, tracers
