#!/bin/bash
# r3_scan.sh <PID...>: own check on /tmp/mut6/out/<PID>/{n1,n2,b1,b2}
for pid in "$@"; do
  for v in n1 n2 b1 b2; do
    p=/tmp/mut6/out/$pid/$v/patch.diff
    [ -f "$p" ] || { echo "$pid/$v: no patch"; continue; }
    rc=$(tools/try_patch.sh "$p" "$pid" 2>&1 | grep -E "exit=|PATCH DOES" | sed 's/.*exit=//')
    want=1; [ ${v:0:1} = n ] && want=0
    flag=""; [ "$rc" != "$want" ] && flag="   <-- expected $want"
    echo "$pid/$v: exit=$rc$flag"
  done
done
