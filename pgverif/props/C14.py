"""C14 - elliptic solver returns the per-mode Galerkin solution of the radial equation."""
from __future__ import annotations

import ast

import sympy as sp

from ..core import src, AnalysisError, parent, same_expr, contains
from .. import units as U
from ..symx import alg_equal
from .C05 import solver as solver_index_spaces

CLS = "DiffEqSolver"
QNC = "QuasiNeutralitySolver"


# =========================================================================================================
# private views of the code (shared with C15)
#
# The rules below are phrased on *expressions*: "the operator of mode I", "the offsets of the diagonals", "the number of
# quadrature points".  A refactoring that gives such an expression a name, hoists it out of a loop or moves it into a
# helper method does not change the expression the program evaluates.  Two devices recover it:
#   * flat_view: a private copy of a method in which calls of helper methods that the reference tree does not have
#     are written back in place (following the class hierarchy, callable arguments and `if/else` returns);
#   * Env.x: an expression with every local name replaced by its unique reaching definition (when that definition
#     dominates the use and nothing it reads is rebound in between).
# Both only produce a *view* used for recognition; the shared syntax trees are never modified.
# =========================================================================================================

def _clone(n):
    if isinstance(n, list):
        return [_clone(x) for x in n]
    if not isinstance(n, ast.AST):
        return n
    new = type(n)()
    for f in n._fields:
        if hasattr(n, f):
            setattr(new, f, _clone(getattr(n, f)))
    for a in ("lineno", "col_offset", "end_lineno", "end_col_offset"):
        if hasattr(n, a):
            setattr(new, a, getattr(n, a))
    return new


def _relink(root, par):
    for node in ast.walk(root):
        for ch in ast.iter_child_nodes(node):
            ch._parent = node
    root._parent = par


def _stmt_of(node):
    p = node
    while p is not None and not isinstance(p, ast.stmt):
        p = parent(p)
    return p


def _block_of(st):
    """(list, index) of the statement list that holds `st`"""
    p = parent(st)
    if p is None:
        return None, None
    for f in ("body", "orelse", "finalbody"):
        b = getattr(p, f, None)
        if isinstance(b, list):
            for k, x in enumerate(b):
                if x is st:
                    return b, k
    return None, None


def _own_exprs(st):
    """expression children evaluated by the statement itself (not those of nested statements)"""
    if isinstance(st, (ast.If, ast.While)):
        return [st.test]
    if isinstance(st, (ast.For, ast.AsyncFor)):
        return [st.iter]
    if isinstance(st, (ast.With, ast.AsyncWith)):
        return [i.context_expr for i in st.items]
    if isinstance(st, (ast.FunctionDef, ast.AsyncFunctionDef, ast.ClassDef, ast.Try)):
        return []
    return [c for c in ast.iter_child_nodes(st) if isinstance(c, ast.expr)]


def _walk_no_scopes(e):
    """nodes of an expression outside lambdas and comprehensions"""
    stack = [e]
    while stack:
        n = stack.pop()
        yield n
        if isinstance(n, (ast.Lambda, ast.ListComp, ast.SetComp, ast.DictComp, ast.GeneratorExp)):
            continue
        stack.extend(ast.iter_child_nodes(n))


def _params(fn):
    a = fn.args
    out = [x.arg for x in a.posonlyargs + a.args + a.kwonlyargs]
    if a.vararg:
        out.append(a.vararg.arg)
    if a.kwarg:
        out.append(a.kwarg.arg)
    return out


def _hierarchy(mod, cls):
    classes = {c.name: c for c in mod.tree.body if isinstance(c, ast.ClassDef)}
    out, seen, todo = [], set(), [cls]
    while todo:
        c = todo.pop(0)
        if c in seen or c not in classes:
            continue
        seen.add(c)
        out.append(classes[c])
        todo.extend(b.id for b in classes[c].bases if isinstance(b, ast.Name))
    return out


def _method(mod, cls, name):
    for c in _hierarchy(mod, cls):
        for m in c.body:
            if isinstance(m, ast.FunctionDef) and m.name == name and \
                    not any(src(d).endswith(".setter") for d in m.decorator_list):
                return c.name, m
    return None, None


def _reference_functions(rel):
    try:
        from .. import alpha
        return alpha.reference_functions(rel)
    except Exception:
        return set()


class _Sub(ast.NodeTransformer):
    def __init__(self, rename, subst):
        self.rename, self.subst = rename, subst

    def visit_Name(self, node):
        if node.id in self.subst and isinstance(node.ctx, ast.Load):
            return _clone(self.subst[node.id])
        if node.id in self.rename:
            node.id = self.rename[node.id]
        return node


def _is_ref_chain(e):
    """name / constant / attribute chain on a name: evaluating it twice or later gives the same object"""
    if isinstance(e, ast.Constant):
        return True
    while isinstance(e, ast.Attribute):
        e = e.value
    return isinstance(e, ast.Name)


def _has_return(stmts):
    for s in stmts:
        for n in ast.walk(s):
            if isinstance(n, ast.Return):
                return True
    return False


def _convert_returns(stmts, make, allow_none):
    """rewrite the tail `return v` of a straight-line / if-else body into `make(v)`; False when a return sits elsewhere"""
    if not stmts:
        return allow_none
    if _has_return(stmts[:-1]):
        return False
    last = stmts[-1]
    if isinstance(last, ast.Return):
        new = make(last.value)
        if new is None:
            stmts.pop()
        else:
            stmts[-1] = new
        return True
    if isinstance(last, ast.If) and _has_return([last]):
        if not last.orelse:
            return False
        return _convert_returns(last.body, make, allow_none) and _convert_returns(last.orelse, make, allow_none)
    if _has_return([last]):
        return False
    return allow_none


def flat_view(chk, rel, cls, meth):
    """private copy of `cls.meth` with the calls of helper methods (methods the reference tree does not have) expanded"""
    cache = chk.__dict__.setdefault("_c14_views", {})
    key = (rel, cls, meth)
    if key not in cache:
        # the definition `cls` runs: its own or the one it inherits from a base class of the module
        owner, fn0 = _method(chk.mod(rel), cls, meth)
        if fn0 is None or owner == cls:
            fn0 = chk.func(rel, f"{cls}.{meth}")
        else:
            # inherited: the normalised tree has the helper calls of the base class's method already written back with the base
            # class's own helpers, which is not what runs when `cls` overrides one of them; start again from the source text
            chk.func(rel, f"{owner}.{meth}")
            raw = _raw_method(chk.mod(rel), owner, meth)
            if raw is not None:
                raw._qual = getattr(fn0, "_qual", f"{owner}.{meth}")
                raw._parent = parent(fn0)
                fn0 = raw
        cache[key] = _flatten(chk, rel, fn0, cls)
    return cache[key]


def _raw_method(mod, owner, meth):
    """the method as written in the source file (no normalisation), or None"""
    try:
        tree = ast.parse(mod.src)
    except SyntaxError:
        return None
    for c in tree.body:
        if isinstance(c, ast.ClassDef) and c.name == owner:
            for m in c.body:
                if isinstance(m, ast.FunctionDef) and m.name == meth and not any(src(d).endswith(".setter") for d in m.decorator_list):
                    return m
    return None


def flat_function(chk, rel, name):
    """private copy of a plain function with the calls of its local functions and of new module-level helpers expanded"""
    cache = chk.__dict__.setdefault("_c14_views", {})
    key = (rel, None, name)
    if key not in cache:
        cache[key] = _flatten(chk, rel, chk.func(rel, name), None)
    return cache[key]


def _flatten(chk, rel, fn0, cls):
    mod = chk.mod(rel)
    fn = _clone(fn0)
    fn._qual = getattr(fn0, "_qual", fn0.name)
    _relink(fn, parent(fn0))
    ref = _reference_functions(rel)
    classes = {c.name for c in _hierarchy(mod, cls)} if cls else set()
    skip = set()
    count = [0]

    def local_defs():
        out = {}
        stack = list(fn.body)
        while stack:
            x = stack.pop()
            if isinstance(x, ast.FunctionDef):
                out.setdefault(x.name, x)
                continue
            if isinstance(x, (ast.AsyncFunctionDef, ast.ClassDef)):
                continue
            for f in ("body", "orelse", "finalbody"):
                stack.extend(getattr(x, f, None) or [])
            for h_ in getattr(x, "handlers", None) or []:
                stack.extend(h_.body)
        return out

    def resolve(call):
        f = call.func
        if isinstance(f, ast.Name):
            h = local_defs().get(f.id)
            if h is None:
                h = next((x for x in mod.tree.body if isinstance(x, ast.FunctionDef) and x.name == f.id and x.name not in ref
                          and x is not fn0), None)
            if h is None or h.name == fn0.name:
                return None
            return h, True
        if not (isinstance(f, ast.Attribute) and isinstance(f.value, ast.Name)) or not cls:
            return None
        if f.value.id == "self":
            owner, h = _method(mod, cls, f.attr)
            explicit = False
        elif f.value.id in classes:
            owner, h = _method(mod, f.value.id, f.attr)
            explicit = True
        else:
            return None
        if h is None or f"{owner}.{h.name}" in ref or h is fn0 or h.name == fn0.name and owner == cls:
            return None
        return h, explicit

    def next_site():
        todo = list(fn.body)
        while todo:
            st = todo.pop(0)
            for e in _own_exprs(st):
                for n in _walk_no_scopes(e):
                    if isinstance(n, ast.Call) and id(n) not in skip:
                        r = resolve(n)
                        if r is not None:
                            return st, n, r
            nested = []
            if not isinstance(st, (ast.FunctionDef, ast.AsyncFunctionDef, ast.ClassDef)):
                for f in ("body", "orelse", "finalbody"):
                    nested += getattr(st, f, None) or []
                for h in getattr(st, "handlers", None) or []:
                    nested += h.body
            todo = nested + todo
        return None

    def splice(st, call, h, explicit):
        a = h.args
        if a.vararg or a.kwarg or a.kwonlyargs or a.posonlyargs or isinstance(st, ast.While):
            return False
        static = any(isinstance(d, ast.Name) and d.id == "staticmethod" for d in h.decorator_list)
        if any(not (isinstance(d, ast.Name) and d.id == "staticmethod") for d in h.decorator_list):
            return False
        params = [x.arg for x in a.args]
        actual = {}
        rest = params
        if not static and not explicit:
            if not params:
                return False
            actual[params[0]] = ast.Name(id="self", ctx=ast.Load())
            rest = params[1:]
        if len(call.args) > len(rest) or any(isinstance(x, ast.Starred) for x in call.args) or any(k.arg is None for k in call.keywords):
            return False
        for p, x in zip(rest, call.args):
            actual[p] = x
        for k in call.keywords:
            if k.arg not in rest or k.arg in actual:
                return False
            actual[k.arg] = k.value
        defaults = dict(zip(params[len(params) - len(a.defaults):], a.defaults))
        for p in rest:
            if p not in actual:
                if p not in defaults:
                    return False
                actual[p] = defaults[p]
        count[0] += 1
        tag = f"__h{count[0]}"
        body = _clone([s for s in h.body if not (isinstance(s, ast.Expr) and isinstance(s.value, ast.Constant))])
        if any(isinstance(n, (ast.FunctionDef, ast.AsyncFunctionDef, ast.ClassDef, ast.Yield, ast.YieldFrom, ast.Global, ast.Nonlocal,
                              ast.Try, ast.With)) for s in body for n in ast.walk(s)):
            return False
        stored = {n.id for s in body for n in ast.walk(s) if isinstance(n, ast.Name) and isinstance(n.ctx, ast.Store)}
        caller_names = {n.id for n in ast.walk(fn) if isinstance(n, ast.Name)} | set(_params(fn))
        rename, subst, pre = {}, {}, []
        for p in params:
            x = actual[p]
            if _is_ref_chain(x) and p not in stored:
                if isinstance(x, ast.Name):
                    if x.id != p:
                        rename[p] = x.id
                else:
                    subst[p] = x
            else:
                new = p if p not in caller_names else p + tag
                if new != p:
                    rename[p] = new
                pre.append(ast.Assign(targets=[ast.Name(id=new, ctx=ast.Store())], value=_clone(x)))
        for loc in stored - set(params):
            if loc in caller_names:
                rename[loc] = loc + tag
        if set(rename.values()) & (stored - set(rename)):
            return False
        body = [_Sub(rename, subst).visit(s) for s in body]
        # how the value is used
        blk, k = _block_of(st)
        if blk is None:
            return False
        keep_st = False
        if isinstance(st, ast.Expr) and st.value is call:
            ok = _convert_returns(body, lambda v: (ast.Expr(value=v) if isinstance(v, ast.Call) else None), True)
        elif isinstance(st, ast.Assign) and st.value is call:
            tg = st.targets
            ok = _convert_returns(body, lambda v: ast.Assign(targets=_clone(tg), value=v if v is not None else ast.Constant(value=None)), False)
        elif isinstance(st, ast.Return) and st.value is call:
            ok = True
            if not body or not isinstance(body[-1], ast.Return):
                body.append(ast.Return(value=ast.Constant(value=None)))
        else:
            tmp = "__v" + tag
            ok = _convert_returns(body, lambda v: ast.Assign(targets=[ast.Name(id=tmp, ctx=ast.Store())],
                                                             value=v if v is not None else ast.Constant(value=None)), False)
            keep_st = True
        if not ok:
            return False
        if keep_st:
            class R(ast.NodeTransformer):
                def visit_Call(self_, node):
                    if node is call:
                        return ast.Name(id=tmp, ctx=ast.Load())
                    return self_.generic_visit(node)
            for f in st._fields:
                v = getattr(st, f, None)
                if isinstance(v, ast.expr):
                    setattr(st, f, R().visit(v))
                elif isinstance(v, list) and v and isinstance(v[0], ast.expr):
                    setattr(st, f, [R().visit(x) for x in v])
                elif isinstance(v, list) and v and isinstance(v[0], ast.withitem):
                    for it in v:
                        it.context_expr = R().visit(it.context_expr)
        new = pre + body
        for s in new:
            for x in ast.walk(s):
                ast.copy_location(x, call)
        blk[k:k + 1] = new + ([st] if keep_st else [])
        return True

    if ref:
        for _ in range(60):
            site = next_site()
            if site is None:
                break
            st, call, (h, explicit) = site
            if not splice(st, call, h, explicit):
                skip.add(id(call))
            ast.fix_missing_locations(fn)
            _relink(fn, parent(fn0))
        # local functions whose every call has been written back are dead definitions
        for name, h in local_defs().items():
            if not any(isinstance(n, ast.Name) and n.id == name and isinstance(n.ctx, ast.Load) for n in ast.walk(fn)):
                blk, k = _block_of(h)
                if blk is not None and len(blk) > 1:
                    del blk[k]
        _relink(fn, parent(fn0))
    return fn


class Env:
    """reaching definitions of the local names of one function (flow-insensitive except for dominance and loops)"""

    def __init__(self, fn):
        self.fn = fn
        self.params = set(_params(fn))
        self.order = {}
        self.bind = {}          # name -> [(order, stmt, value or None)]
        self.attr_stores = []   # (order, stmt, text of the attribute rebound)
        self.mut = {}           # name -> [(order, stmt)]: element/slice stores and in-place updates through the name
        self.amb = set()
        self._number(fn.body)

    # -- construction
    def _add(self, name, st, value):
        self.bind.setdefault(name, []).append((self.order[id(st)], st, value))

    def _target(self, t, st, value):
        if isinstance(t, ast.Name):
            self._add(t.id, st, value)
        elif isinstance(t, (ast.Tuple, ast.List)):
            for e in t.elts:
                self._target(e, st, None)
        elif isinstance(t, ast.Starred):
            self._target(t.value, st, None)
        elif isinstance(t, ast.Attribute):
            self.attr_stores.append((self.order[id(st)], st, src(t)))
        elif isinstance(t, ast.Subscript):
            b = t
            while isinstance(b, ast.Subscript):
                b = b.value
            if isinstance(b, ast.Name):
                self.mut.setdefault(b.id, []).append((self.order[id(st)], st))

    def _number(self, stmts):
        for s in stmts:
            self.order[id(s)] = len(self.order)
            if isinstance(s, ast.Assign):
                for t in s.targets:
                    self._target(t, s, s.value)
            elif isinstance(s, ast.AnnAssign) and s.value is not None:
                self._target(s.target, s, s.value)
            elif isinstance(s, ast.AugAssign):
                if isinstance(s.target, ast.Name) and isinstance(self.bind.get(s.target.id, [(0, 0, None)])[-1][2], ast.AST):
                    self.mut.setdefault(s.target.id, []).append((self.order[id(s)], s))
                self._target(s.target, s, None)
            elif isinstance(s, (ast.For, ast.AsyncFor)):
                self._target(s.target, s, None)
            elif isinstance(s, (ast.With, ast.AsyncWith)):
                for it in s.items:
                    if it.optional_vars is not None:
                        self._target(it.optional_vars, s, None)
            elif isinstance(s, (ast.Import, ast.ImportFrom)):
                for al in s.names:
                    self._add((al.asname or al.name).split(".")[0], s, None)
            elif isinstance(s, (ast.FunctionDef, ast.AsyncFunctionDef, ast.ClassDef)):
                self._add(s.name, s, None)
                continue
            elif isinstance(s, ast.Delete):
                for t in s.targets:
                    self._target(t, s, None)
            for e in _own_exprs(s):
                for n in ast.walk(e):
                    if isinstance(n, ast.NamedExpr):
                        self._target(n.target, s, None)
            for f in ("body", "orelse", "finalbody"):
                self._number(getattr(s, f, None) or [])
            for h in getattr(s, "handlers", None) or []:
                if h.name:
                    self._add(h.name, s, None)
                self._number(h.body)

    # -- queries
    def before(self, a, b):
        """statement a precedes statement b in program text order"""
        return self.order.get(id(_stmt_of(a)), -1) < self.order.get(id(_stmt_of(b)), -1)

    def _loops(self, st):
        out, p = [], parent(st)
        while p is not None and p is not self.fn:
            if isinstance(p, (ast.For, ast.AsyncFor, ast.While)):
                out.append(p)
            p = parent(p)
        return out

    def _inside(self, st, outer):
        p = st
        while p is not None and p is not self.fn:
            if p is outer:
                return True
            p = parent(p)
        return False

    def _dominates(self, d, use):
        cur = use
        while cur is not None and cur is not self.fn:
            blk, _ = _block_of(cur)
            if blk is not None and any(x is d for x in blk):
                return True
            cur = parent(cur)
            while cur is not None and cur is not self.fn and not isinstance(cur, (ast.stmt, ast.ExceptHandler)):
                cur = parent(cur)
            if isinstance(cur, ast.ExceptHandler):
                cur = parent(cur)
        return False

    def reaching(self, name, use):
        """("def", stmt, value) | ("opaque",) for parameters, globals, loop variables | ("amb",)"""
        bs = self.bind.get(name, [])
        if not bs:
            return ("opaque",)
        uo = self.order.get(id(use))
        if uo is None:
            return ("amb",)
        loops_u = self._loops(use)
        prior = [b for b in bs if b[0] < uo]
        if not prior:
            if name in self.params and not any(self._inside(b[1], L) or b[1] is L for b in bs for L in loops_u):
                return ("opaque",)
            return ("amb",)
        d = prior[-1]
        if d[2] is None:
            return ("opaque",)
        if not self._dominates(d[1], use):
            return ("amb",)
        for L in loops_u:
            if not self._inside(d[1], L) and any((self._inside(b[1], L) or b[1] is L) for b in bs):
                return ("amb",)
        if not _is_view(d[2]):
            # a computed value that is then updated in place through the name is no longer its defining expression
            for (o, s) in self.mut.get(name, []):
                if d[0] < o < uo or any(self._inside(s, L) and not self._inside(d[1], L) for L in loops_u):
                    return ("opaque",)
        return ("def", d[1], d[2])

    def _stale(self, dst, value, use0):
        do, uo = self.order[id(dst)], self.order[id(use0)]
        loops = [L for L in self._loops(use0) if not self._inside(dst, L)]

        def hit(o, s):
            return (do < o < uo) or any(self._inside(s, L) or s is L for L in loops)
        local = _bound_inside(value)
        for n in ast.walk(value):
            if isinstance(n, ast.Name) and n.id not in local:
                for (o, s, _) in self.bind.get(n.id, []):
                    if s is not dst and hit(o, s):
                        return True
            elif isinstance(n, ast.Attribute):
                t = src(n)
                for (o, s, text) in self.attr_stores:
                    if text == t and s is not dst and hit(o, s):
                        return True
        return False

    def x(self, node, stop=(), use=None):
        """the expression with local names replaced by their definitions; self.amb = names that could not be resolved uniquely"""
        use0 = use if use is not None else _stmt_of(node)
        self.amb = set()
        env = self

        def rec(e, at, depth):
            local = _bound_inside(e)

            class T(ast.NodeTransformer):
                def visit_Name(self_, n):
                    if not isinstance(n.ctx, ast.Load) or n.id in stop or n.id in local:
                        return n
                    r = env.reaching(n.id, at)
                    if r[0] == "opaque":
                        return n
                    if r[0] == "amb":
                        env.amb.add(n.id)
                        return n
                    _, dst, val = r
                    if depth > 12 or env._stale(dst, val, use0):
                        env.amb.add(n.id)
                        return n
                    return rec(_clone(val), dst, depth + 1)
            return T().visit(e)
        if use0 is None or id(use0) not in self.order:
            return _clone(node)
        return rec(_clone(node), use0, 0)

    def xs(self, node, stop=(), use=None):
        return src(self.x(node, stop, use))


def _is_view(e):
    """name, attribute chain or element/slice of one: an expression that denotes storage, not a freshly computed value"""
    while isinstance(e, (ast.Attribute, ast.Subscript)):
        e = e.value
    return isinstance(e, ast.Name)


def _bound_inside(e):
    """names bound by comprehensions / lambdas inside an expression"""
    out = set()
    for n in ast.walk(e):
        if isinstance(n, ast.comprehension):
            for t in ast.walk(n.target):
                if isinstance(t, ast.Name):
                    out.add(t.id)
        elif isinstance(n, ast.Lambda):
            out |= set(_params(n))
    return out


def env_of(chk, fn):
    cache = chk.__dict__.setdefault("_c14_envs", {})
    if id(fn) not in cache:
        cache[id(fn)] = (fn, Env(fn))
    return cache[id(fn)][1]


VIEWED = {f"{CLS}.getModes", f"{CLS}.findPotential", f"{CLS}.solveEquation", f"{CLS}.solveEquationForFunction", f"{QNC}.solveEquation",
          f"DensityFinder.getPerturbedRho", f"DensityFinder.getRho"}


class ViewedCheck:
    """the check, with fullSimulation.main and the entry points of the solver presented as their flat views (local helper
    functions / new helper methods written back at their calls): the layout typestate engine of C05 walks the statements of main
    and reads the layout asserts in the bodies of the entry points; it does not follow calls"""

    def __init__(self, chk):
        self.__dict__["_chk"] = chk

    def func(self, rel, q):
        if rel == U.DRIVER and q == "main":
            self._chk.func(rel, q)
            return flat_function(self._chk, rel, q)
        if rel == U.POISSON and q in VIEWED:
            return flat_view(self._chk, rel, *q.split("."))      # also resolves an inherited definition
        return self._chk.func(rel, q)

    def mod(self, rel):
        m = self._chk.mod(rel)
        return _ModuleView(self._chk, rel, m) if rel == U.POISSON else m

    def __getattr__(self, name):
        return getattr(self._chk, name)

    def __setattr__(self, name, value):
        setattr(self._chk, name, value)


class _ModuleView:
    """the module, with the class nodes presenting the flat views of the entry points (for code that walks class bodies to
    resolve inherited methods instead of asking the check for a function)"""

    def __init__(self, chk, rel, mod):
        self.__dict__.update(_chk=chk, _rel=rel, _mod=mod)

    def cls(self, name):
        node = self._mod.cls(name)
        body, have = [], set()
        for st in node.body:
            if isinstance(st, ast.FunctionDef) and f"{name}.{st.name}" in VIEWED and \
                    not any(src(d).endswith(".setter") for d in st.decorator_list):
                body.append(flat_view(self._chk, self._rel, name, st.name))
                have.add(st.name)
            else:
                body.append(st)
        for q in sorted(VIEWED):
            c, m = q.split(".")
            if c == name and m not in have and _method(self._mod, name, m)[1] is not None:
                body.append(flat_view(self._chk, self._rel, name, m))       # inherited, as this class runs it
        new = ast.ClassDef(name=node.name, bases=node.bases, keywords=node.keywords, body=body, decorator_list=node.decorator_list)
        ast.copy_location(new, node)
        new._parent = parent(node)
        new._qual = getattr(node, "_qual", name)
        return new

    def __getattr__(self, name):
        return getattr(self._mod, name)


# =========================================================================================================
# symbolic helpers
# =========================================================================================================

def _sym(e, table):
    """arithmetic expression -> sympy, every name/attribute/subscript an opaque symbol keyed by its source"""
    if isinstance(e, ast.Constant) and isinstance(e.value, (int, float)) and not isinstance(e.value, bool):
        return sp.nsimplify(e.value)
    if isinstance(e, ast.BinOp) and type(e.op) in (ast.Add, ast.Sub, ast.Mult, ast.Div, ast.Pow):
        a, b = _sym(e.left, table), _sym(e.right, table)
        return {ast.Add: a + b, ast.Sub: a - b, ast.Mult: a * b, ast.Div: a / b, ast.Pow: a ** b}[type(e.op)]
    if isinstance(e, ast.UnaryOp) and isinstance(e.op, ast.USub):
        return -_sym(e.operand, table)
    if isinstance(e, ast.UnaryOp) and isinstance(e.op, ast.UAdd):
        return _sym(e.operand, table)
    if isinstance(e, (ast.Name, ast.Attribute, ast.Subscript)):
        return table.setdefault(src(e), sp.Symbol("s%d" % len(table)))
    raise KeyError(src(e))


def _atomic(e):
    """is every leaf of the arithmetic expression a plain reference (name, attribute chain, element/slice by constants)?
    Only then do two different leaves denote different values"""
    if isinstance(e, ast.Constant):
        return True
    if isinstance(e, ast.BinOp):
        return _atomic(e.left) and _atomic(e.right)
    if isinstance(e, ast.UnaryOp):
        return _atomic(e.operand)
    while isinstance(e, (ast.Attribute, ast.Subscript)):
        if isinstance(e, ast.Subscript):
            idx = e.slice.elts if isinstance(e.slice, ast.Tuple) else [e.slice]
            for i_ in idx:
                parts = [i_.lower, i_.upper, i_.step] if isinstance(i_, ast.Slice) else [i_]
                for p_ in parts:
                    if p_ is None:
                        continue
                    if isinstance(p_, ast.UnaryOp) and isinstance(p_.op, ast.USub):
                        p_ = p_.operand
                    if not isinstance(p_, (ast.Constant, ast.Name)):
                        return False
        e = e.value
    return isinstance(e, ast.Name)


def arith_equal(code, spec_src):
    """True / False / None: the arithmetic expression `code` equals the expression written in `spec_src`; None when the
    code is not arithmetic over plain references"""
    try:
        spec = ast.parse(spec_src, mode="eval").body
        tb = {}
        b = _sym(spec, tb)
        known = set(tb)
        a = _sym(code, tb)
    except (KeyError, SyntaxError):
        return None
    if alg_equal(sp.expand(a), sp.expand(b)):
        return True
    # a different arithmetic over the same plain references is a different value; other references may denote the same thing
    return False if _atomic(code) and set(tb) <= known else None


# symbols of the element-wise model: Q[...] = sum over quadrature points of  weights*halfwidth*(...)
W, MF, X = sp.symbols("W MF X")
PHI0, PHI1, PSI0, PSI1 = sp.symbols("PHI0 PHI1 PSI0 PSI1")      # trial phi_{s_j} / test-row psi_i and derivatives
A_, B_, C_, D_, E_ = sp.symbols("A B C D E")                     # coefficient functions at the quadrature points

COEFF_FUNCS = {"ddrFactor": A_, "drFactor": B_, "rFactor": C_, "ddThetaFactor": D_, "rhoFactor": E_}


class WrongBasis(Exception):
    """an integrand evaluates a basis function that is neither the row nor the column function of the entry"""


def factor_table(sj="s_j", iv="i"):
    t = {
        "np.tile(self._weights, end - start)": W, "multFactor": MF, "self._multFactor": MF, "evalPts": X,
        # basis function values: the column (trial) function s_j and the row (test) function i
        ("basis", sj, 0): PHI0, ("basis", sj, 1): PHI1, ("basis", iv, 0): PSI0, ("basis", iv, 1): PSI1,
        ("names", sj, iv): None,
    }
    for k, v in COEFF_FUNCS.items():
        t[f"{k}(evalPts)"] = v
    return t


FACTOR_TABLE = factor_table()
# the vocabulary of the element-wise model: these locals are not expanded (each has its own rule)
ASSEMBLY_STOP = {"evalPts", "multFactor", "start", "end", "ddrFactor", "drFactor", "rFactor", "ddThetaFactor", "rhoFactor"}


class _TableLookup(ast.NodeTransformer):
    """[f(k) for k in range(n)][idx]  ->  f(idx): an element of a table built by a comprehension over its positions"""

    def visit_Subscript(self, node):
        self.generic_visit(node)
        v = node.value
        if isinstance(v, ast.ListComp) and len(v.generators) == 1 and not v.generators[0].ifs and isinstance(v.generators[0].target, ast.Name) \
                and not isinstance(node.slice, (ast.Slice, ast.Tuple)):
            it = v.generators[0].iter
            if isinstance(it, ast.Call) and src(it.func) == "range" and not it.keywords and \
                    (len(it.args) == 1 or (len(it.args) == 2 and src(it.args[0]) == "0")):
                return _Sub({}, {v.generators[0].target.id: node.slice}).visit(_clone(v.elt))
        return node


def to_sym(e, env, table=None):
    """arithmetic over the recognised factors -> sympy; np.sum(x) -> Q*x is handled by the caller"""
    table = FACTOR_TABLE if table is None else table
    s = src(e)
    if s in table:
        return table[s]
    if isinstance(e, ast.Call) and isinstance(e.func, ast.Attribute) and e.func.attr == "eval" and e.args and src(e.args[0]) == "evalPts" \
            and not e.keywords and len(e.args) <= 2 and isinstance(e.func.value, ast.Subscript) and src(e.func.value.value) == "self._rspline":
        der = 0
        if len(e.args) == 2:
            if not (isinstance(e.args[1], ast.Constant) and e.args[1].value in (0, 1)):
                raise KeyError(s)
            der = e.args[1].value
        idx = src(e.func.value.slice)
        if ("basis", idx, der) in table:
            return table[("basis", idx, der)]
        names = [k for k in table if isinstance(k, tuple) and k[0] == "names"]
        if names and all(arith_equal(e.func.value.slice, nm) is False for nm in names[0][1:]):
            raise WrongBasis(idx)
        raise KeyError(s)
    if isinstance(e, ast.Name) and e.id in env:
        return env[e.id]
    if isinstance(e, ast.BinOp):
        a, b = to_sym(e.left, env, table), to_sym(e.right, env, table)
        if isinstance(e.op, ast.Mult):
            return a * b
        if isinstance(e.op, ast.Add):
            return a + b
        if isinstance(e.op, ast.Sub):
            return a - b
        if isinstance(e.op, ast.Div):
            return a / b
    if isinstance(e, ast.UnaryOp) and isinstance(e.op, ast.USub):
        return -to_sym(e.operand, env, table)
    if isinstance(e, ast.Call) and src(e.func) in ("np.sum", "numpy.sum") and len(e.args) == 1 and not e.keywords:
        return to_sym(e.args[0], env, table)          # Q is linear: compare integrands
    if isinstance(e, ast.Call) and isinstance(e.func, ast.Attribute) and e.func.attr == "sum" and not e.args and not e.keywords:
        return to_sym(e.func.value, env, table)
    if isinstance(e, ast.Constant) and isinstance(e.value, (int, float)) and not isinstance(e.value, bool):
        return sp.nsimplify(e.value)
    raise KeyError(s)


BLOCKS = ("self._dPhidPsi", "self._dPhiPsi", "self._PhiPsi", "self._k2PhiPsi", "self._massMatrix")
LISTS = ("massCoeffs", "k2PhiPsiCoeffs", "PhiPsiCoeffs", "dPhidPsiCoeffs", "dPhiPsiCoeffs")


def _diags_call(v):
    while isinstance(v, ast.Subscript):       # restriction to the unknowns' rows/columns
        v = v.value
    if isinstance(v, ast.Call) and src(v.func).split(".")[-1] == "diags":
        return v
    return None


def block_lists(fn, env=None):
    """self._X = sparse.diags(<list>, ...)  ->  {self._X: list name}"""
    out = {}
    for n in ast.walk(fn):
        if isinstance(n, ast.Assign) and src(n.targets[0]) in BLOCKS:
            v = _diags_call(env.x(n.value, stop=set(LISTS), use=n) if env is not None else n.value)
            if v is not None and v.args and isinstance(v.args[0], ast.Name):
                out[src(n.targets[0])] = v.args[0].id
    return out


def block_vector(e, stiff=None):
    """matrix expression over the assembled blocks -> {block: coefficient}; self._stiffnessMatrix expands to `stiff`"""
    table = {}
    ex = sp.expand(_sym(e, table))
    inv = {v: k for k, v in table.items()}
    vec = {}
    for term in sp.Add.make_args(ex):
        c_, syms = term.as_coeff_mul()
        if len(syms) != 1 or syms[0] not in inv:
            raise KeyError(str(term))
        nm = inv[syms[0]]
        if nm == "self._stiffnessMatrix" and stiff is not None:
            for k, v in stiff.items():
                vec[k] = vec.get(k, 0) + c_ * v
        elif nm in BLOCKS:
            vec[nm] = vec.get(nm, 0) + c_
        else:
            raise KeyError(nm)
    return {k: v for k, v in vec.items() if v != 0}


def operator_blocks(chk):
    """coefficients of the blocks in DiffEqSolver's theta-independent operator, or None"""
    fn = flat_view(chk, U.POISSON, CLS, "__init__")
    env = env_of(chk, fn)
    d = [n for n in ast.walk(fn) if isinstance(n, ast.Assign) and src(n.targets[0]) == "self._stiffnessMatrix"]
    if len(d) != 1:
        return None
    try:
        return block_vector(env.x(d[0].value))
    except KeyError:
        return None


# =========================================================================================================
# assembly
# =========================================================================================================

DEG, NB = "self._rspline.degree", "self._rspline.nbasis"


def quadrature_order(chk, fn, env, narg, site):
    """Gauss-Legendre with n points is exact up to degree 2n-1: n must reach the requested degree for every degree"""
    q = f"{CLS}.__init__"
    ex = env.x(narg, use=_stmt_of(site))
    text = src(ex)
    ok, why = None, f"number of quadrature points `{text}` is not an integer expression of the requested degree"
    allowed_calls = {"min": min, "max": max, "int": int, "abs": abs}
    good = not env.amb
    pname = "__p"
    e2 = ast.parse(text, mode="eval")

    class R(ast.NodeTransformer):
        def visit_Attribute(self_, n):
            if src(n) in (DEG, "rspline.degree"):
                return ast.copy_location(ast.Name(id=pname, ctx=ast.Load()), n)
            return self_.generic_visit(n)
    e2 = ast.fix_missing_locations(R().visit(e2))
    for n in ast.walk(e2):
        if isinstance(n, ast.Name) and n.id not in ("degree", pname) and n.id not in allowed_calls:
            good = False
        elif isinstance(n, ast.Call) and not (isinstance(n.func, ast.Name) and n.func.id in allowed_calls and not n.keywords):
            good = False
        elif isinstance(n, (ast.Attribute, ast.Subscript, ast.Lambda, ast.ListComp, ast.GeneratorExp, ast.Await, ast.Yield)):
            good = False
    if good:
        try:
            code = compile(e2, "<npoints>", "eval")
            worst = None
            for p in range(1, 6):
                for deg in range(0, 41):
                    n = eval(code, {"__builtins__": {}}, dict(allowed_calls, degree=deg, **{pname: p}))
                    if n != int(n) or 2 * int(n) - 1 < deg:
                        if worst is None:
                            worst = (deg, p, n)
            ok = worst is None
            if ok:
                why = (f"leggauss({text}): n points integrate polynomials of degree 2n-1 exactly and 2n-1 >= degree for every requested "
                       "degree (checked for degree 0..40, spline degrees 1..5)")
            else:
                deg, p, n = worst
                why = (f"the number of Gauss-Legendre points is `{text}`: for requested degree {deg} (spline degree {p}) this gives n={n}, "
                       f"exact only up to degree {2 * int(n) - 1 if n == int(n) else '?'} < {deg}: the quadrature no longer has the requested "
                       "exactness, so integrands with the coefficient functions A..E (which the `degree` argument accounts for) are "
                       "integrated with a lower order than asked for")
        except Exception as e:
            ok, why = None, f"number of quadrature points `{text}` could not be evaluated: {e}"
    chk.ob("F4-quadrature-order", site, f"leggauss({text})", ok, why, file=U.POISSON, func=q)


def assembly(chk):
    fn = flat_view(chk, U.POISSON, CLS, "__init__")
    env = env_of(chk, fn)
    q = f"{CLS}.__init__"
    # innermost assembly loop: `for j, s_j in enumerate(range(i, ...), degree)` or `for s_j in range(i, ...)`, the loop whose
    # statements store into the diagonal lists
    loops = []
    for n in ast.walk(fn):
        if not isinstance(n, ast.For) or not any(
                isinstance(s_, ast.Assign) and isinstance(s_.targets[0], ast.Subscript) and isinstance(s_.targets[0].value, ast.Subscript)
                and isinstance(s_.targets[0].value.value, ast.Name) and s_.targets[0].value.value.id in LISTS for s_ in n.body):
            continue
        it = env.x(n.iter)
        if isinstance(n.target, ast.Tuple) and len(n.target.elts) == 2 and all(isinstance(e, ast.Name) for e in n.target.elts) and \
                isinstance(it, ast.Call) and src(it.func) == "enumerate" and it.args and isinstance(it.args[0], ast.Call) \
                and src(it.args[0].func) == "range":
            loops.append((n, it, it.args[0], n.target.elts[0].id, n.target.elts[1].id))
        elif isinstance(n.target, ast.Name) and isinstance(it, ast.Call) and src(it.func) == "range":
            loops.append((n, it, it, None, n.target.id))
    if len(loops) != 1:
        raise AnalysisError("C14: assembly loop `for j, s_j in enumerate(range(i, ...), degree)` not found")
    lp, it, rng, jn, sjn = loops[0]
    outer = parent(lp)
    iv = outer.target.id if isinstance(outer, ast.For) and isinstance(outer.target, ast.Name) else "i"
    UP = "j"
    LOW = "self._rspline.degree * 2 - j"
    spec = {
        ("massCoeffs", UP): W * MF * E_ * PHI0 * PSI0 * X,
        ("k2PhiPsiCoeffs", UP): W * MF * D_ * PHI0 * PSI0 * X,
        ("PhiPsiCoeffs", UP): W * MF * C_ * PHI0 * PSI0 * X,
        ("dPhidPsiCoeffs", UP): W * MF * (-A_) * PHI1 * PSI1 * X + W * MF * (-A_) * PHI1 * PSI0,
        ("dPhidPsiCoeffs", LOW): W * MF * (-A_) * PHI1 * PSI1 * X + W * MF * (-A_) * PHI0 * PSI1,
        ("dPhiPsiCoeffs", UP): W * MF * B_ * PHI1 * PSI0 * X,
        ("dPhiPsiCoeffs", LOW): W * MF * B_ * PHI0 * PSI1 * X,
    }
    what = {
        "massCoeffs": "mass = Q[E phi_j psi_i r]", "k2PhiPsiCoeffs": "k2 = Q[D phi_j psi_i r]",
        "PhiPsiCoeffs": "PhiPsi = Q[C phi_j psi_i r]",
        "dPhidPsiCoeffs": "dPhidPsi = Q[-A phi' psi' r] + Q[-A phi' psi] (A phi'' psi r integrated by parts, derivative of the "
                          "extra term on the trial/column function)",
        "dPhiPsiCoeffs": "dPhiPsi = Q[B phi' psi r] (derivative on the trial/column function)",
    }
    table = factor_table(sjn, iv)
    stop = ASSEMBLY_STOP | {jn, sjn, iv}
    wrong_basis = []
    seen = set()
    unkeyed = set()
    misplaced = []
    block_got = {}
    # entry L of a diagonal list is the diagonal of offset a + L of the block built by sparse.diags(list, range(a, b)); the counter
    # j of the loop is (start + k) for the column s_j = i + k: an upper entry needs a + L = k, its mirror image a + L = -k
    offsets = {}
    for n in ast.walk(fn):
        if isinstance(n, ast.Assign) and src(n.targets[0]) in BLOCKS:
            c = _diags_call(env.x(n.value, stop=set(LISTS), use=n))
            if c is not None and c.args and isinstance(c.args[0], ast.Name):
                off = c.args[1] if len(c.args) > 1 else next((k.value for k in c.keywords if k.arg == "offsets"), None)
                ox = off
                unresolved = ({x.id for x in ast.walk(ox) if isinstance(x, ast.Name)} & env.amb) if ox is not None else set()
                if isinstance(ox, ast.Call) and src(ox.func) == "range" and len(ox.args) in (1, 2) and not ox.keywords and not unresolved:
                    lo = ox.args[0] if len(ox.args) == 2 else ast.Constant(value=0)
                    offsets[c.args[0].id] = (lo, ox.args[-1], n)
    start = None
    if jn is not None:
        start = it.args[1] if len(it.args) > 1 else next((k.value for k in it.keywords if k.arg == "start"), ast.Constant(value=0))
    for st in lp.body:
        if not isinstance(st, ast.Assign):
            continue
        t = st.targets[0]
        if not (isinstance(t, ast.Subscript) and isinstance(t.value, ast.Subscript) and isinstance(t.value.value, ast.Name)):
            continue
        name = t.value.value.id
        dslice = env.x(t.value.slice, stop=stop, use=st)
        diag = src(dslice)
        shift = None
        if name in offsets:
            try:
                tb = {}
                # k = s_j - i, the distance of the column from the row: the counter minus its start, or the difference itself
                if jn is not None:
                    kk = _sym(ast.Name(id=jn, ctx=ast.Load()), tb) - _sym(start, tb)
                else:
                    kk = _sym(ast.Name(id=sjn, ctx=ast.Load()), tb) - _sym(ast.Name(id=iv, ctx=ast.Load()), tb)
                L_, a_ = _sym(dslice, tb), _sym(offsets[name][0], tb)
                e_up, e_low = sp.expand(a_ + L_ - kk), sp.expand(a_ + L_ + kk)
                loopsyms = {tb[x] for x in (jn, sjn, iv) if x in tb}
                if e_up == 0:
                    diag = UP
                elif e_low == 0:
                    diag = LOW
                elif _atomic(dslice) and _atomic(offsets[name][0]) and (start is None or _atomic(start)):
                    if not (e_up.free_symbols & loopsyms):
                        shift = ("k", e_up)
                    elif not (e_low.free_symbols & loopsyms):
                        shift = ("-k", e_low)
            except KeyError:
                pass
        row = src(t.slice)
        key = (name, diag)
        if shift is not None and name in what:
            misplaced.append(name)
            inv_ = {v: k for k, v in tb.items()}
            sh = str(shift[1].subs({v: sp.Symbol(k.replace("self._rspline.", "")) for v, k in inv_.items()}))
            chk.ob("F4-assembly-indexing", st, f"{name}[{src(dslice)}][{row}]", False,
                   f"the integral of row {iv} and column {sjn} = {iv} + k is stored in list entry `{src(dslice)}`, which "
                   f"sparse.diags(..., range({src(offsets[name][0])}, ...)) places on the diagonal of offset {shift[0]} + ({sh}) instead of "
                   f"{shift[0]}: the entries of this block are on the wrong diagonals", file=U.POISSON, func=q)
            key = (name, UP if shift[0] == "k" else LOW)       # the integrand is still judged
            diag = key[1]
        if key not in spec:
            if name in what:
                unkeyed.add(name)
                chk.ob("F4-weak-form", st, src(t), None, f"diagonal index `{diag}` not recognised", file=U.POISSON, func=q)
            continue
        seen.add(key)
        val = _TableLookup().visit(env.x(st.value, stop=stop, use=st))
        try:
            got = to_sym(val, {}, table)
        except WrongBasis as e:
            wrong_basis.append((st, str(e)))
            chk.ob("F4-weak-form", st, src(t), None, f"integrand evaluates basis function `{e}`", file=U.POISSON, func=q)
            continue
        except KeyError as e:
            chk.ob("F4-weak-form", st, src(t), None, f"integrand contains an unrecognised factor {e}", file=U.POISSON, func=q)
            continue
        if row != iv:
            chk.ob("F4-weak-form", st, src(t), None, f"entry position `{row}` is not the row index `{iv}`", file=U.POISSON, func=q)
            continue
        ok = alg_equal(sp.expand(got), sp.expand(spec[key]))
        block_got[key] = sp.expand(got)
        if not ok and name in ("dPhidPsiCoeffs", "dPhiPsiCoeffs", "PhiPsiCoeffs") and \
                alg_equal(sp.expand(got), sp.expand(-spec[key])):
            # a block stored with the opposite sign is a convention; the assembled operator decides (F4-weak-form-operator)
            chk.ob("F4-weak-form", st, f"{name}[{diag}][{row}]", True, what[name] + " - stored with the opposite sign; the sign is "
                   "accounted for where the operator is assembled", file=U.POISSON, func=q)
            continue
        chk.ob("F4-weak-form", st, f"{name}[{diag}][{row}]", ok, what[name] if ok else
               f"integrand {sp.expand(got)} differs from the weak form {sp.expand(spec[key])} ({what[name]})",
               file=U.POISSON, func=q, facts={"code": str(sp.expand(got)), "spec": str(sp.expand(spec[key]))})
    # the functions integrated are the row function i and the column function s_j of the entry
    okf = bool(seen) and not unkeyed and not wrong_basis and len(block_got) == len(seen)
    bad = None
    if wrong_basis:
        bad = (f"the entry of row {iv} and column {sjn} integrates basis function `{wrong_basis[0][1]}`, which is neither the row "
               f"function self._rspline[{iv}] nor the column function self._rspline[{sjn}]")
    chk.pat("F4-assembly-indexing", outer if isinstance(outer, ast.For) else lp, f"spline = self._rspline[{iv}]", okf,
            "the test function of every entry is basis function i (the row), the trial function basis function s_j (the column)", bad,
            file=U.POISSON, func=q)
    # the loop header: columns i .. i+degree of row i (the relation counter <-> diagonal is judged statement by statement above)
    ok_it = same_expr(rng, f"range({iv}, min({iv} + {DEG} + 1, {NB}))") and not unkeyed and bool(seen)
    bad = None
    if len(rng.args) >= 2 and arith_equal(rng.args[0], iv) is False:
        bad = (f"the columns `{sjn}` start at `{src(rng.args[0])}` instead of the row `{iv}`: the upper diagonals no longer pair "
               f"row {iv} with columns {iv}..{iv}+degree")
    if not misplaced:
        chk.pat("F4-assembly-indexing", lp, src(it)[:100], ok_it,
                "columns s_j = i + k, k = 0..degree, of row i; every entry is stored in the list entry that sparse.diags places on "
                "diagonal k (and -k for the mirrored ones)", bad, file=U.POISSON, func=q)
    missing = set(spec) - seen
    if missing:
        # entries written by statements this rule did not key (other loop, other index form) cannot be judged
        elsewhere = {n.targets[0].value.value.id for n in ast.walk(fn) if isinstance(n, ast.Assign)
                     and isinstance(n.targets[0], ast.Subscript) and isinstance(n.targets[0].value, ast.Subscript)
                     and isinstance(n.targets[0].value.value, ast.Name) and not any(n is s_ for s_ in lp.body)}
        decided = not any(nm in unkeyed or nm in elsewhere for nm, _ in missing)
        chk.ob("F4-weak-form", lp, "assembly statements", False if decided else None,
               f"no assembly statement for {sorted(missing)}" + (": these diagonals stay zero" if decided else
                                                                  " in the recognised form (written elsewhere?)"), file=U.POISSON, func=q)
    # symmetric forms: lower diagonals are references to the upper ones
    for nm in ("massCoeffs", "k2PhiPsiCoeffs", "PhiPsiCoeffs"):
        base = nm
        r_ = env.reaching(nm, lp)
        if r_[0] == "def" and isinstance(r_[2], ast.Name):
            base = r_[2].id                      # the list under the name it was built with
        ok = contains(fn, f"{base}.extend({base}[-2::-1])")
        bad = None
        if not ok:
            defs = [n for n in ast.walk(fn) if isinstance(n, ast.Assign) and src(n.targets[0]) == nm]
            ext = [n for n in ast.walk(fn) if isinstance(n, ast.Call) and isinstance(n.func, ast.Attribute)
                   and src(n.func.value) == nm and n.func.attr in ("extend", "append", "insert")]
            aug = [n for n in ast.walk(fn) if isinstance(n, ast.AugAssign) and src(n.target) == nm]
            full = len(defs) == 1 and isinstance(defs[0].value, ast.ListComp) and \
                same_expr(env.x(defs[0].value.generators[0].iter, use=defs[0]), f"range(-{DEG}, {DEG} + 1)")
            if full and not ext and not aug and (nm, LOW) not in seen and nm not in unkeyed and (nm, UP) in seen:
                bad = (f"`{nm}` is created with 2*degree+1 independent diagonals and the assembly fills only the upper ones: the lower "
                       "diagonals of this symmetric block stay zero, the matrix is not the symmetric form")
        chk.pat("F4-symmetric-storage", fn, f"{nm}.extend({nm}[-2::-1])", ok,
                "lower diagonals alias the upper ones (symmetric form filled once)", bad, file=U.POISSON, func=q)
    # quadrature points / half width
    quad = [n for n in ast.walk(fn) if isinstance(n, ast.Assign) and isinstance(n.value, ast.Call)
            and src(n.value.func).split(".")[-1] == "leggauss"]
    if len(quad) == 1 and len(quad[0].value.args) == 1 and not quad[0].value.keywords:
        tg = quad[0].targets[0]
        okl = isinstance(tg, ast.Tuple) and len(tg.elts) == 2 and src(tg.elts[0]) == "points" and src(tg.elts[1]) == "self._weights"
        bad = None
        if not okl and isinstance(tg, ast.Tuple) and len(tg.elts) == 2 and src(tg.elts[0]) == "self._weights" and src(tg.elts[1]) == "points":
            bad = "leggauss returns (points, weights): the weights are used as points and the points as weights"
        chk.pat("F4-quadrature-points", quad[0], "points, self._weights = leggauss(n)", okl,
                "reference Gauss-Legendre points and weights on [-1, 1]", bad, file=U.POISSON, func=q)
        quadrature_order(chk, fn, env, quad[0].value.args[0], quad[0])
    else:
        chk.ob("F4-quadrature-points", fn, "points, self._weights = leggauss(n)", None, "call of leggauss(n) not found", file=U.POISSON, func=q)
        chk.ob("F4-quadrature-order", fn, "leggauss(n)", None, "call of leggauss(n) not found", file=U.POISSON, func=q)
    half = "(self._rspline.breaks[1] - self._rspline.breaks[0]) * 0.5"
    items = []
    r = env.reaching("multFactor", lp)
    items.append(("multFactor", r[2] if r[0] == "def" else None, r[1] if r[0] == "def" else None, (), half,
                  "half width of a cell", "the quadrature weights are scaled by `{got}` instead of the half cell width (b1 - b0)/2: "
                  "every integral is off by a constant factor or wrong on non-matching cells"))
    ep = [n for n in ast.walk(fn) if isinstance(n, ast.Assign) and src(n.targets[0]) == "self._evalPts"]
    items.append(("self._evalPts", ep[0].value if len(ep) == 1 else None, ep[0] if len(ep) == 1 else None, ("startPoints", "points", "multFactor"),
                  "startPoints[:, None] + points[None, :] * multFactor", "cell midpoint + reference point x half width",
                  "the quadrature points are `{got}` instead of midpoint + reference point x half width: the integrands are sampled "
                  "at points that are not the Gauss-Legendre points of the cells"))
    if len(ep) == 1:
        r = env.reaching("startPoints", ep[0])
        items.append(("startPoints", r[2] if r[0] == "def" else None, r[1] if r[0] == "def" else None, (),
                      "(self._rspline.breaks[1:] + self._rspline.breaks[:-1]) * 0.5", "cell midpoints",
                      "the cell midpoints are `{got}` instead of (b[k+1] + b[k])/2: the quadrature points leave their cells"))
    for nm, val, at, stop_, spec_src, good_, bad_ in items:
        res, got = None, "?"
        if val is not None:
            ex = env.x(val, stop=stop_, use=at)
            got = src(ex)
            res = arith_equal(ex, spec_src) if not env.amb else None
        chk.pat("F4-quadrature-points", at if at is not None else fn, f"{nm} = {spec_src}", res, good_,
                bad_.format(got=got[:80]) if res is False else None, file=U.POISSON, func=q)
    # operator composition: the assembled theta-independent operator, block by block
    vec = operator_blocks(chk)
    lists = block_lists(fn, env)
    ok, why = None, "operator composition not extractable"
    if vec is not None and all(a_ in lists for a_ in vec):
        ok = True
        parts = []
        for diag in (UP, LOW):
            tot = 0
            want = spec[("dPhidPsiCoeffs", diag)] + spec[("dPhiPsiCoeffs", diag)] + spec[("PhiPsiCoeffs", UP)]
            for a_, c_ in vec.items():
                key = (lists[a_], diag) if (lists[a_], diag) in block_got else (lists[a_], UP)
                if key not in block_got:
                    ok = None
                    why = f"integrand of block {a_} not extracted"
                    break
                tot += c_ * block_got[key]
            if ok is None:
                break
            if not alg_equal(sp.expand(tot), sp.expand(want)):
                ok = False
                parts.append(f"{'upper' if diag == UP else 'lower'} diagonals: {sp.expand(tot)} instead of {sp.expand(want)}")
        if ok:
            why = ("sum over blocks (with their signs) of the assembled integrands = -A phi' psi' r - A phi' psi + B phi' psi r + C phi psi r "
                   f"on upper and lower diagonals; blocks {dict((k, str(v)) for k, v in vec.items())}")
        elif ok is False:
            why = "the assembled theta-independent operator is not the weak form of A phi'' + B phi' + C phi: " + "; ".join(parts)
    chk.ob("F4-weak-form-operator", fn, "self._stiffnessMatrix = sum of blocks", ok, why, file=U.POISSON, func=q)
    # diagonals -> matrices: 2*degree+1 consecutive offsets (which list entry lands on which offset is part of F4-assembly-indexing)
    for n in ast.walk(fn):
        if not (isinstance(n, ast.Assign) and src(n.targets[0]) in BLOCKS):
            continue
        c = _diags_call(env.x(n.value, stop=set(LISTS), use=n))
        okd = None
        if c is not None and c.args and isinstance(c.args[0], ast.Name) and c.args[0].id in offsets and offsets[c.args[0].id][2] is n:
            lo, hi, _ = offsets[c.args[0].id]
            okd = arith_equal(ast.BinOp(left=hi, op=ast.Sub(), right=lo), f"2 * {DEG} + 1") or None
        chk.pat("F4-operator", n, f"{src(n.targets[0])} = sparse.diags(..., range(-d, d+1))", okd,
                "the list of 2*degree+1 diagonals is placed on consecutive offsets", file=U.POISSON, func=q)


# =========================================================================================================
# per-mode solves
# =========================================================================================================

ENTRIES = ((CLS, "solveEquation", "_solveMode"), (CLS, "solveEquationForFunction", "_solveModeFunc"),
           (QNC, "solveEquation", "_solveMode"))
TABLES = ("self._mVals", "self._stiffness_range", "self._coeff_range")


def mode_loop(chk, cls, m):
    """(view, loop, local index name, global index name) of the per-mode loop of an entry point, or (view, None, ..)"""
    fn = flat_view(chk, U.POISSON, cls, m)
    env = env_of(chk, fn)
    for lp in [n for n in ast.walk(fn) if isinstance(n, ast.For)]:
        it = env.x(lp.iter)
        if isinstance(lp.target, ast.Tuple) and len(lp.target.elts) == 2 and isinstance(it, ast.Call) and src(it.func) == "enumerate" \
                and it.args and src(it.args[0]).replace(" ", "") in ("rho.getGlobalIdxVals(0)", "phi.getGlobalIdxVals(0)"):
            return fn, lp, src(lp.target.elts[0]), src(lp.target.elts[1])
    # the global index computed from the local one: I = <grid>.getLayout(<grid>.currentLayout).starts[0] + i
    for lp in [n for n in ast.walk(fn) if isinstance(n, ast.For)]:
        it = env.x(lp.iter)
        li = None
        if isinstance(lp.target, ast.Tuple) and len(lp.target.elts) == 2 and src(it).replace(" ", "") in ("rho.getCoords(0)", "phi.getCoords(0)"):
            li = src(lp.target.elts[0])
        elif isinstance(lp.target, ast.Name) and isinstance(it, ast.Call) and src(it.func) == "range" and len(it.args) == 1 and \
                src(it.args[0]).replace(" ", "") in ("len(rho.getGlobalIdxVals(0))", "len(phi.getGlobalIdxVals(0))",
                                                      "len(rho.getCoordVals(0))", "len(phi.getCoordVals(0))"):
            li = lp.target.id
        if li is None:
            continue
        for st in lp.body:
            if isinstance(st, ast.Assign) and len(st.targets) == 1 and isinstance(st.targets[0], ast.Name):
                v = env.x(st.value, use=st)
                if any(same_expr(v, f"{g}.getLayout({g}.currentLayout).starts[0] + {li}") or same_expr(v, f"{g}.getGlobalIdxVals(0)[{li}]")
                       for g in ("rho", "phi")) and not env.amb:
                    # every use of the name expands to this expression: it is the text the tables must be indexed with
                    return fn, lp, li, src(v)
    return fn, None, None, None


def _reset_targets(st):
    """boundary coefficients zeroed by a statement: subset of {0, -1}"""
    out = set()
    if isinstance(st, ast.Assign) and isinstance(st.value, ast.Constant) and st.value.value == 0 and not isinstance(st.value.value, bool):
        for t in st.targets:
            if isinstance(t, ast.Subscript) and src(t.value) == "self._coeffs":
                s = src(t.slice).replace(" ", "")
                if s in ("0", "-1"):
                    out.add(int(s))
                elif s in ("[0,-1]", "[-1,0]", "(0,-1)", "(-1,0)"):
                    out |= {0, -1}
    return out


def neumann_tables(chk, fn_init):
    q = f"{CLS}.__init__"
    uses = [n for n in ast.walk(fn_init) if isinstance(n, ast.Assign) and src(n.targets[0]) in ("self._coeff_range", "self._stiffness_range")]
    for u in uses:
        v = u.value
        ok, bad = False, None
        if isinstance(v, ast.ListComp) and len(v.generators) == 1 and isinstance(v.generators[0].target, ast.Name) \
                and isinstance(v.elt, ast.Call) and src(v.elt.func) == "slice" and len(v.elt.args) == 2:
            var = v.generators[0].target.id
            it = src(v.generators[0].iter)

            def members(e):
                return {src(c.comparators[0]) for c in ast.walk(e) if isinstance(c, ast.Compare) and len(c.ops) == 1
                        and isinstance(c.ops[0], ast.In) and src(c.left) == var}
            lo, hi = members(v.elt.args[0]), members(v.elt.args[1])
            ok = it == "self._mVals" and lo == {"lNeumannIdx"} and hi == {"uNeumannIdx"}
            if not ok and it == "self._mVals" and lo == {"uNeumannIdx"} and hi == {"lNeumannIdx"}:
                bad = ("the lower end of the slice is decided by the upper-boundary Neumann list and the upper end by the lower-boundary "
                       "list: modes get the boundary conditions of the opposite boundary")
        chk.pat("F4-mode-bookkeeping", u, src(u.targets[0]), ok, "one slice per mode, lower/upper Neumann membership decided per mode",
                bad, file=U.POISSON, func=q)
    return uses


def per_mode(chk):
    fn_init = flat_view(chk, U.POISSON, CLS, "__init__")
    env_i = env_of(chk, fn_init)
    # the numbers tested against the Neumann lists are the transform's own mode numbers
    from .C15 import mode_numbers
    mode_numbers(chk)
    # Neumann membership tests read the mode numbers before they are squared
    sq = [n for n in fn_init.body if isinstance(n, ast.AugAssign) and src(n.target) == "self._mVals" and isinstance(n.op, (ast.Mult, ast.Pow))]
    sq += [n for n in fn_init.body if isinstance(n, ast.Assign) and src(n.targets[0]) == "self._mVals" and "self._mVals" in src(n.value)]
    uses = neumann_tables(chk, fn_init)
    ok = len(uses) == 2 and all(env_i.before(u, q_) for u in uses for q_ in sq)
    bad = None
    if len(uses) == 2 and any(env_i.before(q_, u) for u in uses for q_ in sq):
        bad = "mode numbers are squared before the per-mode boundary tables are built: Neumann membership is tested on m^2"
    chk.pat("F4-mode-bookkeeping", sq[0] if sq else fn_init, "Neumann membership decided on m, before any squaring of self._mVals", ok,
            "boundary-condition membership is decided on the signed mode numbers m", bad,
            file=U.POISSON, func=f"{CLS}.__init__")
    # the derived solver's m=0 operator is built from the same blocks (their signs are this class's convention)
    from .C15 import m0_operator
    m0_operator(chk)
    mode_power(chk)
    # per-mode operator and Dirichlet reset inside the loop, before the solve
    for cls, m, callee in ENTRIES:
        fn, lp, li, gi = mode_loop(chk, cls, m)
        if lp is None:
            for rule in ("F4-dirichlet-reset", "F4-mode-operator"):
                chk.ob(rule, fn, f"{cls}.{m}: per-mode loop", None, "loop over enumerate(<grid>.getGlobalIdxVals(0)) not found",
                       file=U.POISSON, func=f"{cls}.{m}")
            continue
        env = env_of(chk, fn)
        body = lp.body
        pos_call = [k for k, s_ in enumerate(body) if any(isinstance(c, ast.Call) and isinstance(c.func, ast.Attribute)
                                                          and c.func.attr == callee for c in ast.walk(s_))]
        resets = {}
        for k, s_ in enumerate(body):
            for r_ in _reset_targets(s_):
                resets.setdefault(r_, k)
        ok = bool(pos_call) and set(resets) == {0, -1} and all(v < pos_call[0] for v in resets.values())
        bad = None
        if not ok and pos_call and not resets:
            # the reset may be the first thing the per-mode solve does
            cal = flat_view(chk, U.POISSON, CLS, callee)
            first = {}
            for k, s_ in enumerate(cal.body):
                if isinstance(s_, (ast.For, ast.While, ast.If, ast.Try, ast.With)):
                    break
                for r_ in _reset_targets(s_):
                    first.setdefault(r_, k)
                if any(isinstance(c, ast.Call) and src(c.func).split(".")[-1] == "spsolve" for c in ast.walk(s_)):
                    break
            if set(first) == {0, -1}:
                ok = True
        if not ok and pos_call:
            outside = [n for n in ast.walk(fn) if isinstance(n, ast.Assign) and _reset_targets(n) and not any(n is x for x in ast.walk(lp))]
            anyreset = any(isinstance(n, (ast.Assign, ast.AugAssign)) and any("self._coeffs[" in src(t) for t in
                                                                              (n.targets if isinstance(n, ast.Assign) else [n.target]))
                           for n in ast.walk(lp)) or \
                any(isinstance(n, ast.Call) and isinstance(n.func, ast.Attribute) and src(n.func.value) == "self._coeffs" for n in ast.walk(lp))
            late = bool(resets) and any(v > pos_call[0] for v in resets.values())
            if outside or not anyreset or late:
                bad = ("the boundary coefficients are not reset for every mode before the solve: the value written by a Neumann mode "
                       "leaks into the following Dirichlet modes (modes no longer independent, Dirichlet value non-zero)")
            elif set(resets) and set(resets) != {0, -1} and not any(isinstance(n, ast.If) for n in body):
                side = "upper" if 0 in resets else "lower"
                bad = (f"only one boundary coefficient is reset per mode: the {side} boundary value of a Neumann mode leaks into the "
                       "following Dirichlet modes")
        chk.pat("F4-dirichlet-reset", lp, f"{cls}.{m}: self._coeffs[0] = self._coeffs[-1] = 0 before each mode", ok,
                "both boundary coefficients are zeroed inside the per-mode loop before the solve, so a Neumann mode's boundary "
                "value cannot leak into the next Dirichlet mode", bad, file=U.POISSON, func=f"{cls}.{m}")
        # operator for mode I: restricted to the unknowns of the global mode index, every per-mode table read at that index
        oko, bad = False, None
        ops = [n for n in ast.walk(lp) if isinstance(n, (ast.Assign, ast.Expr, ast.Return))]
        tabs = []
        for s_ in ast.walk(lp):
            if isinstance(s_, ast.stmt):
                for e_ in _own_exprs(s_):
                    ex = env.x(e_, use=s_)
                    tabs += [n for n in ast.walk(ex) if isinstance(n, ast.Subscript) and src(n.value) in TABLES]
        wrong = sorted({src(n) for n in tabs if src(n.slice) != gi})
        if wrong:
            bad = f"per-mode tables are looked up with {wrong} instead of the global mode index `{gi}`"
        else:
            for s_ in ops:
                for e_ in _own_exprs(s_):
                    ex = env.x(e_, use=s_)
                    for n in ast.walk(ex):
                        if isinstance(n, ast.Subscript) and any(src(x) == "self._k2PhiPsi" for x in ast.walk(n.value)):
                            sl = n.slice
                            rng = f"self._stiffness_range[{gi}]"
                            if isinstance(sl, ast.Tuple) and len(sl.elts) == 2 and all(src(e2) == rng for e2 in sl.elts) \
                                    and any(src(x) == "self._stiffnessMatrix" for x in ast.walk(n.value)):
                                oko = True
                            elif isinstance(sl, ast.Tuple) and len(sl.elts) == 2 and {src(e2) for e2 in sl.elts} == {rng, ":"}:
                                bad = (f"the operator of mode {gi} is restricted to the unknowns of the mode in one direction only "
                                       f"(`[{src(sl)}]`): the matrix handed to the solve is not square / keeps Dirichlet columns")
        chk.pat("F4-mode-operator", lp, f"{cls}.{m}: operator of mode I", oko,
                "operator = (theta-independent operator - m_I^2 k2), restricted to the unknowns of mode I; every per-mode table is read at "
                "the global mode index", bad, file=U.POISSON, func=f"{cls}.{m}")
    mode_solve(chk)
    output_complete(chk)


def mode_solve(chk):
    """_solveMode: rhs = mass . coeffs(rho), unknowns written into the mode's coefficient range; both solves: evaluation of the
    full coefficient vector at the radial nodes, real and imaginary part"""
    q = f"{CLS}._solveMode"
    sm = flat_view(chk, U.POISSON, CLS, "_solveMode")
    env = env_of(chk, sm)
    pr = [a.arg for a in sm.args.args]
    li, gi = (pr[4], pr[5]) if len(pr) >= 6 else ("i", "I")
    solves = [n for n in ast.walk(sm) if isinstance(n, ast.Assign) and isinstance(n.value, ast.Call)
              and src(n.value.func).split(".")[-1] == "spsolve" and len(n.value.args) == 2]
    ok, bad = False, None
    if len(solves) == 1:
        st = solves[0]
        tgt = env.x(st.targets[0], use=st)
        mat = env.x(st.value.args[0], use=st)
        rhs = env.x(st.value.args[1], use=st)
        ts = src(tgt).replace(" ", "")
        ok_t = ts in (f"self._coeffs[self._coeff_range[{gi}]][:]", f"self._coeffs[self._coeff_range[{gi}]]")
        ok_m = src(mat) == (pr[3] if len(pr) >= 6 else "stiffnessMatrix")
        ok_r = same_expr(rhs, f"self._massMatrix[self._stiffness_range[{gi}], :].dot(self._spline.coeffs)") or \
            same_expr(rhs, f"self._massMatrix[self._stiffness_range[{gi}], :] @ self._spline.coeffs")
        zl = [n for n in ast.walk(sm) if isinstance(n, ast.For) and any(st is x for x in ast.walk(n))]
        jn = None
        if zl and isinstance(zl[0].target, ast.Tuple) and zl[0].target.elts and isinstance(zl[0].target.elts[0], ast.Name):
            jn = zl[0].target.elts[0].id
        interp = [c for c in ast.walk(sm) if isinstance(c, ast.Call) and isinstance(c.func, ast.Attribute) and c.func.attr == "compute_interpolant"]
        ok_i = False
        if len(interp) == 1 and len(interp[0].args) == 2 and jn is not None:
            a0 = env.x(interp[0].args[0], use=_stmt_of(interp[0]))
            ok_i = src(interp[0].func.value) == "self._interpolator" and src(a0).replace(" ", "") == f"rho.get1DSlice({li},{jn})" \
                and src(env.x(interp[0].args[1], use=_stmt_of(interp[0]))) == "self._spline" and env.before(interp[0], st)
        ok = ok_t and ok_m and ok_r and ok_i
        if not ok:
            rs = src(rhs)
            wrong_idx = sorted({src(n) for e_ in (tgt, rhs) for n in ast.walk(e_) if isinstance(n, ast.Subscript)
                                and src(n.value) in TABLES and src(n.slice) != gi})
            if wrong_idx:
                bad = f"per-mode tables are looked up with {wrong_idx} instead of the global mode index `{gi}`"
            elif "self._spline.coeffs" in rs and "_massMatrix" not in rs and isinstance(rhs, (ast.Attribute, ast.Subscript)):
                bad = ("the right-hand side of the solve is the coefficient vector of rho itself, not the mass matrix applied to it: "
                       "the equation solved is S phi = c(rho) instead of S phi = M c(rho)")
            elif ts.startswith("self._coeffs[self._stiffness_range["):
                bad = ("the solution is written to self._coeffs at the operator's row range instead of the mode's coefficient range: "
                       "with a Dirichlet lower boundary every coefficient is shifted by one")
    chk.pat("F4-mode-solve", solves[0] if len(solves) == 1 else sm, "_solveMode: coeffs[range_I] = S^-1 M[range_I,:] c(rho)", ok,
            "right-hand side is the mass matrix applied to the spline coefficients of rho; the solution fills the mode's unknowns, "
            "Dirichlet entries keep their zero", bad, file=U.POISSON, func=q)
    for name in ("_solveMode", "_solveModeFunc"):
        evaluation(chk, name)


def evaluation(chk, name):
    q = f"{CLS}.{name}"
    f_ = flat_view(chk, U.POISSON, CLS, name)
    env = env_of(chk, f_)
    stores = [n for n in ast.walk(f_) if isinstance(n, ast.Assign) and isinstance(n.targets[0], ast.Subscript)
              and src(env.x(n.targets[0].value, use=n)).startswith("phi.get1DSlice(")]
    ok, bad = False, None
    if len(stores) == 1:
        st = stores[0]
        blk, k = _block_of(st)
        loaded, mem, pts_ok, pts_bad = None, {}, True, None
        for s_ in blk[:k]:
            if isinstance(s_, ast.Assign) and src(s_.targets[0]).replace(" ", "") in ("self._real_spline.coeffs[:]", "self._real_spline.coeffs"):
                v = env.x(s_.value, use=s_)
                loaded = None
                for part in ("real", "imag"):
                    if same_expr(v, f"np.{part}(self._coeffs)") or same_expr(v, f"self._coeffs.{part}") or \
                            same_expr(v, f"numpy.{part}(self._coeffs)"):
                        loaded = part
                if loaded is None:
                    loaded = "?" + src(v)
            elif isinstance(s_, ast.Expr) and isinstance(s_.value, ast.Call) and isinstance(s_.value.func, ast.Attribute) \
                    and s_.value.func.attr == "eval_vector" and src(s_.value.func.value) == "self._real_spline" and len(s_.value.args) >= 2:
                pts = env.x(s_.value.args[0], use=s_)
                if not same_expr(pts, "phi.getCoordVals(2)"):
                    pts_ok = False
                    if isinstance(pts, ast.Call) and src(pts.func) == "phi.getCoordVals" and len(pts.args) == 1 \
                            and isinstance(pts.args[0], ast.Constant) and pts.args[0].value != 2:
                        pts_bad = src(pts)
                if len(s_.value.args) > 2 or s_.value.keywords:
                    pts_ok = False
                mem[src(env.x(s_.value.args[1], use=s_))] = loaded
            elif isinstance(s_, ast.Assign) and src(s_.targets[0]).replace(" ", "") in ("self._realMem[:]", "self._imagMem[:]") \
                    and isinstance(s_.value, ast.Call) and isinstance(s_.value.func, ast.Attribute) and s_.value.func.attr == "eval" \
                    and src(s_.value.func.value) == "self._real_spline" and len(s_.value.args) == 1:
                pts = env.x(s_.value.args[0], use=s_)
                if not same_expr(pts, "phi.getCoordVals(2)"):
                    pts_ok = False
                mem[src(s_.targets[0]).replace(" ", "")[:-3]] = loaded
        v = env.x(st.value, use=st)
        comb = same_expr(v, "self._realMem + 1j * self._imagMem") or same_expr(v, "self._realMem + self._imagMem * 1j")
        tg = src(st.targets[0].slice).replace(" ", "") == ":"
        if comb and tg and mem.get("self._realMem") == "real" and mem.get("self._imagMem") == "imag" and pts_ok:
            ok = True
        elif comb and tg and pts_bad:
            bad = f"the solution spline is evaluated at `{pts_bad}` instead of the grid's radial coordinates phi.getCoordVals(2)"
        elif comb and tg and pts_ok and set(mem) >= {"self._realMem", "self._imagMem"} and \
                all(mem[k_] in ("real", "imag") for k_ in ("self._realMem", "self._imagMem")):
            bad = (f"the real-part buffer holds the {mem['self._realMem']} part and the imaginary-part buffer the {mem['self._imagMem']} "
                   "part of the coefficients: the recombined values are not the complex solution")
    chk.pat("F4-mode-solve", stores[0] if len(stores) == 1 else f_, f"{name}: evaluation at the radial nodes", ok,
            "real and imaginary parts are evaluated from the full coefficient vector at the grid's r coordinates and recombined",
            bad, file=U.POISSON, func=q)


def output_complete(chk):
    # every (mode, z) line of the output is written: no path of the z loop skips the store into phi
    for name in ("_solveMode", "_solveModeFunc"):
        q_ = f"{CLS}.{name}"
        f_ = flat_view(chk, U.POISSON, CLS, name)
        env = env_of(chk, f_)
        stores = [n for n in ast.walk(f_) if isinstance(n, ast.Assign) and isinstance(n.targets[0], ast.Subscript)
                  and src(env.x(n.targets[0].value, use=n)).startswith("phi.get1DSlice(")]
        zl = [n for n in f_.body if isinstance(n, ast.For) and stores and any(stores[-1] is x for x in ast.walk(n))]
        if len(zl) != 1 or not stores:
            chk.ob("F4-output-complete", f_, f"{q_}: store into phi.get1DSlice(i, j) inside the z loop", None,
                   "z loop / output store not found", file=U.POISSON, func=q_)
            continue
        st_ = stores[-1]
        inner = {id(x) for n in ast.walk(zl[0]) if n is not zl[0] and isinstance(n, (ast.For, ast.While)) for x in ast.walk(n)}
        skips = [n for n in ast.walk(zl[0]) if isinstance(n, (ast.Continue, ast.Break, ast.Return)) and id(n) not in inner
                 and env.before(n, st_)]
        direct = any(st_ is x for x in zl[0].body)
        chk.ob("F4-output-complete", skips[0] if skips else st_, f"{q_}: every z line of the mode is written", (not skips and direct) if (skips or direct) else None,
               "the store into the output line is an unconditional statement of the z loop" if not skips and direct else
               (f"`{src(parent(skips[0]))[:80]}` leaves the z loop iteration before the output line is written: phi keeps whatever the buffer "
                "held (the previous solve), so the result is no longer the solution for this rho (not linear in rho, not zero for rho = 0)"
                if skips else "the store into the output line is conditional"), file=U.POISSON, func=q_)


def mode_power(chk):
    """the coefficient of the k2 block in every per-mode operator is -(m_I)^2, counting the squaring done once in the constructor"""
    fn_init = flat_view(chk, U.POISSON, CLS, "__init__")
    init_exp, unknown = 1, []
    for n in ast.walk(fn_init):
        if isinstance(n, ast.AugAssign) and src(n.target) == "self._mVals":
            if isinstance(n.op, ast.Mult) and src(n.value) == "self._mVals":
                init_exp *= 2
            elif isinstance(n.op, ast.Pow) and isinstance(n.value, ast.Constant) and isinstance(n.value.value, int):
                init_exp *= n.value.value
            else:
                unknown.append(n)
        elif isinstance(n, ast.Assign) and src(n.targets[0]) == "self._mVals" and "self._mVals" in src(n.value):
            v = src(n.value).replace(" ", "")
            if v in ("self._mVals**2", "self._mVals*self._mVals", "np.square(self._mVals)", "np.power(self._mVals,2)"):
                init_exp *= 2
            else:
                unknown.append(n)
        elif isinstance(n, (ast.Assign, ast.AugAssign)):
            for t in (n.targets if isinstance(n, ast.Assign) else [n.target]):
                if isinstance(t, ast.Subscript) and src(t.value) == "self._mVals":
                    unknown.append(n)
    nsites = 0
    for cls, m, _ in ENTRIES:
        fn = flat_view(chk, U.POISSON, cls, m)
        env = env_of(chk, fn)
        sites = []
        for st in ast.walk(fn):
            if not isinstance(st, ast.stmt):
                continue
            for e_ in _own_exprs(st):
                ex = env.x(e_, use=st)
                if not any(isinstance(x, ast.Attribute) and src(x) == "self._k2PhiPsi" for x in ast.walk(ex)):
                    continue
                _relink(ex, None)
                for n in ast.walk(ex):
                    if isinstance(n, ast.BinOp) and any(src(x) == "self._k2PhiPsi" for x in ast.walk(n)) and \
                            not (isinstance(parent(n), ast.BinOp) and any(src(x) == "self._k2PhiPsi" for x in ast.walk(parent(n)))):
                        sites.append((st, n))
        # a named part of the operator (`t = m*K; S - t`) is judged where it is used: keep the maximal expressions, once each
        texts = [src(n) for _, n in sites]
        keep = []
        for k, (st, n) in enumerate(sites):
            if any(j != k and texts[k] in texts[j] and len(texts[j]) > len(texts[k]) for j in range(len(sites))):
                continue
            if texts[k] in texts[:k]:
                continue
            keep.append((st, n))
        sites = keep
        if not sites:
            chk.ob("F4-mode-power", fn, f"{cls}.{m}: coefficient of the k2 block", None, "no expression involving self._k2PhiPsi found",
                   file=U.POISSON, func=f"{cls}.{m}")
            continue
        for st, site in sites:
            nsites += 1
            ok, why = None, ""
            try:
                table = {}
                ex = sp.expand(_sym(site, table))
                K = table["self._k2PhiPsi"]
                co = sp.Poly(ex, K).coeff_monomial(K)
                ms = [v for k, v in table.items() if k.startswith("self._mVals[")]
                if unknown:
                    why = f"self._mVals is modified by `{src(unknown[0])[:60]}` in the constructor: power of m not determined"
                elif len(ms) != 1 or (co.free_symbols - set(ms)):
                    why = f"coefficient of the k2 block is `{co}`: not a power of one mode number"
                else:
                    M = ms[0]
                    pw = sp.degree(co, M) if co.has(M) else 0
                    eff = pw * init_exp
                    idx = [k for k in table if k.startswith("self._mVals[")][0]
                    if sp.simplify(co + M ** pw) == 0 and eff == 2:
                        ok, why = True, (f"the k2 block enters with -({idx})^{pw}, the mode numbers being raised to the power {init_exp} once in the "
                                         "constructor: -m^2 D in total")
                    elif sp.simplify(co + M ** pw) == 0 or sp.simplify(co - M ** pw) == 0:
                        ok = False
                        sign = "-" if sp.simplify(co + M ** pw) == 0 else "+"
                        why = (f"the k2 block enters with {sign}({idx})^{pw} and the constructor raises the mode numbers to the power {init_exp}: "
                               f"the operator contains {sign}m^{eff} D instead of -m^2 D" +
                               (" (+m and -m get different operators)" if eff % 2 else ""))
                    else:
                        why = f"coefficient of the k2 block is `{co}`"
            except (KeyError, sp.PolynomialError) as e:
                why = f"operator expression `{src(site)[:70]}` not an arithmetic expression: {e}"
            chk.ob("F4-mode-power", st, f"{cls}.{m}: {src(site)[:70]}", ok, why, file=U.POISSON, func=f"{cls}.{m}")
    return nsites


def refusal(chk):
    fn = flat_view(chk, U.POISSON, CLS, "__init__")
    env = env_of(chk, fn)
    raises = [n for n in ast.walk(fn) if isinstance(n, ast.Raise)]
    ok = False
    bad = None
    for r in raises:
        g = parent(r)
        if not (isinstance(g, ast.If) and any(r is x for x in g.body)):
            continue
        t = env.x(g.test, stop=set(COEFF_FUNCS), use=g)
        ts = src(t).replace(" ", "")
        both = any(same_expr(c, f"[b for b in {a_} if b in {b_}]", vars=("b",)) for c in ast.walk(t) if isinstance(c, ast.ListComp)
                   for a_, b_ in (("lNeumannIdx", "uNeumannIdx"), ("uNeumannIdx", "lNeumannIdx"))) or \
            "set(lNeumannIdx)&set(uNeumannIdx)" in ts or "set(uNeumannIdx)&set(lNeumannIdx)" in ts or \
            "set(lNeumannIdx).intersection(uNeumannIdx)" in ts or "set(uNeumannIdx).intersection(lNeumannIdx)" in ts
        null = [c for c in ast.walk(t) if isinstance(c, ast.Call) and src(c.func) == "self.funcIsNull" and len(c.args) == 1
                and src(c.args[0]) == "rFactor"]
        if both and null:
            negated = any(isinstance(n, ast.UnaryOp) and isinstance(n.op, ast.Not) and any(null[0] is x for x in ast.walk(n.operand))
                          for n in ast.walk(t))
            if negated:
                bad = ("pure-Neumann modes are refused when the reaction term does NOT vanish and accepted when it does: the singular "
                       "problems go through")
            elif isinstance(t, ast.BoolOp) and isinstance(t.op, ast.And):
                ok = True
    if not raises:
        bad = "no refusal of ill-posed pure-Neumann modes is left in the constructor"
    chk.pat("F4-neumann-refusal", fn, "raise ValueError for modes Neumann at both ends with C == 0", ok,
            "modes with Neumann conditions on both boundaries are refused when the reaction term vanishes", bad,
            file=U.POISSON, func=f"{CLS}.__init__")


def run(chk):
    chk.explanation = (
        "Element-wise model of the assembly in DiffEqSolver.__init__: each np.sum(weights*halfwidth*...) integrand is parsed "
        "(local names expanded to their definitions) into a polynomial over {W, MF, A..E, phi, phi', psi, psi', r} and compared "
        "with the weak form of A phi'' + B phi' + C phi - m^2 D phi = E rho in cylindrical measure (integration by parts of the A "
        "term for constant A, derivative on the trial/column function on both the upper and the mirrored diagonals); number of "
        "Gauss-Legendre points against the requested degree (2n-1 >= degree for all degrees); cell mapping of the points; operator "
        "composition; mode-number def-use order; Dirichlet reset inside every per-mode loop; per-mode operator with the global "
        "mode index (helper methods written back in place); right-hand side and evaluation; pure-Neumann refusal; plus the "
        "index-space typing of the per-mode tables (engine C). The sparse solve and evaluation accuracy are not decided.")
    chk.in_file(U.POISSON)
    assembly(chk)
    per_mode(chk)
    refusal(chk)
    solver_index_spaces(ViewedCheck(chk))
    chk.floor("F4-weak-form", 7)
    chk.floor("F4-", 20)
    chk.floor("C-", 10)
